#!/bin/bash
# MANIFEST.setup_cmd: offline build of the harness against /repo (nothing is fetched).
set -eu
HERE="$(cd "$(dirname "${BASH_SOURCE[0]}")" && pwd)"
export CARGO_NET_OFFLINE=true
export CARGO_TARGET_DIR="${VERIF_TARGET_DIR:-$HERE/target}"
"$HERE/build.sh" "${VERIF_REPO_DIR:-/repo}"
