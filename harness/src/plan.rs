//! Generators: block-tree plans (interpreted against the RefModel), transaction steps, delivery
//! schedules.  A plan is plain data (serde) so that it shrinks and replays as one value.
use crate::common::pick_idx;
use crate::model::*;
use crate::node::Env;
use ckb_types::{
    bytes::Bytes,
    core::{Capacity, TransactionBuilder, TransactionView, UncleBlockView},
    packed::{CellInput, CellOutput, OutPoint, Script},
    prelude::*,
};
use proptest::prelude::*;
use serde::{Deserialize, Serialize};
use std::collections::{BTreeMap, BTreeSet};

#[derive(Clone, Debug, Serialize, Deserialize)]
pub struct TxStep {
    /// selectors over spendable cells (live in the parent state or created earlier in this step)
    pub inputs: Vec<u16>,
    pub outputs: u8,
    pub fee: u8,
    pub data_len: u8,
    /// distinct lock args variant (affects hashes / indexer keys)
    pub lock_variant: u8,
    /// 0 ordinary transfer, 1 NervosDAO deposit, 2 DAO withdraw phase 1, 3 DAO withdraw phase 2
    #[serde(default)]
    pub kind: u8,
}

#[derive(Clone, Debug, Serialize, Deserialize)]
pub struct BlockStep {
    pub parent_mode: u8,
    pub parent: u16,
    pub ts: u8,
    pub uncles: u8,
    pub uncle_sel: u16,
    /// transactions created (and proposed) by this block
    pub new_txs: Vec<TxStep>,
    /// additionally re-propose up to this many already known, uncommitted txs
    pub repropose: u8,
    pub repropose_sel: u16,
    /// which committable candidates to commit: bit i of the mask <-> candidate i (mod 16)
    pub commit_mask: u16,
    pub miner: u8,
    pub ext_extra: u8,
    /// 0 = valid block; otherwise index into the invalid-kind table (if applicable here)
    pub invalid: u8,
}

#[derive(Clone, Debug, Serialize, Deserialize)]
pub struct TreePlan {
    pub steps: Vec<BlockStep>,
}

#[derive(Clone, Debug, Default)]
pub struct PlanParams {
    pub max_blocks: usize,
    pub min_blocks: usize,
    pub fork_pct: u8,
    pub tx_rate: u8,
    pub invalid_pct: u8,
    pub uncle_pct: u8,
    /// share of generated transactions that are NervosDAO operations (needs the fake-DAO spec)
    pub dao_pct: u8,
}

pub fn tx_step_strategy() -> impl Strategy<Value = TxStep> {
    tx_step_strategy_with(0)
}

pub fn tx_step_strategy_with(dao_pct: u8) -> impl Strategy<Value = TxStep> {
    let d = dao_pct as u32;
    (
        proptest::collection::vec(any::<u16>(), 1..=3),
        1u8..=3,
        0u8..8,
        prop_oneof![4 => Just(0u8), 2 => 1u8..20, 1 => 20u8..200],
        0u8..4,
        prop_oneof![(100 - d).max(1) => Just(0u8), d.max(1) => 1u8..=3],
    )
        .prop_map(move |(inputs, outputs, fee, data_len, lock_variant, kind)| TxStep {
            inputs,
            outputs,
            fee,
            data_len,
            lock_variant,
            kind: if dao_pct == 0 { 0 } else { kind },
        })
}

pub fn block_step_strategy(p: &PlanParams) -> impl Strategy<Value = BlockStep> + use<> {
    let fork = p.fork_pct as u32;
    let txr = p.tx_rate as u32;
    let inv = p.invalid_pct as u32;
    let unc = p.uncle_pct as u32;
    let dao = p.dao_pct;
    (
        // parent_mode: 0 = extend best tip, 1 = extend another leaf, 2 = fork from a recent block
        prop_oneof![
            (100 - fork).max(1) => Just(0u8),
            (fork / 2).max(1) => Just(1u8),
            (fork - fork / 2).max(1) => Just(2u8),
        ],
        any::<u16>(),
        prop_oneof![3 => Just(0u8), 3 => Just(1u8), 3 => Just(2u8), 2 => Just(3u8), 1 => Just(4u8), 2 => Just(5u8)],
        prop_oneof![(100 - unc).max(1) => Just(0u8), unc.max(1) => 1u8..=2],
        any::<u16>(),
        prop_oneof![
            (100 - txr).max(1) => Just(vec![]),
            txr.max(1) => proptest::collection::vec(tx_step_strategy_with(dao), 1..=3),
        ],
        prop_oneof![3 => Just(0u8), 1 => 1u8..=2],
        any::<u16>(),
        prop_oneof![3 => Just(0xffffu16), 1 => any::<u16>(), 1 => Just(0u16)],
        0u8..4,
        prop_oneof![3 => Just(0u8), 1 => 1u8..=64],
        prop_oneof![(100 - inv).max(1) => Just(0u8), inv.max(1) => 1u8..=12],
    )
        .prop_map(
            move |(parent_mode, parent, ts, uncles, uncle_sel, new_txs, repropose, repropose_sel, commit_mask, miner, ext_extra, invalid)| {
                let invalid = if inv == 0 { 0 } else { invalid };
                let uncles = if unc == 0 { 0 } else { uncles };
                BlockStep {
                    parent_mode,
                    parent,
                    ts,
                    uncles,
                    uncle_sel,
                    new_txs,
                    repropose,
                    repropose_sel,
                    commit_mask,
                    miner,
                    ext_extra,
                    invalid,
                }
            },
        )
}

pub fn tree_plan_strategy(p: PlanParams) -> impl Strategy<Value = TreePlan> {
    proptest::collection::vec(block_step_strategy(&p), p.min_blocks..=p.max_blocks)
        .prop_map(|steps| TreePlan { steps })
}

/// what the interpreter produced
pub struct Built {
    pub tree: Tree,
    /// created blocks in creation order (genesis excluded)
    pub blocks: Vec<H>,
    /// every tx ever created by the plan: proposal id -> tx
    pub txs: BTreeMap<[u8; 10], TransactionView>,
    pub labels: BTreeMap<String, u64>,
    /// steps that could not be honoured as asked (e.g. invalid kind not applicable) — counted
    pub excluded_known: u64,
}

#[derive(Clone, Copy, Debug, PartialEq, Eq)]
pub enum InvalidKind {
    DaoC,
    DaoAr,
    DaoS,
    DaoU,
    RewardPlus,
    RewardMinus,
    ChainRoot,
    NoExtension,
    UnproposedCommit,
    DoubleSpend,
    BadTxRoot,
    TimestampTooOld,
}

pub const INVALID_KINDS: [InvalidKind; 12] = [
    InvalidKind::DaoC,
    InvalidKind::DaoAr,
    InvalidKind::DaoS,
    InvalidKind::DaoU,
    InvalidKind::RewardPlus,
    InvalidKind::RewardMinus,
    InvalidKind::ChainRoot,
    InvalidKind::NoExtension,
    InvalidKind::UnproposedCommit,
    InvalidKind::DoubleSpend,
    InvalidKind::BadTxRoot,
    InvalidKind::TimestampTooOld,
];

impl InvalidKind {
    /// rejected by the context-free checks (never stored) rather than at branch verification
    pub fn non_contextual(self) -> bool {
        matches!(self, InvalidKind::BadTxRoot)
    }
    /// rejected by the header check of the submit pipeline
    pub fn header_level(self) -> bool {
        matches!(self, InvalidKind::TimestampTooOld)
    }
}

pub fn lock_variant(env: &Env, v: u8) -> Script {
    if v == 0 {
        env.always_success_lock.clone()
    } else {
        env.always_success_lock
            .clone()
            .as_builder()
            .args(Bytes::from(vec![v; v as usize]).pack())
            .build()
    }
}

fn is_spendable_lock(env: &Env, s: &Script) -> bool {
    s.code_hash() == env.always_success_lock.code_hash() && s.hash_type() == env.always_success_lock.hash_type()
}

/// Build one transaction over `avail` (spendable cells: key -> (output, data_len)); returns the
/// tx and removes/adds the cells in `avail`.
pub fn build_tx(
    env: &Env,
    step: &TxStep,
    avail: &mut BTreeMap<CellKey, (CellOutput, usize)>,
) -> Option<TransactionView> {
    if avail.is_empty() {
        return None;
    }
    let mut inputs = vec![];
    let mut in_cap: u64 = 0;
    let mut in_occ: u128 = 0;
    for sel in &step.inputs {
        if avail.is_empty() {
            break;
        }
        let k = *avail.keys().nth(pick_idx(*sel as u32, avail.len())).unwrap();
        let (o, dl) = avail.remove(&k).unwrap();
        in_cap += cap(&o);
        in_occ += occupied_shannons(&o, dl);
        inputs.push(k);
    }
    let _ = in_occ;
    let fee: u64 = match step.fee {
        0 => 0,
        1 => 1,
        2 => 9,
        3 => 1000,
        4 => 100_000,
        5 => 12_345_678,
        6 => 100_000_000,
        _ => 3,
    };
    let n_out = step.outputs.max(1) as u64;
    let lock = lock_variant(env, step.lock_variant);
    let data = Bytes::from(vec![step.data_len; step.data_len as usize]);
    // smallest possible output for this lock/data
    let probe = CellOutput::new_builder().lock(lock.clone()).build();
    let min_cap = occupied_shannons(&probe, data.len()) as u64;
    if in_cap < fee + min_cap {
        // cannot pay: give the inputs back
        return None;
    }
    let mut n = n_out;
    while n > 1 && (in_cap - fee) / n < min_cap {
        n -= 1;
    }
    let total = in_cap - fee;
    let each = total / n;
    let mut tb = TransactionBuilder::default().cell_dep(env.always_success_dep.clone());
    for k in &inputs {
        tb = tb.input(CellInput::new(out_point_of(k), 0));
    }
    let mut outs = vec![];
    for i in 0..n {
        let c = if i == n - 1 { total - each * (n - 1) } else { each };
        let o = CellOutput::new_builder()
            .capacity(Capacity::shannons(c))
            .lock(lock.clone())
            .build();
        tb = tb.output(o.clone()).output_data(data.clone());
        outs.push(o);
    }
    let tx = tb.build();
    for (i, o) in outs.into_iter().enumerate() {
        avail.insert((h32(&tx.hash()), i as u32), (o, data.len()));
    }
    Some(tx)
}

pub struct Interp<'a> {
    pub env: &'a Env,
    pub tree: Tree,
    pub blocks: Vec<H>,
    pub txs: BTreeMap<[u8; 10], TransactionView>,
    pub labels: BTreeMap<String, u64>,
    pub excluded_known: u64,
    /// pay the node's value for the known C06 block-1 proposer clamp so histories continue
    pub tolerate_reward_quirk: bool,
    /// optional replacement of `build_tx` (C18 extends the script universe of the outputs)
    pub tx_builder: Option<TxBuilderFn>,
    /// optional replacement of the spendable-cell filter used with `tx_builder`
    pub spendable_filter: Option<fn(&Env, &LiveCell) -> bool>,
    /// never spend cellbase outputs (genesis excepted) in generated transactions (specs with cellbase_maturity > 0:
    /// the generated history must stay valid, maturity is exercised by C04's own candidates)
    pub exclude_cellbase_inputs: bool,
}

/// signature of `build_tx`
pub type TxBuilderFn = fn(&Env, &TxStep, &mut BTreeMap<CellKey, (CellOutput, usize)>) -> Option<TransactionView>;

impl<'a> Interp<'a> {
    pub fn new(env: &'a Env) -> Self {
        Interp {
            env,
            tree: Tree::new(env.consensus.clone()),
            blocks: vec![],
            txs: BTreeMap::new(),
            labels: BTreeMap::new(),
            excluded_known: 0,
            tolerate_reward_quirk: true,
            tx_builder: None,
            spendable_filter: None,
            exclude_cellbase_inputs: false,
        }
    }

    fn label(&mut self, l: &str) {
        *self.labels.entry(l.to_string()).or_insert(0) += 1;
    }

    pub fn leaves(&self) -> Vec<H> {
        let mut has_child: BTreeSet<[u8; 32]> = BTreeSet::new();
        for h in &self.tree.order {
            has_child.insert(h32(&self.tree.get(h).parent));
        }
        self.tree
            .order
            .iter()
            .filter(|h| !has_child.contains(&h32(h)))
            .cloned()
            .collect()
    }

    /// best fully valid tip of the model (max TD; first created wins ties)
    pub fn best_valid_tip(&self) -> H {
        let mut best = self.tree.genesis.clone();
        for h in &self.tree.order {
            let b = self.tree.get(h);
            if self.chain_valid(h) && b.td > self.tree.get(&best).td {
                best = h.clone();
            }
        }
        best
    }

    pub fn chain_valid(&self, h: &H) -> bool {
        self.tree.path(h).iter().all(|b| b.invalid.is_none())
    }

    fn pick_parent(&self, step: &BlockStep) -> H {
        match step.parent_mode {
            0 => {
                // heaviest leaf (valid or not: building on invalid branches is part of the game)
                let leaves = self.leaves();
                let mut best = leaves[0].clone();
                for l in &leaves {
                    if self.tree.get(l).td > self.tree.get(&best).td {
                        best = l.clone();
                    }
                }
                best
            }
            1 => {
                let leaves = self.leaves();
                leaves[pick_idx(step.parent as u32, leaves.len())].clone()
            }
            // the tip of the heaviest fully valid chain (what an honest miner extends)
            3 => self.best_valid_tip(),
            _ => {
                // fork from one of the most recent 12 blocks (or genesis)
                let n = self.tree.order.len();
                let lo = n.saturating_sub(12);
                let idx = lo + pick_idx(step.parent as u32, n - lo);
                self.tree.order[idx].clone()
            }
        }
    }

    fn timestamp(&self, parent: &H, kind: u8) -> u64 {
        let p = self.tree.get(parent);
        let pts = p.block.timestamp();
        let median = self.tree.median_time(parent);
        let want = match kind {
            0 => pts + 1,
            1 => pts + 1000,
            2 => pts + 8000,
            3 => pts + 48_000,
            4 => pts + 400_000,
            _ => median + 1,
        };
        // epoch duration is `tail.timestamp - previous_tail.timestamp` (unsigned) in the code under
        // test: keep every timestamp above the previous epoch's tail (see DESIGN §4 item 9)
        want.max(median + 1).max(self.prev_tail_ts(parent) + 1)
    }

    fn prev_tail_ts(&self, parent: &H) -> u64 {
        let p = self.tree.get(parent);
        // the new block may itself open a new epoch: then `parent` is the previous tail
        let mut ts = p.block.timestamp().min(u64::MAX);
        let tail_prev = if p.epoch.number() == 0 {
            self.tree.get(&self.tree.genesis).block.timestamp()
        } else {
            self.tree
                .get(&p.epoch.last_block_hash_in_previous_epoch())
                .block
                .timestamp()
        };
        if p.number + 1 >= p.epoch.start_number() + p.epoch.length() {
            // child of an epoch tail: its epoch's previous tail is `parent`
            ts = ts.max(tail_prev);
            ts
        } else {
            tail_prev
        }
    }

    fn uncle_candidates(&self, parent: &H) -> Vec<H> {
        let p = self.tree.get(parent);
        let n = p.number + 1;
        // epoch of the new block
        let new_epoch = if p.number + 1 >= p.epoch.start_number() + p.epoch.length() {
            p.epoch.number() + 1
        } else {
            p.epoch.number()
        };
        let mut v = vec![];
        for h in &self.tree.order {
            let u = self.tree.get(h);
            if u.number == 0 || u.number >= n {
                continue;
            }
            if u.block.epoch().number() != new_epoch {
                continue;
            }
            if self.tree.is_ancestor(h, parent) {
                continue;
            }
            if p.state.uncles.contains_key(&h32(h)) {
                continue;
            }
            // descent: the uncle's parent is on this branch or is an uncle included on it
            let up = &u.parent;
            let on_branch = self.tree.is_ancestor(up, parent);
            let embedded = p.state.uncles.contains_key(&h32(up));
            if !(on_branch || embedded) {
                continue;
            }
            // same target: within one epoch of one branch the target is fixed, but the uncle may
            // come from a branch with a different epoch-1 difficulty
            v.push(h.clone());
        }
        v
    }

    /// spendable cells for new transactions on top of `parent`
    fn spendable(&self, parent: &H) -> BTreeMap<CellKey, (CellOutput, usize)> {
        let st = &self.tree.get(parent).state;
        st.live
            .iter()
            .filter(|(_, c)| match self.spendable_filter {
                Some(f) => f(self.env, c),
                None => is_spendable_lock(self.env, &c.output.lock()) && c.output.type_().to_opt().is_none(),
            })
            .filter(|(_, c)| !(self.exclude_cellbase_inputs && c.cellbase && c.block_number > 0))
            .map(|(k, c)| (*k, (c.output.clone(), c.data.len())))
            .collect()
    }

    /// live NervosDAO cells (deposit or withdrawing) on top of `parent`
    fn dao_cells(&self, parent: &H) -> BTreeMap<CellKey, LiveCell> {
        let st = &self.tree.get(parent).state;
        st.live
            .iter()
            .filter(|(_, c)| c.output.type_().to_opt().map(|t| t == self.env.dao_type).unwrap_or(false))
            .map(|(k, c)| (*k, c.clone()))
            .collect()
    }

    fn build_dao_deposit(&self, ts: &TxStep, avail: &mut BTreeMap<CellKey, (CellOutput, usize)>) -> Option<TransactionView> {
        if avail.is_empty() {
            return None;
        }
        let k = *avail.keys().nth(pick_idx(ts.inputs[0] as u32, avail.len())).unwrap();
        let (o, _) = avail.remove(&k).unwrap();
        let in_cap = cap(&o);
        let fee: u64 = [0u64, 1, 1000, 100_000][ts.fee as usize % 4];
        let out = CellOutput::new_builder()
            .capacity(Capacity::shannons(in_cap - fee))
            .lock(self.env.always_success_lock.clone())
            .type_(Some(self.env.dao_type.clone()).pack())
            .build();
        if occupied_shannons(&out, 8) + 100_000_000 > (in_cap - fee) as u128 {
            return None;
        }
        Some(
            TransactionBuilder::default()
                .cell_dep(self.env.always_success_dep.clone())
                .cell_dep(self.env.dao_dep.clone())
                .input(CellInput::new(out_point_of(&k), 0))
                .output(out)
                .output_data(Bytes::from(vec![0u8; 8]))
                .build(),
        )
    }

    fn build_dao_phase1(&self, parent: &H, ts: &TxStep, dao: &mut BTreeMap<CellKey, LiveCell>) -> Option<TransactionView> {
        let cands: Vec<CellKey> = dao
            .iter()
            .filter(|(_, c)| c.data.iter().all(|b| *b == 0) && c.block_number > 0)
            .map(|(k, _)| *k)
            .collect();
        if cands.is_empty() {
            return None;
        }
        let k = cands[pick_idx(ts.inputs[0] as u32, cands.len())];
        let c = dao.remove(&k).unwrap();
        let deposit = self.tree.ancestor(parent, c.block_number)?;
        Some(
            TransactionBuilder::default()
                .cell_dep(self.env.always_success_dep.clone())
                .cell_dep(self.env.dao_dep.clone())
                .header_dep(deposit.hash.clone())
                .input(CellInput::new(out_point_of(&k), 0))
                .output(c.output.clone())
                .output_data(Bytes::from(c.block_number.to_le_bytes().to_vec()))
                .build(),
        )
    }

    fn build_dao_phase2(&self, parent: &H, ts: &TxStep, dao: &mut BTreeMap<CellKey, LiveCell>) -> Option<TransactionView> {
        let cands: Vec<CellKey> = dao
            .iter()
            .filter(|(_, c)| c.data.len() == 8 && c.data.iter().any(|b| *b != 0))
            .map(|(k, _)| *k)
            .collect();
        if cands.is_empty() {
            return None;
        }
        let k = cands[pick_idx(ts.inputs[0] as u32, cands.len())];
        let c = dao.remove(&k).unwrap();
        let deposit_number = u64::from_le_bytes(c.data[..8].try_into().ok()?);
        let d = self.tree.ancestor(parent, deposit_number)?;
        let w = self.tree.ancestor(parent, c.block_number)?;
        let (maxw, _) = self.tree.dao_withdraw_value(&c, parent).ok()?;
        let fee: u64 = [0u64, 1, 1000, 100_000][ts.fee as usize % 4];
        let out = CellOutput::new_builder()
            .capacity(Capacity::shannons(maxw - fee))
            .lock(self.env.always_success_lock.clone())
            .build();
        let witness = ckb_types::packed::WitnessArgs::new_builder()
            .input_type(Some(Bytes::from(0u64.to_le_bytes().to_vec())).pack())
            .build();
        Some(
            TransactionBuilder::default()
                .cell_dep(self.env.always_success_dep.clone())
                .cell_dep(self.env.dao_dep.clone())
                .header_dep(d.hash.clone())
                .header_dep(w.hash.clone())
                .input(CellInput::new(out_point_of(&k), 0))
                .output(out)
                .output_data(Bytes::new())
                .witness(witness.as_bytes().pack())
                .build(),
        )
    }

    /// committable candidates in deterministic order, honouring in-block dependencies
    fn commit_candidates(&self, parent: &H) -> Vec<TransactionView> {
        let ids = self.tree.committable(parent);
        let st = &self.tree.get(parent).state;
        let mut out = vec![];
        let mut created: BTreeSet<CellKey> = BTreeSet::new();
        let mut spent: BTreeSet<CellKey> = BTreeSet::new();
        // iterate to a fixed point so that parents come before children
        let mut pending: Vec<&TransactionView> = ids.iter().filter_map(|id| self.txs.get(id)).collect();
        pending.retain(|tx| !st.tx_index.contains_key(&h32(&tx.hash())));
        loop {
            let mut progressed = false;
            let mut rest = vec![];
            for tx in pending {
                let ins: Vec<CellKey> = tx.inputs().into_iter().map(|i| cell_key(&i.previous_output())).collect();
                let deps_ok = tx
                    .header_deps_iter()
                    .all(|h| self.tree.blocks.contains_key(&h) && self.tree.is_ancestor(&h, parent));
                let ok = deps_ok
                    && ins
                        .iter()
                        .all(|k| (st.live.contains_key(k) || created.contains(k)) && !spent.contains(k));
                if ok {
                    for k in ins {
                        spent.insert(k);
                    }
                    for j in 0..tx.outputs().len() {
                        created.insert((h32(&tx.hash()), j as u32));
                    }
                    out.push(tx.clone());
                    progressed = true;
                } else {
                    rest.push(tx);
                }
            }
            pending = rest;
            if !progressed || pending.is_empty() {
                break;
            }
        }
        out
    }

    pub fn apply_step(&mut self, step: &BlockStep) -> Option<H> {
        let parent = self.pick_parent(step);
        let pnum = self.tree.get(&parent).number;
        let mut spec = BlockSpec {
            timestamp: self.timestamp(&parent, step.ts),
            ..Default::default()
        };
        if step.miner > 0 {
            spec.miner_lock = Some(lock_variant(self.env, step.miner));
        } else {
            spec.miner_lock = Some(self.env.always_success_lock.clone());
        }
        spec.extension_extra = vec![0xe7; step.ext_extra as usize];
        spec.message = vec![step.miner];
        // uncles
        if step.uncles > 0 {
            let cands = self.uncle_candidates(&parent);
            let mut chosen: Vec<H> = vec![];
            for i in 0..step.uncles.min(self.env.consensus.max_uncles_num() as u8) {
                if cands.is_empty() {
                    break;
                }
                let c = cands[pick_idx(step.uncle_sel.wrapping_add(i as u16 * 7919) as u32, cands.len())].clone();
                if !chosen.contains(&c) {
                    chosen.push(c);
                }
            }
            // the epoch target must match
            let p = self.tree.get(&parent);
            let new_block_target = self
                .env
                .consensus
                .next_epoch_ext(&p.block.header(), &ModelEpochView(&self.tree))
                .map(|e| e.epoch().compact_target());
            chosen.retain(|c| Some(self.tree.get(c).block.compact_target()) == new_block_target);
            // an uncle whose parent is another chosen uncle must come after it
            chosen.sort_by_key(|c| self.tree.get(c).number);
            spec.uncles = chosen
                .iter()
                .map(|c| self.tree.get(c).block.as_uncle())
                .collect::<Vec<UncleBlockView>>();
            if !spec.uncles.is_empty() {
                self.label("block:with-uncles");
            }
        }
        // new transactions created + proposed here
        let mut avail = self.spendable(&parent);
        let mut dao_avail = self.dao_cells(&parent);
        let mut proposals = vec![];
        for ts in &step.new_txs {
            let built_tx = match ts.kind {
                1 => self.build_dao_deposit(ts, &mut avail),
                2 => self.build_dao_phase1(&parent, ts, &mut dao_avail),
                3 => self.build_dao_phase2(&parent, ts, &mut dao_avail),
                _ => (self.tx_builder.unwrap_or(build_tx))(self.env, ts, &mut avail),
            };
            if let Some(tx) = built_tx {
                if ts.kind != 0 {
                    self.label(match ts.kind {
                        1 => "tx:dao-deposit",
                        2 => "tx:dao-withdraw-phase1",
                        _ => "tx:dao-withdraw-phase2",
                    });
                }
                let id = tx.proposal_short_id();
                proposals.push(id.clone());
                self.txs.insert(pid(&id), tx);
            }
        }
        // re-propose known uncommitted txs (also proposed on other branches)
        if step.repropose > 0 && !self.txs.is_empty() {
            let st = self.tree.get(&parent).state.clone();
            let known: Vec<[u8; 10]> = self
                .txs
                .iter()
                .filter(|(_, tx)| !st.tx_index.contains_key(&h32(&tx.hash())))
                .map(|(id, _)| *id)
                .collect();
            for i in 0..step.repropose {
                if known.is_empty() {
                    break;
                }
                let id = known[pick_idx(step.repropose_sel.wrapping_add(i as u16 * 104_729u32 as u16) as u32, known.len())];
                let pidv = ckb_types::packed::ProposalShortId::from_slice(&id).unwrap();
                if !proposals.contains(&pidv) {
                    proposals.push(pidv);
                    self.label("block:re-proposal");
                }
            }
        }
        spec.proposals = proposals;
        // commits
        let cands = self.commit_candidates(&parent);
        let mut commit = vec![];
        let mut skipped: BTreeSet<CellKey> = BTreeSet::new();
        for (i, tx) in cands.iter().enumerate() {
            let take = (step.commit_mask >> (i % 16)) & 1 == 1;
            let depends_on_skipped = tx
                .inputs()
                .into_iter()
                .any(|inp| skipped.contains(&cell_key(&inp.previous_output())));
            if take && !depends_on_skipped {
                commit.push(tx.clone());
            } else {
                for j in 0..tx.outputs().len() {
                    skipped.insert((h32(&tx.hash()), j as u32));
                }
            }
        }
        if !commit.is_empty() {
            self.label("block:with-commits");
        }
        spec.txs = commit;

        let mut opts = BuildOpts {
            use_node_reward_quirk: self.tolerate_reward_quirk,
            ..Default::default()
        };
        let mut invalid: Option<InvalidKind> = None;
        if step.invalid > 0 {
            let kind = INVALID_KINDS[(step.invalid as usize - 1) % INVALID_KINDS.len()];
            let has_reward = pnum + 1 > self.tree.window().1 + 1;
            match kind {
                InvalidKind::DaoC => opts.dao_delta[0] = 1,
                InvalidKind::DaoAr => opts.dao_delta[1] = 1,
                InvalidKind::DaoS => opts.dao_delta[2] = 1,
                InvalidKind::DaoU => opts.dao_delta[3] = 1,
                InvalidKind::RewardPlus if has_reward => opts.reward_delta = 1,
                InvalidKind::RewardMinus if has_reward => opts.reward_delta = -1,
                InvalidKind::ChainRoot => opts.flip_chain_root = true,
                InvalidKind::NoExtension => opts.no_extension = true,
                InvalidKind::UnproposedCommit | InvalidKind::DoubleSpend => {}
                InvalidKind::BadTxRoot | InvalidKind::TimestampTooOld => {}
                _ => {}
            }
            let applicable = match kind {
                InvalidKind::RewardPlus | InvalidKind::RewardMinus => has_reward,
                InvalidKind::UnproposedCommit => {
                    // commit a fresh, never proposed tx
                    let mut avail2 = self.spendable(&parent);
                    for tx in &spec.txs {
                        for i in tx.inputs().into_iter() {
                            avail2.remove(&cell_key(&i.previous_output()));
                        }
                    }
                    let ts = TxStep {
                        inputs: vec![step.parent],
                        outputs: 1,
                        fee: 3,
                        data_len: 0,
                        lock_variant: 0,
                        kind: 0,
                    };
                    match build_tx(self.env, &ts, &mut avail2) {
                        Some(tx) if !self.tree.committable(&parent).contains(&pid(&tx.proposal_short_id())) => {
                            spec.txs.push(tx);
                            true
                        }
                        _ => false,
                    }
                }
                InvalidKind::DoubleSpend => false, // built below through a raw block edit
                _ => true,
            };
            if applicable {
                invalid = Some(kind);
            }
        }
        let built = match invalid {
            Some(InvalidKind::UnproposedCommit) => self.build_unchecked_commit(&parent, &spec, &opts),
            _ => self.tree.build(&parent, &spec, &opts),
        };
        let mut mb = match built {
            Ok(b) => b,
            Err(_e) => {
                self.label("step:unbuildable");
                return None;
            }
        };
        // header/structure level mutations are applied on the finished block
        match invalid {
            Some(InvalidKind::BadTxRoot) => {
                let b = mb
                    .block
                    .as_advanced_builder()
                    .transactions_root(ckb_types::packed::Byte32::zero())
                    .build_unchecked();
                mb.hash = b.hash();
                mb.block = b;
            }
            Some(InvalidKind::TimestampTooOld) => {
                let median = self.tree.median_time(&parent);
                // keep the (unsigned) epoch-duration subtraction of the code under test in range
                // for blocks built on top of this one (DESIGN §4 item 9)
                if median > self.prev_tail_ts(&parent) {
                    let b = mb.block.as_advanced_builder().timestamp(median).build();
                    mb.hash = b.hash();
                    mb.block = b;
                } else {
                    invalid = None;
                }
            }
            _ => {}
        }
        if let Some(k) = invalid {
            mb.invalid = Some(format!("{k:?}"));
            self.label(&format!("invalid:{k:?}"));
        }
        if self.tree.blocks.contains_key(&mb.hash) {
            self.label("step:duplicate-block");
            return None;
        }
        if let Some(r) = self.tree.reward_for_child_of(&parent) {
            if r.proposer != r.proposer_node_quirk {
                self.excluded_known += 1;
                self.label("known:C06-block1-proposer-clamp");
            }
            if r.proposer > 0 {
                self.label("block:pays-proposer-reward");
            }
        }
        let h = self.tree.insert(mb);
        self.blocks.push(h.clone());
        Some(h)
    }

    /// like Tree::build but the committed-but-unproposed tx is allowed (the model's state
    /// transition is what matters for descendants, the block itself is flagged invalid)
    fn build_unchecked_commit(&self, parent: &H, spec: &BlockSpec, opts: &BuildOpts) -> Result<MBlock, String> {
        self.tree.build(parent, spec, opts)
    }

    pub fn run(mut self, plan: &TreePlan) -> Built {
        // anchor: a plain valid child of genesis, always delivered first; re-delivering it is the
        // FIFO barrier through the chain service threads (see c01::quiesce)
        let anchor = BlockStep {
            parent_mode: 0,
            parent: 0,
            ts: 1,
            uncles: 0,
            uncle_sel: 0,
            new_txs: vec![],
            repropose: 0,
            repropose_sel: 0,
            commit_mask: 0,
            miner: 0,
            ext_extra: 0,
            invalid: 0,
        };
        self.apply_step(&anchor);
        for s in &plan.steps {
            self.apply_step(s);
        }
        Built {
            tree: self.tree,
            blocks: self.blocks,
            txs: self.txs,
            labels: self.labels,
            excluded_known: self.excluded_known,
        }
    }
}

#[allow(dead_code)]
fn _unused(_: OutPoint) {}
