//! JSON layer of C15: packed -> JSON -> packed identity, serde_json string round trip, the JSON
//! document equals an independently built expectation (field by field from the interpreter's
//! tree), the expectation deserialises to the same packed bytes; textual edge cases of
//! Uint32/Uint64/Uint128/JsonBytes/H256-like strings.
use super::c15::{generate, guarded, hx, note_nontrivial, run_sub, world};
use super::c15_hash::{self as h, ckbhash};
use super::c15_typed::{normalize, tape_strategy};
use crate::common::*;
use crate::molschema::{Schema, Val, fld};
use crate::{vensure, vfail};
use ckb_jsonrpc_types as j;
use ckb_types::prelude::*;
use ckb_types::{core, packed};
use proptest::prelude::*;
use serde::{Deserialize, Serialize, de::DeserializeOwned};
use serde_json::{Map, Value, json};

// ------------------------------------------------------------------------------------------
// expected JSON documents, from the interpreter's tree
// ------------------------------------------------------------------------------------------

pub fn hexs(b: &[u8]) -> String {
    format!("0x{}", hex(b))
}

fn n32(v: &Val) -> Value {
    json!(format!("0x{:x}", v.u32()))
}
fn n64(v: &Val) -> Value {
    json!(format!("0x{:x}", v.u64()))
}
fn n128(v: &Val) -> Value {
    json!(format!("0x{:x}", v.u128()))
}
fn hb(v: &Val) -> Value {
    json!(hexs(v.raw()))
}

fn hash_type_name(b: u8) -> String {
    match b {
        0 => "data".into(),
        1 => "type".into(),
        n => format!("data{}", n >> 1),
    }
}

pub fn j_script(s: &Schema, v: &Val) -> Value {
    let t = "Script";
    json!({
        "code_hash": hb(fld(s, t, v, "code_hash")),
        "hash_type": hash_type_name(fld(s, t, v, "hash_type").byte()),
        "args": hb(fld(s, t, v, "args")),
    })
}

pub fn j_out_point(s: &Schema, v: &Val) -> Value {
    json!({"tx_hash": hb(fld(s, "OutPoint", v, "tx_hash")), "index": n32(fld(s, "OutPoint", v, "index"))})
}

pub fn j_cell_input(s: &Schema, v: &Val) -> Value {
    let t = "CellInput";
    json!({"since": n64(fld(s, t, v, "since")), "previous_output": j_out_point(s, fld(s, t, v, "previous_output"))})
}

pub fn j_cell_output(s: &Schema, v: &Val) -> Value {
    let t = "CellOutput";
    json!({
        "capacity": n64(fld(s, t, v, "capacity")),
        "lock": j_script(s, fld(s, t, v, "lock")),
        "type": fld(s, t, v, "type_").opt().map(|x| j_script(s, x)).unwrap_or(Value::Null),
    })
}

pub fn j_cell_dep(s: &Schema, v: &Val) -> Value {
    let t = "CellDep";
    let d = if fld(s, t, v, "dep_type").byte() == 0 { "code" } else { "dep_group" };
    json!({"out_point": j_out_point(s, fld(s, t, v, "out_point")), "dep_type": d})
}

fn arr(v: &Val, f: impl Fn(&Val) -> Value) -> Value {
    Value::Array(v.seq().iter().map(f).collect())
}

pub fn j_tx(s: &Schema, v: &Val) -> Value {
    let raw = fld(s, "Transaction", v, "raw");
    let t = "RawTransaction";
    json!({
        "version": n32(fld(s, t, raw, "version")),
        "cell_deps": arr(fld(s, t, raw, "cell_deps"), |x| j_cell_dep(s, x)),
        "header_deps": arr(fld(s, t, raw, "header_deps"), hb),
        "inputs": arr(fld(s, t, raw, "inputs"), |x| j_cell_input(s, x)),
        "outputs": arr(fld(s, t, raw, "outputs"), |x| j_cell_output(s, x)),
        "outputs_data": arr(fld(s, t, raw, "outputs_data"), hb),
        "witnesses": arr(fld(s, "Transaction", v, "witnesses"), hb),
    })
}

pub fn j_header(s: &Schema, v: &Val) -> Value {
    let raw = fld(s, "Header", v, "raw");
    let t = "RawHeader";
    json!({
        "version": n32(fld(s, t, raw, "version")),
        "compact_target": n32(fld(s, t, raw, "compact_target")),
        "timestamp": n64(fld(s, t, raw, "timestamp")),
        "number": n64(fld(s, t, raw, "number")),
        "epoch": n64(fld(s, t, raw, "epoch")),
        "parent_hash": hb(fld(s, t, raw, "parent_hash")),
        "transactions_root": hb(fld(s, t, raw, "transactions_root")),
        "proposals_hash": hb(fld(s, t, raw, "proposals_hash")),
        "extra_hash": hb(fld(s, t, raw, "extra_hash")),
        "dao": hb(fld(s, t, raw, "dao")),
        "nonce": n128(fld(s, "Header", v, "nonce")),
    })
}

pub fn j_uncle(s: &Schema, v: &Val) -> Value {
    json!({
        "header": j_header(s, fld(s, "UncleBlock", v, "header")),
        "proposals": arr(fld(s, "UncleBlock", v, "proposals"), hb),
    })
}

/// `ty` is "Block" or "BlockV1"
pub fn j_block(s: &Schema, ty: &str, v: &Val) -> Value {
    let mut m = Map::new();
    m.insert("header".into(), j_header(s, fld(s, ty, v, "header")));
    m.insert("uncles".into(), arr(fld(s, ty, v, "uncles"), |x| j_uncle(s, x)));
    m.insert("transactions".into(), arr(fld(s, ty, v, "transactions"), |x| j_tx(s, x)));
    m.insert("proposals".into(), arr(fld(s, ty, v, "proposals"), hb));
    if ty == "BlockV1" {
        m.insert("extension".into(), hb(fld(s, ty, v, "extension")));
    }
    Value::Object(m)
}

fn with(mut v: Value, k: &str, x: Value) -> Value {
    v.as_object_mut().unwrap().insert(k.into(), x);
    v
}

// ------------------------------------------------------------------------------------------
// sub-property "json"
// ------------------------------------------------------------------------------------------

pub const JSON_TYPES: &[&str] = &[
    "Script",
    "OutPoint",
    "CellInput",
    "CellOutput",
    "CellDep",
    "Transaction",
    "Header",
    "UncleBlock",
    "Block",
    "BlockV1",
    "TransactionView",
    "HeaderView",
    "UncleBlockView",
    "BlockView",
    "BlockViewV1",
    "Byte32",
    "ProposalShortId",
    "Bytes",
    "Uint32",
    "Uint64",
    "Uint128",
];

#[derive(Clone, Debug, Serialize, Deserialize)]
pub struct JsonCase {
    pub ty: String,
    pub tape: Vec<u8>,
}

fn json_strategy() -> impl Strategy<Value = JsonCase> {
    (0..JSON_TYPES.len(), tape_strategy()).prop_map(|(i, tape)| JsonCase { ty: JSON_TYPES[i].to_string(), tape })
}

/// The generic part: J::from(packed) serialises to `expect`; J round-trips through its string;
/// P::from(J) gives the bytes back; `expect` itself deserialises to a J that converts to the
/// same bytes.
fn check_json<P, J>(ty: &str, p: P, bytes: &[u8], expect: &Value) -> Verdict
where
    P: Entity + From<J>,
    J: From<P> + Serialize + DeserializeOwned + PartialEq + std::fmt::Debug + Clone,
{
    let jv: J = guarded("From<packed> for json", ty, || J::from(p))?;
    let got = serde_json::to_value(&jv)
        .map_err(|e| Violation::new(format!("json:serialize-failed:{ty}"), e.to_string()))?;
    if got != *expect {
        let field = first_diff(&got, expect);
        vfail!(
            format!("json:document-differs-from-value:{ty}:{field}"),
            "json {ty} of packed {} is {got} but field by field the value is {expect} (first difference at {field})",
            hx(bytes)
        );
    }
    let back: P = guarded("From<json> for packed", ty, || P::from(jv.clone()))?;
    vensure!(
        back.as_slice() == bytes,
        format!("json:packed-json-packed-not-identity:{ty}"),
        "{ty}: packed -> json -> packed gives {} instead of {}",
        hx(back.as_slice()),
        hx(bytes)
    );
    let text = serde_json::to_string(&jv).map_err(|e| Violation::new(format!("json:serialize-failed:{ty}"), e.to_string()))?;
    let reparsed: J = match serde_json::from_str(&text) {
        Ok(x) => x,
        Err(e) => vfail!(format!("json:own-output-rejected:{ty}"), "{ty}: from_str(to_string(j)) fails: {e}; text {text}"),
    };
    vensure!(
        reparsed == jv,
        format!("json:string-roundtrip-differs:{ty}"),
        "{ty}: from_str(to_string(j)) != j for {text}"
    );
    let text2 = serde_json::to_string(&reparsed).unwrap_or_default();
    vensure!(text2 == text, format!("json:string-not-stable:{ty}"), "{ty}: {text} re-serialises as {text2}");
    // the independently built document must be accepted and mean the same packed value
    let from_expect: J = match serde_json::from_value(expect.clone()) {
        Ok(x) => x,
        Err(e) => vfail!(format!("json:expected-document-rejected:{ty}"), "{ty}: {expect} is rejected: {e}"),
    };
    let back2: P = guarded("From<json> for packed", ty, || P::from(from_expect))?;
    vensure!(
        back2.as_slice() == bytes,
        format!("json:document-to-packed-differs:{ty}"),
        "{ty}: the document {expect} converts to {} instead of {}",
        hx(back2.as_slice()),
        hx(bytes)
    );
    Ok(())
}

/// path of the first difference between two JSON documents
fn first_diff(a: &Value, b: &Value) -> String {
    match (a, b) {
        (Value::Object(x), Value::Object(y)) => {
            for (k, v) in x {
                match y.get(k) {
                    None => return format!("{k}(unexpected)"),
                    Some(w) if w != v => {
                        let d = first_diff(v, w);
                        return if d.is_empty() { k.clone() } else { format!("{k}.{d}") };
                    }
                    _ => {}
                }
            }
            for k in y.keys() {
                if !x.contains_key(k) {
                    return format!("{k}(missing)");
                }
            }
            String::new()
        }
        (Value::Array(x), Value::Array(y)) => {
            if x.len() != y.len() {
                return "[len]".into();
            }
            for (v, w) in x.iter().zip(y) {
                if v != w {
                    let d = first_diff(v, w);
                    return if d.is_empty() { "[]".into() } else { format!("[].{d}") };
                }
            }
            String::new()
        }
        _ => String::new(),
    }
}

fn prop_json(c: &JsonCase, st: &mut Stats) -> Verdict {
    let w = world();
    let s = &w.schema;
    let ty = c.ty.as_str();
    st.label(&format!("json:{ty}"));
    // the molecule type the tape is interpreted as
    let mol = match ty {
        "TransactionView" => "Transaction",
        "HeaderView" => "Header",
        "UncleBlockView" => "UncleBlock",
        "BlockView" => "Block",
        "BlockViewV1" => "BlockV1",
        other => other,
    };
    let mut val = generate(mol, &c.tape);
    normalize(s, mol, &mut val, false);
    let bytes = s.encode(mol, &val);
    if s.shape(mol, &val).nondefault_deep > 0 {
        st.label("json:nontrivial");
        note_nontrivial(st, &("json", ty, &bytes));
    }
    macro_rules! dec {
        ($t:ident) => {
            match packed::$t::from_slice(&bytes) {
                Ok(p) => p,
                Err(e) => vfail!(format!("json:canonical-rejected:{ty}"), "{e}"),
            }
        };
    }
    match ty {
        "Script" => check_json::<packed::Script, j::Script>(ty, dec!(Script), &bytes, &j_script(s, &val)),
        "OutPoint" => check_json::<packed::OutPoint, j::OutPoint>(ty, dec!(OutPoint), &bytes, &j_out_point(s, &val)),
        "CellInput" => check_json::<packed::CellInput, j::CellInput>(ty, dec!(CellInput), &bytes, &j_cell_input(s, &val)),
        "CellOutput" => {
            check_json::<packed::CellOutput, j::CellOutput>(ty, dec!(CellOutput), &bytes, &j_cell_output(s, &val))
        }
        "CellDep" => check_json::<packed::CellDep, j::CellDep>(ty, dec!(CellDep), &bytes, &j_cell_dep(s, &val)),
        "Transaction" => check_json::<packed::Transaction, j::Transaction>(ty, dec!(Transaction), &bytes, &j_tx(s, &val)),
        "Header" => check_json::<packed::Header, j::Header>(ty, dec!(Header), &bytes, &j_header(s, &val)),
        "UncleBlock" => check_json::<packed::UncleBlock, j::UncleBlock>(ty, dec!(UncleBlock), &bytes, &j_uncle(s, &val)),
        "Block" => check_json::<packed::Block, j::Block>(ty, dec!(Block), &bytes, &j_block(s, "Block", &val)),
        "BlockV1" => {
            let p = dec!(BlockV1).as_v0();
            check_json::<packed::Block, j::Block>(ty, p, &bytes, &j_block(s, "BlockV1", &val))
        }
        "Byte32" => check_json::<packed::Byte32, j::Byte32>(ty, dec!(Byte32), &bytes, &hb(&val)),
        "ProposalShortId" => {
            check_json::<packed::ProposalShortId, j::ProposalShortId>(ty, dec!(ProposalShortId), &bytes, &hb(&val))
        }
        "Bytes" => check_json::<packed::Bytes, j::JsonBytes>(ty, dec!(Bytes), &bytes, &hb(&val)),
        "Uint32" => check_json::<packed::Uint32, j::Uint32>(ty, dec!(Uint32), &bytes, &n32(&val)),
        "Uint64" => check_json::<packed::Uint64, j::Uint64>(ty, dec!(Uint64), &bytes, &n64(&val)),
        "Uint128" => check_json::<packed::Uint128, j::Uint128>(ty, dec!(Uint128), &bytes, &n128(&val)),
        "TransactionView" => {
            let p = dec!(Transaction);
            let view = guarded("into_view", ty, || p.into_view())?;
            let raw = s.encode("RawTransaction", fld(s, "Transaction", &val, "raw"));
            let expect = with(j_tx(s, &val), "hash", json!(hexs(&ckbhash(&[&raw]))));
            let jv: j::TransactionView = guarded("From<core::TransactionView>", ty, || view.into())?;
            view_doc(ty, &jv, &expect, &bytes)
        }
        "HeaderView" => {
            let p = dec!(Header);
            let view = guarded("into_view", ty, || p.into_view())?;
            let expect = with(j_header(s, &val), "hash", json!(hexs(&ckbhash(&[&bytes]))));
            let jv: j::HeaderView = guarded("From<core::HeaderView>", ty, || view.into())?;
            view_doc(ty, &jv, &expect, &bytes)?;
            let back: core::HeaderView = guarded("From<json::HeaderView>", ty, || jv.into())?;
            vensure!(
                back.data().as_slice() == bytes && back.hash().as_slice() == ckbhash(&[&bytes]),
                "json:core-json-core-not-identity:HeaderView",
                "HeaderView -> json -> HeaderView: data {} hash {}",
                hx(back.data().as_slice()),
                hx(back.hash().as_slice())
            );
            Ok(())
        }
        "UncleBlockView" => {
            let p = dec!(UncleBlock);
            let view = guarded("into_view", ty, || p.into_view())?;
            let hdr = s.encode("Header", fld(s, "UncleBlock", &val, "header"));
            let expect = json!({
                "header": with(j_header(s, fld(s, "UncleBlock", &val, "header")), "hash", json!(hexs(&ckbhash(&[&hdr])))),
                "proposals": arr(fld(s, "UncleBlock", &val, "proposals"), hb),
            });
            let jv: j::UncleBlockView = guarded("From<core::UncleBlockView>", ty, || view.into())?;
            view_doc(ty, &jv, &expect, &bytes)
        }
        "BlockView" | "BlockViewV1" => {
            // a consistent block (roots recomputed by the harness) so that json -> core, which
            // goes through into_view(), is expected to be the identity
            let consistent = h::with_reset_header(s, mol, &val);
            let cbytes = s.encode(mol, &consistent);
            let p = match packed::Block::from_compatible_slice(&cbytes) {
                Ok(p) => p,
                Err(e) => vfail!(format!("json:canonical-rejected:{ty}"), "{e}"),
            };
            let view = guarded("into_view_without_reset_header", ty, || p.into_view_without_reset_header())?;
            let x = h::block_expect(s, mol, &consistent);
            let hv = |hval: &Val, hash: &[u8; 32]| with(j_header(s, hval), "hash", json!(hexs(hash)));
            let mut m = Map::new();
            m.insert("header".into(), hv(fld(s, mol, &consistent, "header"), &x.header_hash));
            let uncles: Vec<Value> = fld(s, mol, &consistent, "uncles")
                .seq()
                .iter()
                .zip(&x.uncle_hashes)
                .map(|(u, uh)| {
                    json!({"header": hv(fld(s, "UncleBlock", u, "header"), uh),
                           "proposals": arr(fld(s, "UncleBlock", u, "proposals"), hb)})
                })
                .collect();
            m.insert("uncles".into(), Value::Array(uncles));
            let txs: Vec<Value> = fld(s, mol, &consistent, "transactions")
                .seq()
                .iter()
                .zip(&x.tx_hashes)
                .map(|(t, th)| with(j_tx(s, t), "hash", json!(hexs(th))))
                .collect();
            m.insert("transactions".into(), Value::Array(txs));
            m.insert("proposals".into(), arr(fld(s, mol, &consistent, "proposals"), hb));
            if mol == "BlockV1" {
                m.insert("extension".into(), hb(fld(s, mol, &consistent, "extension")));
            }
            let expect = Value::Object(m);
            let jv: j::BlockView = guarded("From<core::BlockView>", ty, || view.into())?;
            view_doc(ty, &jv, &expect, &cbytes)?;
            let back: core::BlockView = guarded("From<json::BlockView>", ty, || jv.into())?;
            vensure!(
                back.data().as_slice() == cbytes && back.hash().as_slice() == x.header_hash,
                format!("json:core-json-core-not-identity:{ty}"),
                "{ty} -> json -> core: data {} (want {}) hash {}",
                hx(back.data().as_slice()),
                hx(&cbytes),
                hx(back.hash().as_slice())
            );
            Ok(())
        }
        other => Err(Violation::new("replay-format", format!("no json route for {other}"))),
    }
}

/// views are one-directional (core -> json): document equality + string round trip
fn view_doc<J>(ty: &str, jv: &J, expect: &Value, bytes: &[u8]) -> Verdict
where
    J: Serialize + DeserializeOwned + PartialEq + std::fmt::Debug,
{
    let got = serde_json::to_value(jv).map_err(|e| Violation::new(format!("json:serialize-failed:{ty}"), e.to_string()))?;
    if got != *expect {
        let field = first_diff(&got, expect);
        vfail!(
            format!("json:document-differs-from-value:{ty}:{field}"),
            "json {ty} of {} is {got} but field by field the value is {expect} (first difference at {field})",
            hx(bytes)
        );
    }
    let text = serde_json::to_string(jv).unwrap_or_default();
    let re: J = match serde_json::from_str(&text) {
        Ok(x) => x,
        Err(e) => vfail!(format!("json:own-output-rejected:{ty}"), "{ty}: from_str(to_string(j)) fails: {e}; text {text}"),
    };
    vensure!(re == *jv, format!("json:string-roundtrip-differs:{ty}"), "{ty}: from_str(to_string(j)) != j for {text}");
    Ok(())
}

// ------------------------------------------------------------------------------------------
// sub-property "jsontext": textual forms of numbers and byte strings
// ------------------------------------------------------------------------------------------

#[derive(Clone, Debug, Serialize, Deserialize)]
pub struct TextCase {
    /// 0 Uint32, 1 Uint64, 2 Uint128, 3 JsonBytes, 4 Byte32, 5 ProposalShortId, 6 H256
    pub kind: u8,
    pub text: String,
}

fn text_strategy() -> impl Strategy<Value = TextCase> {
    let prefix = prop_oneof![
        16 => Just("0x"), 1 => Just(""), 1 => Just("0X"), 1 => Just("x"), 1 => Just("0"), 1 => Just("0x0x"),
        1 => Just(" 0x"), 1 => Just("0x+"), 1 => Just("0x-"), 1 => Just("+0x"),
    ];
    let digit = prop_oneof![
        60 => proptest::sample::select(b"0123456789abcdef".to_vec()),
        3 => proptest::sample::select(b"ABCDEF".to_vec()),
        1 => proptest::sample::select(b"gxz_ +-.".to_vec()),
    ];
    let zeros = prop_oneof![4 => Just(0usize), 1 => 1usize..3];
    let len = prop_oneof![
        6 => 0usize..20,
        4 => proptest::sample::select(vec![2usize, 4, 6, 7, 8, 9, 15, 16, 17, 20, 31, 32, 33, 63, 64, 65, 66]),
        1 => 20usize..70,
    ];
    let maxish = prop_oneof![3 => Just(false), 1 => Just(true)];
    (0u8..7, prefix, zeros, len, maxish, proptest::collection::vec(digit, 70))
        .prop_map(|(kind, prefix, zeros, len, maxish, digits)| {
            let mut t = String::from(prefix);
            for _ in 0..zeros {
                t.push('0');
            }
            for d in digits.iter().take(len) {
                t.push(if maxish { 'f' } else { *d as char });
            }
            TextCase { kind, text: t }
        })
}

/// the documented grammar: `0x` + hex digits, no redundant leading zero, value fits in `bits`
fn ref_uint(text: &str, bits: u32) -> Option<u128> {
    let body = text.strip_prefix("0x")?;
    if body.is_empty() || !body.bytes().all(|c| c.is_ascii_hexdigit()) {
        return None;
    }
    if body.len() > 1 && body.starts_with('0') {
        return None;
    }
    if body.len() > 32 {
        return None;
    }
    let v = u128::from_str_radix(body, 16).ok()?;
    if bits < 128 && v >> bits != 0 {
        return None;
    }
    Some(v)
}

/// `0x` + an even number of hex digits (exactly `fixed` bytes when given)
fn ref_bytes(text: &str, fixed: Option<usize>) -> Option<Vec<u8>> {
    let body = text.strip_prefix("0x")?;
    if body.len() % 2 != 0 || !body.bytes().all(|c| c.is_ascii_hexdigit()) {
        return None;
    }
    if let Some(n) = fixed {
        if body.len() != 2 * n {
            return None;
        }
    }
    Some((0..body.len() / 2).map(|i| u8::from_str_radix(&body[2 * i..2 * i + 2], 16).unwrap()).collect())
}

fn prop_text(c: &TextCase, st: &mut Stats) -> Verdict {
    let quoted = Value::String(c.text.clone()).to_string();
    let text = c.text.as_str();
    macro_rules! uint {
        ($t:ty, $name:expr, $bits:expr) => {{
            let real: Result<$t, _> = serde_json::from_str(&quoted);
            let want = ref_uint(text, $bits);
            st.label(if want.is_some() { "text:uint-valid" } else { "text:uint-invalid" });
            match (&real, want) {
                (Ok(r), Some(w)) => {
                    vensure!(
                        r.value() as u128 == w,
                        format!("json-text:{}:wrong-value", $name),
                        "{} parses {text:?} as {:#x}, documented value {w:#x}",
                        $name,
                        r.value()
                    );
                    // canonical output
                    let out = serde_json::to_string(r).unwrap_or_default();
                    let canon = format!("\"0x{:x}\"", w);
                    vensure!(
                        out == canon,
                        format!("json-text:{}:non-canonical-output", $name),
                        "{} {w:#x} serialises as {out}, documented form {canon}",
                        $name
                    );
                }
                (Ok(r), None) => {
                    let why = if text.contains('+') {
                        "sign-prefix"
                    } else if !text.starts_with("0x") {
                        "missing-0x-prefix"
                    } else if text.len() > 3 && text.as_bytes()[2] == b'0' {
                        "leading-zeros"
                    } else {
                        "not-hex-or-overflow"
                    };
                    // the three widths share one visitor (JsonUintVisitor): one signature
                    let _ = $name;
                    vfail!(
                        format!("json-text:JsonUint:accepts-undocumented-form:{why}"),
                        "{} accepts {text:?} (as {:#x}); the documented form is 0x + hex digits without redundant leading zeros",
                        $name,
                        r.value()
                    );
                }
                (Err(e), Some(w)) => vfail!(
                    format!("json-text:{}:rejects-documented-form", $name),
                    "{} rejects {text:?} ({e}), documented value {w:#x}",
                    $name
                ),
                (Err(_), None) => {}
            }
        }};
    }
    macro_rules! bytes {
        ($t:ty, $name:expr, $fixed:expr, $get:expr) => {{
            let real: Result<$t, _> = serde_json::from_str(&quoted);
            let want = ref_bytes(text, $fixed);
            st.label(if want.is_some() { "text:bytes-valid" } else { "text:bytes-invalid" });
            match (&real, &want) {
                (Ok(r), Some(w)) => {
                    #[allow(clippy::redundant_closure_call)]
                    let got: Vec<u8> = ($get)(r);
                    vensure!(
                        got == *w,
                        format!("json-text:{}:wrong-value", $name),
                        "{} parses {text:?} as {}",
                        $name,
                        hx(&got)
                    );
                    let out = serde_json::to_string(r).unwrap_or_default();
                    let canon = format!("\"{}\"", hexs(w));
                    vensure!(
                        out == canon,
                        format!("json-text:{}:non-canonical-output", $name),
                        "{} serialises {} as {out}",
                        $name,
                        hx(w)
                    );
                }
                (Ok(_), None) => vfail!(
                    format!("json-text:{}:accepts-undocumented-form", $name),
                    "{} accepts {text:?}; documented form is 0x + two hex digits per byte",
                    $name
                ),
                (Err(e), Some(_)) => vfail!(
                    format!("json-text:{}:rejects-documented-form", $name),
                    "{} rejects {text:?}: {e}",
                    $name
                ),
                (Err(_), None) => {}
            }
        }};
    }
    match c.kind % 7 {
        0 => uint!(j::Uint32, "Uint32", 32),
        1 => uint!(j::Uint64, "Uint64", 64),
        2 => uint!(j::Uint128, "Uint128", 128),
        3 => bytes!(j::JsonBytes, "JsonBytes", None, |r: &j::JsonBytes| r.as_bytes().to_vec()),
        4 => bytes!(j::Byte32, "Byte32", Some(32), |r: &j::Byte32| r.0.to_vec()),
        5 => bytes!(j::ProposalShortId, "ProposalShortId", Some(10), |r: &j::ProposalShortId| r.0.to_vec()),
        _ => bytes!(ckb_types::H256, "H256", Some(32), |r: &ckb_types::H256| r.0.to_vec()),
    }
    Ok(())
}

pub fn run(ctx: &Ctx) {
    run_sub(ctx, "json", ctx.cases(480_000, 7_200_000), json_strategy(), prop_json);
    run_sub(ctx, "jsontext", ctx.cases(360_000, 5_400_000), text_strategy(), prop_text);
}

pub fn replay(sub: &str, v: &Value, st: &mut Stats) -> Option<Verdict> {
    match sub {
        "json" => Some(from_case(v).and_then(|c| prop_json(&c, st))),
        "jsontext" => Some(from_case(v).and_then(|c| prop_text(&c, st))),
        _ => None,
    }
}
