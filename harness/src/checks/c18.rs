//! C18 — the indexer's answers equal filtering the chain's live cells and transactions.
//!
//! Four sub-properties (`rich` and `rich-node` live in `c18_rich.rs`: the same walks and the same
//! brute-force model against the rich-indexer / sqlite, directly and through a node + sync loop):
//! * `direct`: the real `Indexer<RocksdbStore>` (hook 6) is driven with append / rollback along a
//!   generated main-chain walk with reorganisations over a wide script universe (shared code
//!   hashes, args that are prefixes of one another, empty args, 0x00 args, args that look like
//!   big-endian block numbers, optional type scripts, in-block create+consume, re-committed
//!   transactions after a reorg); after every step a query battery is compared with the model.
//! * `node-sync`: a real node receives consensus-valid blocks built by the reference model
//!   (always_success locks / types with the args universe) and the indexer follows it through the
//!   real sync loop step (`IndexerSyncService::try_loop_sync` over a `SecondaryDB`).
use crate::c18_check::*;
use crate::c18_model::*;
use crate::c18_rich::{
    RICH_CASES, RICH_NODE_CASES, RichCase, RichNodeCase, SUB_RICH, SUB_RICH_NODE, prop_rich, prop_rich_node, rich_case_strategy,
    rich_node_case_strategy,
};
use crate::common::*;
use crate::vfail;
use ckb_indexer::verif::VerifIndexer;
use ckb_types::{
    bytes::Bytes,
    core::{BlockBuilder, BlockView, Capacity, EpochNumberWithFraction, TransactionBuilder, TransactionView},
    packed::{self, CellInput, CellOutput, OutPoint},
    prelude::*,
};
use proptest::prelude::*;
use serde::{Deserialize, Serialize};
use serde_json::{Value, json};
use std::collections::{BTreeMap, BTreeSet};
use std::time::Duration;

pub fn spec() -> CheckSpec {
    CheckSpec {
        id: "C18",
        level: "exploration",
        rule: "proptest: (direct) main-chain walks with reorganisations (append along a branch, rollback to the fork point within keep_num, append the other branch; rolled-back transactions may be re-committed) over a script universe with shared code hashes, args that are prefixes of one another incl. empty / 0x00 / big-endian-number args, optional type scripts, in-block create+consume, data sizes 0..40, driven into the real Indexer<RocksdbStore> with small keep_num / prune_interval; after every append and rollback: get_indexer_tip, and a query battery (every script seen so far and its one-byte truncations / 0x00,0x01,0xff,BE-position extensions x lock|type x prefix|exact|partial x get_cells / get_transactions ungrouped+grouped / get_cells_capacity) plus generated queries with filters (script prefix, script_len_range, output_data+mode, data_len_range, capacity_range, block_range with bounds at observed values +-1), asc/desc, page sizes 1..5 with cursor chaining, with_data; oracle = brute-force filter over the model's live cells / transaction entries (documented semantics), desc = reverse(asc), pages concatenated = one-shot answer ending with an empty page; rollback inverse: answers of the battery and the raw rows of the five query-visible key families before append(b) equal those after append(b); rollback(), and re-append restores the post-append answers. (node-sync) the same oracle on a real node + real sync loop step. (rich) the same walks, extended with uncles, proposals, cell deps and header deps, args ending in 0xff and hash type data2, reorganisations of any depth (the rich-indexer has no retention), driven into the real RichIndexer over a fresh sqlite database (in-memory or file); the oracle uses the semantics documented for the rich-indexer RPCs: script_search_mode prefix|exact|partial (partial keys = inner slices of occurring args), every cell filter also on get_transactions, half-open ranges, transactions in chain order with every transaction once, cells inside one transaction unordered, desc = asc reversed transaction by transaction, pages concatenated = one-shot answer ending with an empty page (ungrouped pages may cut a transaction), grouped+exact = one group per transaction; no tolerance for the RocksDB indexer's recorded prefix false positive; rollback inverse on the answers of the battery AND on the dump of every sqlite table (script ids replaced by the script they name), both for append(b); rollback() and for a reorganisation that returns to a height whose dump was recorded earlier; re-append restores answers and tables. (rich-node) the rich oracle on a real node + real sync loop step (IndexerSyncService::try_loop_sync with the RichIndexer), block plans arranged so that rival branches overtake the main chain, blocks with uncles. non-trivial = the history rolls back a block that consumed a cell created >= 2 blocks earlier AND a prefix search whose script is a strict prefix of another occurring script's args was evaluated after it; distinct by hash of the case.",
        assumptions: &[
            "direct mode feeds structurally well-formed blocks that are not consensus-valid (no PoW/DAO/capacity rules): the indexer never verifies blocks; node-sync mode uses fully valid blocks",
            "order between different scripts inside one prefix search is not documented: the oracle requires multiset equality, ascending chain order per script, desc = reverse(asc); exact searches are compared as fully ordered lists",
            "group_by_transaction with prefix search is documented as unsupported: only flatten(groups) = ungrouped answer is required there",
            "the tx-pool overlay (index_tx_pool) and the rhai block/cell filters are off",
            "rich-indexer: sqlite only (postgres needs a server); get_cells_capacity answers null when no live cell matches and the RPC does not say when the optional object is absent: null is accepted for an empty match set; filter.script of get_transactions is documented once as 'type script' and once as 'type script prefix': either reading is accepted (the implementation's is prefix); the order of cells inside one transaction and the grouping of non-exact grouped searches are not documented and not asserted; table ids are compared as they are (sqlite hands out max+1, so a rollback frees exactly the ids of the removed rows)",
        ],
        workers: |_| 8,
        watchdog_s: |t| t.pick(1200, 7200),
        run,
        replay,
    }
}

// ------------------------------------------------------------------------------------------------
// case data

/// script selector: (code hash, hash type, args) indices into the universe
#[derive(Clone, Debug, Serialize, Deserialize, PartialEq, Eq, Hash)]
pub struct SSel {
    pub code: u8,
    pub ht: u8,
    pub args: u8,
}

#[derive(Clone, Debug, Serialize, Deserialize, Hash)]
pub struct OutPlan {
    pub lock: SSel,
    pub type_: Option<SSel>,
    pub cap: u8,
    pub data: u8,
}

#[derive(Clone, Debug, Serialize, Deserialize, Hash)]
pub struct TxPlan {
    pub inputs: Vec<u16>,
    pub outputs: Vec<OutPlan>,
}

#[derive(Clone, Debug, Serialize, Deserialize, Hash)]
pub struct BlockPlan {
    pub cellbase: Vec<OutPlan>,
    pub txs: Vec<TxPlan>,
    /// selectors over rolled-back transactions to re-commit here when still spendable
    pub replay: Vec<u16>,
}

#[derive(Clone, Debug, Serialize, Deserialize, Hash)]
pub enum Op {
    /// append one block; `probe`: also run append; rollback; (compare); append
    Append { block: BlockPlan, probe: bool },
    /// roll back `depth` blocks (clamped to what keep_num allows), then append `blocks`
    Reorg { depth: u8, blocks: Vec<BlockPlan> },
}

/// generated query, resolved against the chain state when it is run
#[derive(Clone, Debug, Serialize, Deserialize, Hash)]
pub struct QSel {
    pub kind: u8,
    /// selector over scripts seen so far (and a few never seen)
    pub script: u16,
    /// 0 as is, 1 drop last args byte, 2.. append an extension
    pub edit: u8,
    pub stype: u8,
    pub mode: u8,
    /// bit set of filters to attach
    pub filters: u8,
    pub fsel: [u16; 4],
    pub desc: bool,
    pub limit: u8,
    pub with_data: u8,
}

#[derive(Clone, Debug, Serialize, Deserialize, Hash)]
pub struct Case {
    pub keep_num: u8,
    pub prune_interval: u8,
    pub genesis: Vec<OutPlan>,
    pub ops: Vec<Op>,
    pub queries: Vec<QSel>,
    /// replay files only: the one known signature this replay demonstrates (the other known
    /// findings stay tolerated so that the run reaches it)
    #[serde(default, skip_serializing_if = "Option::is_none")]
    pub focus: Option<String>,
}

// ------------------------------------------------------------------------------------------------
// strategies

fn ssel_strategy() -> impl Strategy<Value = SSel> {
    (
        prop_oneof![6 => Just(0u8), 2 => Just(1u8), 1 => Just(2u8)],
        prop_oneof![6 => Just(0u8), 2 => Just(1u8), 1 => Just(2u8)],
        0u8..16,
    )
        .prop_map(|(code, ht, args)| SSel { code, ht, args })
}

fn out_strategy() -> impl Strategy<Value = OutPlan> {
    (
        ssel_strategy(),
        prop_oneof![3 => Just(None), 2 => ssel_strategy().prop_map(Some)],
        0u8..8,
        prop_oneof![3 => Just(0u8), 4 => 1u8..8],
    )
        .prop_map(|(lock, type_, cap, data)| OutPlan { lock, type_, cap, data })
}

fn tx_strategy() -> impl Strategy<Value = TxPlan> {
    (
        proptest::collection::vec(any::<u16>(), 1..=3),
        proptest::collection::vec(out_strategy(), 1..=3),
    )
        .prop_map(|(inputs, outputs)| TxPlan { inputs, outputs })
}

fn block_strategy() -> impl Strategy<Value = BlockPlan> {
    (
        proptest::collection::vec(out_strategy(), 0..=2),
        proptest::collection::vec(tx_strategy(), 0..=4),
        prop_oneof![2 => Just(vec![]), 1 => proptest::collection::vec(any::<u16>(), 1..=3)],
    )
        .prop_map(|(cellbase, txs, replay)| BlockPlan { cellbase, txs, replay })
}

fn op_strategy() -> impl Strategy<Value = Op> {
    prop_oneof![
        5 => (block_strategy(), prop_oneof![2 => Just(true), 1 => Just(false)]).prop_map(|(block, probe)| Op::Append { block, probe }),
        2 => (1u8..=6, proptest::collection::vec(block_strategy(), 0..=4)).prop_map(|(depth, blocks)| Op::Reorg { depth, blocks }),
    ]
}

pub fn qsel_strategy() -> impl Strategy<Value = QSel> {
    (
        0u8..4,
        any::<u16>(),
        prop_oneof![4 => Just(0u8), 2 => Just(1u8), 6 => 2u8..10],
        0u8..2,
        prop_oneof![3 => Just(0u8), 3 => Just(1u8), 3 => Just(2u8), 1 => Just(3u8)],
        prop_oneof![2 => Just(0u8), 5 => (0u8..6).prop_map(|b| 1 << b), 2 => any::<u8>()],
        any::<[u16; 4]>(),
        any::<bool>(),
        prop_oneof![1 => Just(0u8), 3 => 1u8..=5],
        0u8..3,
    )
        .prop_map(|(kind, script, edit, stype, mode, filters, fsel, desc, limit, with_data)| QSel {
            kind,
            script,
            edit,
            stype,
            mode,
            filters,
            fsel,
            desc,
            limit,
            with_data,
        })
}

pub fn case_strategy(max_ops: usize) -> impl Strategy<Value = Case> {
    (
        1u8..=6,
        1u8..=4,
        proptest::collection::vec(out_strategy(), 2..=8),
        proptest::collection::vec(op_strategy(), 3..=max_ops),
        proptest::collection::vec(qsel_strategy(), 4..=24),
    )
        .prop_map(|(keep_num, prune_interval, genesis, ops, queries)| Case {
            keep_num,
            prune_interval,
            genesis,
            ops,
            queries,
            focus: None,
        })
}

// ------------------------------------------------------------------------------------------------
// script universe -> concrete scripts / outputs

pub fn raw_of_sel(s: &SSel) -> Vec<u8> {
    let codes = code_hashes();
    let args = args_universe();
    let mut v = codes[s.code as usize % codes.len()].to_vec();
    v.push(HASH_TYPES[s.ht as usize % HASH_TYPES.len()]);
    v.extend_from_slice(&args[s.args as usize % args.len()]);
    v
}

pub fn output_of(p: &OutPlan) -> (CellOutput, Bytes) {
    let data = data_universe();
    let d = data[p.data as usize % data.len()].clone();
    let mut b = CellOutput::new_builder()
        .capacity(Capacity::shannons(CAPACITIES[p.cap as usize % CAPACITIES.len()]))
        .lock(script_of_raw(&raw_of_sel(&p.lock)));
    if let Some(t) = &p.type_ {
        b = b.type_(Some(script_of_raw(&raw_of_sel(t))).pack());
    }
    (b.build(), Bytes::from(d))
}

// ------------------------------------------------------------------------------------------------
// the walk: model side

/// what the generated queries and the non-trivial rule need to know about the history
#[derive(Default)]
pub struct Seen {
    /// raw scripts that occurred as lock or type on any branch
    pub scripts: BTreeSet<Vec<u8>>,
    pub data: BTreeSet<Vec<u8>>,
    pub caps: BTreeSet<u64>,
}

impl Seen {
    pub fn note_block(&mut self, b: &BlockView) {
        for tx in b.transactions() {
            for (o, d) in tx.outputs_with_data_iter() {
                self.scripts.insert(raw_of(&o.lock()));
                if let Some(t) = o.type_().to_opt() {
                    self.scripts.insert(raw_of(&t));
                }
                self.data.insert(d.to_vec());
                self.caps.insert(o.capacity().into());
            }
        }
    }
    /// does the set contain a script of which `raw` is a strict prefix (same code/hash type)?
    pub fn strict_prefix_of_another(&self, raw: &[u8]) -> bool {
        self.scripts.iter().any(|s| s.len() > raw.len() && s.starts_with(raw))
    }
}

pub fn build_block(number: u64, parent: &packed::Byte32, salt: u64, plan_cellbase: &[OutPlan], txs: Vec<TransactionView>) -> BlockView {
    let mut cb = TransactionBuilder::default()
        .input(CellInput::new_cellbase_input(number))
        .witness(Bytes::from(salt.to_le_bytes().to_vec()).pack());
    for p in plan_cellbase {
        let (o, d) = output_of(p);
        cb = cb.output(o).output_data(d.pack());
    }
    let mut bb = BlockBuilder::default()
        .number(number)
        .parent_hash(parent.clone())
        .timestamp(1_600_000_000_000u64 + number * 8000 + salt % 1000)
        .epoch(EpochNumberWithFraction::new(number / 1000, number % 1000, 1000))
        .transaction(cb.build());
    for tx in txs {
        bb = bb.transaction(tx);
    }
    bb.build()
}

/// transactions of a block plan over the cells live at `state` (+ created earlier in the block)
pub fn build_txs(
    state: &MState,
    plan: &BlockPlan,
    orphans: &[TransactionView],
    labels: &mut BTreeMap<&'static str, u64>,
) -> Vec<TransactionView> {
    // spendable: out point -> creation block (None = created in this block)
    let mut avail: BTreeMap<(H32, u32), Option<u64>> = state.live.keys().map(|k| (*k, Some(state.live[k].block_number))).collect();
    let committed: BTreeSet<H32> = state.entries.iter().map(|e| e.tx_hash).collect();
    let mut in_block: BTreeSet<H32> = BTreeSet::new();
    let mut txs = vec![];
    // re-commit rolled-back transactions first (they may feed new ones)
    for sel in &plan.replay {
        let cands: Vec<&TransactionView> = orphans
            .iter()
            .filter(|tx| {
                let h = h32(&tx.hash());
                !committed.contains(&h)
                    && !in_block.contains(&h)
                    && tx.inputs().into_iter().all(|i| {
                        let op = i.previous_output();
                        let idx: u32 = op.index().into();
                        avail.contains_key(&(h32(&op.tx_hash()), idx))
                    })
            })
            .collect();
        if cands.is_empty() {
            break;
        }
        let tx = cands[pick_idx(*sel as u32, cands.len())].clone();
        for i in tx.inputs().into_iter() {
            let op = i.previous_output();
            let idx: u32 = op.index().into();
            avail.remove(&(h32(&op.tx_hash()), idx));
        }
        let h = h32(&tx.hash());
        for j in 0..tx.outputs().len() {
            avail.insert((h, j as u32), None);
        }
        in_block.insert(h);
        *labels.entry("tx:re-committed-after-rollback").or_insert(0) += 1;
        txs.push(tx);
    }
    for tp in &plan.txs {
        if avail.is_empty() {
            break;
        }
        let mut tb = TransactionBuilder::default();
        let mut n_in = 0;
        let mut same_block = false;
        for sel in &tp.inputs {
            if avail.is_empty() {
                break;
            }
            let k = *avail.keys().nth(pick_idx(*sel as u32, avail.len())).unwrap();
            let born = avail.remove(&k).unwrap();
            same_block |= born.is_none();
            tb = tb.input(CellInput::new(OutPoint::new(packed::Byte32::from_slice(&k.0).unwrap(), k.1), 0));
            n_in += 1;
        }
        if n_in == 0 {
            break;
        }
        for p in &tp.outputs {
            let (o, d) = output_of(p);
            tb = tb.output(o).output_data(d.pack());
        }
        let tx = tb.build();
        let h = h32(&tx.hash());
        if committed.contains(&h) || in_block.contains(&h) {
            continue;
        }
        if same_block {
            *labels.entry("tx:spends-cell-created-in-same-block").or_insert(0) += 1;
        }
        for j in 0..tx.outputs().len() {
            avail.insert((h, j as u32), None);
        }
        in_block.insert(h);
        txs.push(tx);
    }
    txs
}

/// resolve a generated query against what the history contains
pub fn resolve_query(qs: &QSel, seen: &Seen, m: &MState) -> Query {
    let mut scripts: Vec<Vec<u8>> = seen.scripts.iter().cloned().collect();
    // two scripts that may never occur
    scripts.push(raw_of_sel(&SSel { code: 1, ht: 1, args: 12 }));
    scripts.push(raw_of_sel(&SSel { code: 2, ht: 0, args: 0 }));
    let pick = |sel: u16| scripts[pick_idx(sel as u32, scripts.len())].clone();
    let tipn = m.tip.map(|t| t.0).unwrap_or(0);
    let edit = |mut raw: Vec<u8>, e: u8, pos: u16| -> Vec<u8> {
        let bn = pick_idx(pos as u32, tipn as usize + 1) as u64;
        match e {
            0 => {}
            1 => {
                if raw.len() > 33 {
                    raw.pop();
                }
            }
            2 => raw.push(0x00),
            3 => raw.extend_from_slice(&[0, 0]),
            4 => raw.push(0x01),
            5 => raw.push(0xff),
            6 => raw.extend_from_slice(&bn.to_be_bytes()),
            7 => raw.extend_from_slice(&bn.to_be_bytes()[..7]),
            8 => {
                raw.extend_from_slice(&bn.to_be_bytes());
                raw.extend_from_slice(&[0, 0, 0, (pos & 1) as u8]);
            }
            _ => {
                raw.extend_from_slice(&bn.to_be_bytes());
                raw.extend_from_slice(&[0, 0, 0, (pos & 1) as u8, 0, 0, 0, ((pos >> 1) & 1) as u8]);
            }
        }
        raw
    };
    let script = edit(pick(qs.script), qs.edit, qs.fsel[3]);
    let kind = qs.kind & 3;
    // bounds at observed values +-1
    let around = |vals: Vec<u64>, a: u16, b: u16| -> (u64, u64) {
        let mut pts: BTreeSet<u64> = BTreeSet::new();
        pts.insert(0);
        for v in vals {
            pts.insert(v);
            pts.insert(v.saturating_add(1));
            pts.insert(v.saturating_sub(1));
        }
        let pts: Vec<u64> = pts.into_iter().collect();
        let x = pts[pick_idx(a as u32, pts.len())];
        let y = pts[pick_idx(b as u32, pts.len())];
        if x <= y { (x, y) } else { (y, x) }
    };
    let mut f = Filter {
        script: None,
        script_len_range: None,
        output_data: None,
        data_len_range: None,
        capacity_range: None,
        block_range: None,
    };
    let tx_kind = kind == KIND_TXS || kind == KIND_TXS_GROUPED;
    if qs.filters & 1 != 0 {
        let e = if tx_kind { 0 } else { [0u8, 0, 1, 2][(qs.fsel[1] & 3) as usize] };
        f.script = Some(hexs(&edit(pick(qs.fsel[0]), e, qs.fsel[2])));
    }
    if qs.filters & 2 != 0 && !tx_kind {
        let lens: Vec<u64> = seen.scripts.iter().map(|s| s.len() as u64).collect();
        f.script_len_range = Some(around(lens, qs.fsel[0].rotate_left(3), qs.fsel[1].rotate_left(5)));
    }
    if qs.filters & 4 != 0 && !tx_kind {
        let ds: Vec<Vec<u8>> = seen.data.iter().cloned().collect();
        let mut d = if ds.is_empty() { vec![] } else { ds[pick_idx(qs.fsel[1] as u32, ds.len())].clone() };
        match qs.fsel[2] % 4 {
            1 => {
                d.pop();
            }
            2 => {
                if !d.is_empty() {
                    d.remove(0);
                }
            }
            3 => d.push(0),
            _ => {}
        }
        f.output_data = Some((hexs(&d), (qs.fsel[2] / 4 % 4) as u8));
    }
    if qs.filters & 8 != 0 && !tx_kind {
        let lens: Vec<u64> = seen.data.iter().map(|d| d.len() as u64).collect();
        f.data_len_range = Some(around(lens, qs.fsel[2].rotate_left(7), qs.fsel[0].rotate_left(9)));
    }
    if qs.filters & 16 != 0 && !tx_kind {
        let caps: Vec<u64> = seen.caps.iter().cloned().collect();
        f.capacity_range = Some(around(caps, qs.fsel[1].rotate_left(11), qs.fsel[2].rotate_left(2)));
    }
    if qs.filters & 32 != 0 {
        let bns: Vec<u64> = (0..=tipn).collect();
        f.block_range = Some(around(bns, qs.fsel[3].rotate_left(4), qs.fsel[0].rotate_left(13)));
    }
    Query {
        kind,
        script: hexs(&script),
        stype: qs.stype & 1,
        mode: qs.mode & 3,
        filter: if f.is_empty() { None } else { Some(f) },
        desc: qs.desc,
        limit: qs.limit as u32,
        with_data: match qs.with_data {
            0 => None,
            1 => Some(true),
            _ => Some(false),
        },
    }
}

/// the systematic battery over the scripts seen so far; `rot` rotates which derived keys run
pub fn battery(seen: &Seen, m: &MState, rot: usize, full: bool) -> Vec<Query> {
    let mut out = vec![];
    let tipn = m.tip.map(|t| t.0).unwrap_or(0);
    for (i, s) in seen.scripts.iter().enumerate() {
        let mut keys: Vec<Vec<u8>> = vec![s.clone()];
        let mut ext0 = s.clone();
        ext0.push(0);
        let mut trunc = s.clone();
        if trunc.len() > 33 {
            trunc.pop();
        }
        let mut extbn = s.clone();
        extbn.extend_from_slice(&((tipn.saturating_sub((i + rot) as u64 % 3)).to_be_bytes()));
        if full {
            keys.extend([ext0, trunc, extbn]);
        } else {
            keys.push([ext0, trunc, extbn][(i + rot) % 3].clone());
        }
        for k in keys {
            for stype in 0..2u8 {
                for mode in [MODE_DEFAULT, MODE_EXACT] {
                    let kinds: &[u8] = if full {
                        &[KIND_CELLS, KIND_TXS, KIND_TXS_GROUPED, KIND_CAPACITY]
                    } else {
                        match (i + rot + stype as usize + mode as usize) % 3 {
                            0 => &[KIND_CELLS, KIND_CAPACITY],
                            1 => &[KIND_TXS],
                            _ => &[KIND_CELLS, KIND_TXS_GROUPED],
                        }
                    };
                    for kind in kinds {
                        out.push(Query::simple(*kind, &k, stype, mode));
                    }
                }
            }
        }
    }
    out
}

// raw rows that decide every answer: OutPoint, CellLockScript, CellTypeScript, TxLockScript,
// TxTypeScript (the ConsumedOutPoint / TxHash / Header families are documented as rollback
// bookkeeping that is pruned)
fn visible_rows(idx: &VerifIndexer) -> Vec<(Vec<u8>, Vec<u8>)> {
    idx.dump()
        .into_iter()
        .filter(|(k, _)| matches!(k.first(), Some(0) | Some(64) | Some(96) | Some(128) | Some(160)))
        .collect()
}

fn family(k: &[u8]) -> &'static str {
    match k.first() {
        Some(0) => "OutPoint",
        Some(64) => "CellLockScript",
        Some(96) => "CellTypeScript",
        Some(128) => "TxLockScript",
        Some(160) => "TxTypeScript",
        _ => "?",
    }
}

fn rows_diff(a: &[(Vec<u8>, Vec<u8>)], b: &[(Vec<u8>, Vec<u8>)]) -> Option<String> {
    let ma: BTreeMap<&Vec<u8>, &Vec<u8>> = a.iter().map(|(k, v)| (k, v)).collect();
    let mb: BTreeMap<&Vec<u8>, &Vec<u8>> = b.iter().map(|(k, v)| (k, v)).collect();
    for (k, v) in &ma {
        match mb.get(k) {
            None => return Some(format!("{} row lost: key {}", family(k), hexs(k))),
            Some(w) if w != v => return Some(format!("{} row changed: key {}", family(k), hexs(k))),
            _ => {}
        }
    }
    for k in mb.keys() {
        if !ma.contains_key(k) {
            return Some(format!("{} row left behind: key {}", family(k), hexs(k)));
        }
    }
    None
}

pub struct Walk {
    pub idx: VerifIndexer,
    pub handle: ckb_indexer::IndexerHandle,
    pub chain: Vec<BlockView>,
    pub states: Vec<MState>,
    pub max_tip: u64,
    pub keep_num: u64,
    pub orphans: Vec<TransactionView>,
    pub seen: Seen,
    pub labels: BTreeMap<&'static str, u64>,
    pub salt: u64,
    pub step: usize,
    /// a rolled-back block consumed a cell created >= 2 blocks earlier
    pub deep_consume_rolled_back: bool,
    pub nontrivial_query_after: bool,
    pub queries_run: u64,
    _dir: tempfile::TempDir,
}

impl Walk {
    pub fn new(keep_num: u64, prune_interval: u64) -> Walk {
        let dir = scratch("c18-");
        let idx = VerifIndexer::open(dir.path().join("indexer"), keep_num, prune_interval, None, None);
        let handle = idx.handle(usize::MAX, Duration::from_secs(600));
        Walk {
            idx,
            handle,
            chain: vec![],
            states: vec![],
            max_tip: 0,
            keep_num,
            orphans: vec![],
            seen: Seen::default(),
            labels: BTreeMap::new(),
            salt: 0,
            step: 0,
            deep_consume_rolled_back: false,
            nontrivial_query_after: false,
            queries_run: 0,
            _dir: dir,
        }
    }

    fn state(&self) -> MState {
        self.states.last().cloned().unwrap_or_default()
    }

    fn lab(&mut self, l: &'static str) {
        *self.labels.entry(l).or_insert(0) += 1;
    }

    pub fn plan_block(&mut self, plan: &BlockPlan, cellbase: &[OutPlan]) -> BlockView {
        let st = self.state();
        let number = self.chain.len() as u64;
        let parent = self.chain.last().map(|b| b.hash()).unwrap_or_else(packed::Byte32::zero);
        let txs = if number == 0 { vec![] } else { build_txs(&st, plan, &self.orphans, &mut self.labels) };
        self.salt += 1;
        build_block(number, &parent, self.salt, cellbase, txs)
    }

    fn append_raw(&mut self, b: &BlockView) -> Verdict {
        let st = self.state().apply(b).map_err(|e| Violation::new("harness:model", e))?;
        self.idx
            .append(b)
            .map_err(|e| Violation::new("append:error", format!("append of block {} failed: {e}", b.number())))?;
        self.seen.note_block(b);
        self.chain.push(b.clone());
        self.states.push(st);
        self.max_tip = self.max_tip.max(b.number());
        Ok(())
    }

    fn rollback_raw(&mut self, reorg: bool) -> Verdict {
        let b = self.chain.pop().expect("non-empty chain");
        self.states.pop().unwrap();
        let before = self.state();
        // did this block consume a cell created >= 2 blocks earlier?
        for tx in b.transactions().iter().skip(1) {
            for i in tx.inputs().into_iter() {
                let op = i.previous_output();
                let idx: u32 = op.index().into();
                if let Some(c) = before.live.get(&(h32(&op.tx_hash()), idx)) {
                    if reorg && c.block_number + 2 <= b.number() {
                        self.deep_consume_rolled_back = true;
                    }
                }
            }
            self.orphans.push(tx.clone());
        }
        self.idx
            .rollback()
            .map_err(|e| Violation::new("rollback:error", format!("rollback of block {} failed: {e}", b.number())))?;
        Ok(())
    }

    pub fn check_here(&mut self, at: &str, extra: &[QSel], tol: &Tol, st: &mut Stats, full: bool) -> Verdict {
        let m = self.state();
        check_tip(&self.handle, &m, at)?;
        let mut qs = battery(&self.seen, &m, self.step, full);
        for q in extra {
            qs.push(resolve_query(q, &self.seen, &m));
        }
        for q in &qs {
            check_query(&self.handle, &m, q, at, tol, st)?;
            self.queries_run += 1;
            if self.deep_consume_rolled_back
                && q.mode != MODE_EXACT
                && q.mode != MODE_PARTIAL
                && self.seen.strict_prefix_of_another(&unhex(&q.script))
            {
                self.nontrivial_query_after = true;
            }
        }
        Ok(())
    }

    /// append with the rollback-inverse probe
    pub fn append(&mut self, b: &BlockView, probe: bool, extra: &[QSel], tol: &Tol, st: &mut Stats) -> Verdict {
        self.step += 1;
        let at = format!("step {} after append of block {}", self.step, b.number());
        if !probe {
            self.append_raw(b)?;
            return self.check_here(&at, extra, tol, st, false);
        }
        let m0 = self.state();
        let mut bat = battery(&self.seen, &m0, self.step, false);
        for q in extra {
            let q = resolve_query(q, &self.seen, &m0);
            if q.mode != MODE_PARTIAL {
                bat.push(q);
            }
        }
        let before = render_answers(&self.handle, &bat);
        let rows_before = visible_rows(&self.idx);
        self.append_raw(b)?;
        self.check_here(&at, extra, tol, st, false)?;
        let post = render_answers(&self.handle, &bat);
        let rows_post = visible_rows(&self.idx);
        // rollback
        self.rollback_raw(false)?;
        self.orphans.truncate(self.orphans.len() - (b.transactions().len() - 1));
        let at2 = format!("step {} after append+rollback of block {}", self.step, b.number());
        check_tip(&self.handle, &self.state(), &at2)?;
        let after = render_answers(&self.handle, &bat);
        for (i, q) in bat.iter().enumerate() {
            if before[i] != after[i] {
                vfail!(
                    "rollback-inverse:answer-differs-after-append-rollback",
                    "{at2}: {}: before append: {} / after rollback: {}",
                    q.show(),
                    clip(&before[i]),
                    clip(&after[i])
                );
            }
        }
        if let Some(d) = rows_diff(&rows_before, &visible_rows(&self.idx)) {
            let fam = d.split(' ').next().unwrap_or("?").to_string();
            vfail!(format!("rollback-inverse:raw-rows-differ family={fam}"), "{at2}: {d}");
        }
        self.lab("probe:append-rollback-append");
        // append again: same answers as after the first append
        self.append_raw(b)?;
        let at3 = format!("step {} after append+rollback+append of block {}", self.step, b.number());
        let again = render_answers(&self.handle, &bat);
        for (i, q) in bat.iter().enumerate() {
            if post[i] != again[i] {
                vfail!(
                    "rollback-inverse:re-append-differs",
                    "{at3}: {}: first append: {} / re-append: {}",
                    q.show(),
                    clip(&post[i]),
                    clip(&again[i])
                );
            }
        }
        if let Some(d) = rows_diff(&rows_post, &visible_rows(&self.idx)) {
            let fam = d.split(' ').next().unwrap_or("?").to_string();
            vfail!(format!("rollback-inverse:re-append-raw-rows-differ family={fam}"), "{at3}: {d}");
        }
        check_tip(&self.handle, &self.state(), &at3)
    }

    pub fn rollback(&mut self, extra: &[QSel], tol: &Tol, st: &mut Stats) -> Verdict {
        self.step += 1;
        let n = self.chain.len() - 1;
        self.rollback_raw(true)?;
        let at = format!("step {} after rollback of block {}", self.step, n);
        self.check_here(&at, extra, tol, st, false)
    }

    /// how many blocks may be rolled back now without leaving the configured retention
    pub fn allowed_depth(&self) -> u64 {
        let tip = self.chain.len() as u64 - 1;
        let used = self.max_tip - tip;
        // keep the genesis block
        self.keep_num.saturating_sub(used).min(tip)
    }
}

pub fn clip(s: &str) -> String {
    if s.len() > 600 { format!("{}…", &s[..600]) } else { s.to_string() }
}

pub fn tol_of<'a>(f: &'a dyn Fn(&str) -> bool) -> Tol<'a> {
    Tol { known: f }
}

pub fn prop_direct(ctx: &Ctx, c: &Case, st: &mut Stats) -> Verdict {
    let known = |s: &str| {
        if ctx.strict {
            matches!(&c.focus, Some(f) if f != s) && ctx.is_known(s)
        } else {
            ctx.is_known(s)
        }
    };
    let tol = tol_of(&known);
    let mut w = Walk::new(c.keep_num as u64, c.prune_interval.max(1) as u64);
    // genesis: one cellbase-like transaction with the faucet cells
    let g = w.plan_block(&BlockPlan { cellbase: vec![], txs: vec![], replay: vec![] }, &c.genesis);
    w.append(&g, false, &[], &tol, st)?;
    let nq = c.queries.len().max(1);
    let mut reorgs = 0u64;
    let mut max_depth = 0u64;
    for (oi, op) in c.ops.iter().enumerate() {
        // a rotating window of the generated queries runs at every step
        let lo = (oi * 3) % nq;
        let extra: Vec<QSel> = c.queries.iter().cycle().skip(lo).take(3.min(c.queries.len())).cloned().collect();
        match op {
            Op::Append { block, probe } => {
                let b = w.plan_block(block, &block.cellbase);
                w.append(&b, *probe, &extra, &tol, st)?;
            }
            Op::Reorg { depth, blocks } => {
                let d = (*depth as u64).min(w.allowed_depth());
                if d > 0 {
                    reorgs += 1;
                    max_depth = max_depth.max(d);
                }
                for _ in 0..d {
                    w.rollback(&extra, &tol, st)?;
                }
                for bp in blocks {
                    let b = w.plan_block(bp, &bp.cellbase);
                    w.append(&b, false, &extra, &tol, st)?;
                }
            }
        }
    }
    // all generated queries at the end
    let at = "final state".to_string();
    w.check_here(&at, &c.queries, &tol, st, true)?;
    // accounting
    st.eval_n("direct:queries", 0);
    st.label_n("queries-run", w.queries_run);
    for (l, n) in &w.labels {
        st.label_n(l, *n);
    }
    st.label(&format!("reorgs:{}", reorgs.min(4)));
    st.label(&format!("max-rollback-depth:{}", max_depth.min(6)));
    st.label(&format!("keep_num:{}", c.keep_num));
    if w.deep_consume_rolled_back {
        st.label("rolled-back-block-consumed-cell-2+-blocks-old");
    }
    let m = w.state();
    st.label(&format!("final-live-cells:{}", match m.live.len() { 0..=9 => "<10", 10..=29 => "10-29", _ => "30+" }));
    if w.deep_consume_rolled_back && w.nontrivial_query_after {
        st.nontrivial(c);
    }
    if st.want_sample() {
        st.sample(|| json!({"sub": "direct", "keep_num": c.keep_num, "prune_interval": c.prune_interval, "ops": c.ops.len(), "tip": m.tip.map(|t| t.0), "live_cells": m.live.len(), "entries": m.entries.len(), "scripts_seen": w.seen.scripts.len(), "queries_run": w.queries_run, "reorgs": reorgs}));
    }
    Ok(())
}


// ------------------------------------------------------------------------------------------------
// node-sync: real node + real sync loop step

use crate::model::{CellKey, H, LiveCell, cap, cell_key, occupied_shannons, out_point_of};
use crate::node::{Env, Node, NodeCfg, SpecCfg, build_env};
use crate::plan::{BlockStep, Interp, TreePlan, TxStep};
use ckb_app_config::{DBConfig, IndexerSyncConfig};
use ckb_indexer_sync::{IndexerSyncService, PoolService, new_secondary_db};
use ckb_store::ChainStore;

#[derive(Clone, Debug, Serialize, Deserialize)]
pub struct NodeCase {
    /// 0: production retention (100 / 1000); 1: keep_num 8, prune_interval 2
    pub variant: u8,
    pub plan: TreePlan,
    pub queries: Vec<QSel>,
    #[serde(default, skip_serializing_if = "Option::is_none")]
    pub focus: Option<String>,
}

fn node_tx_step() -> impl Strategy<Value = TxStep> {
    (
        proptest::collection::vec(any::<u16>(), 1..=3),
        1u8..=3,
        0u8..8,
        0u8..8,
        any::<u8>(),
    )
        .prop_map(|(inputs, outputs, fee, data_len, lock_variant)| TxStep {
            inputs,
            outputs,
            fee,
            data_len,
            lock_variant,
            kind: 0,
        })
}

pub fn node_block_step() -> impl Strategy<Value = BlockStep> {
    (
        prop_oneof![35 => Just(0u8), 45 => Just(1u8), 20 => Just(2u8)],
        any::<u16>(),
        prop_oneof![3 => Just(0u8), 3 => Just(1u8), 3 => Just(2u8), 1 => Just(5u8)],
        prop_oneof![1 => Just(vec![]), 3 => proptest::collection::vec(node_tx_step(), 1..=3)],
        prop_oneof![3 => Just(0u8), 1 => 1u8..=2],
        any::<u16>(),
        prop_oneof![4 => Just(0xffffu16), 1 => any::<u16>()],
        0u8..4,
    )
        .prop_map(|(parent_mode, parent, ts, new_txs, repropose, repropose_sel, commit_mask, miner)| BlockStep {
            parent_mode,
            parent,
            ts,
            uncles: 0,
            uncle_sel: 0,
            new_txs,
            repropose,
            repropose_sel,
            commit_mask,
            miner,
            ext_extra: 0,
            invalid: 0,
        })
}

pub fn node_case_strategy(max_blocks: usize) -> impl Strategy<Value = NodeCase> {
    (
        prop_oneof![1 => Just(0u8), 1 => Just(1u8)],
        proptest::collection::vec(node_block_step(), 8..=max_blocks),
        proptest::collection::vec(qsel_strategy(), 4..=16),
    )
        .prop_map(|(variant, steps, queries)| NodeCase {
            variant,
            plan: TreePlan { steps },
            queries,
            focus: None,
        })
}

fn as_script(env: &Env, args: &[u8]) -> packed::Script {
    env.always_success_lock.clone().as_builder().args(Bytes::from(args.to_vec()).pack()).build()
}

pub fn node_spendable(env: &Env, c: &LiveCell) -> bool {
    let ok = |s: &packed::Script| {
        s.code_hash() == env.always_success_lock.code_hash() && s.hash_type() == env.always_success_lock.hash_type()
    };
    ok(&c.output.lock()) && c.output.type_().to_opt().map(|t| ok(&t)).unwrap_or(true)
}

/// like plan::build_tx, but every output draws its lock args, optional always_success type
/// script and data from the C18 universe
pub fn node_build_tx(env: &Env, step: &TxStep, avail: &mut BTreeMap<CellKey, (CellOutput, usize)>) -> Option<TransactionView> {
    if avail.is_empty() {
        return None;
    }
    let mut inputs = vec![];
    let mut taken = vec![];
    let mut in_cap: u64 = 0;
    for sel in &step.inputs {
        if avail.is_empty() {
            break;
        }
        let k = *avail.keys().nth(pick_idx(*sel as u32, avail.len())).unwrap();
        let (o, dl) = avail.remove(&k).unwrap();
        in_cap += cap(&o);
        taken.push((k, (o, dl)));
        inputs.push(k);
    }
    let fee: u64 = [0, 1, 9, 1000, 100_000, 12_345_678, 100_000_000, 3][step.fee as usize % 8];
    let args = args_universe();
    let datas = data_universe();
    let mut outs: Vec<(CellOutput, Bytes, u64)> = vec![];
    for j in 0..step.outputs.max(1) {
        let v = step.lock_variant.wrapping_add(j.wrapping_mul(37));
        let lock = as_script(env, &args[(v & 15) as usize]);
        let type_ = match (v >> 4) & 3 {
            2 => Some(as_script(env, &args[((v >> 2) & 15) as usize])),
            3 => Some(as_script(env, &args[(v & 15) as usize])),
            _ => None,
        };
        let d = datas[(step.data_len.wrapping_add(j)) as usize % datas.len()].clone();
        let o = CellOutput::new_builder().lock(lock).type_(type_.pack()).build();
        let min = occupied_shannons(&o, d.len()) as u64;
        outs.push((o, Bytes::from(d), min));
    }
    let mut n = outs.len();
    while n > 0 && in_cap < fee + outs[..n].iter().map(|o| o.2).sum::<u64>() {
        n -= 1;
    }
    if n == 0 {
        for (k, v) in taken {
            avail.insert(k, v);
        }
        return None;
    }
    outs.truncate(n);
    let spare = in_cap - fee - outs.iter().map(|o| o.2).sum::<u64>();
    let mut tb = TransactionBuilder::default().cell_dep(env.always_success_dep.clone());
    for k in &inputs {
        tb = tb.input(CellInput::new(out_point_of(k), 0));
    }
    let mut built = vec![];
    for (i, (o, d, min)) in outs.into_iter().enumerate() {
        // the first output carries the change; the others sit exactly at their occupied capacity
        let c = if i == 0 { min + spare } else { min };
        let o = o.as_builder().capacity(Capacity::shannons(c)).build();
        tb = tb.output(o.clone()).output_data(d.pack());
        built.push((o, d.len()));
    }
    let tx = tb.build();
    for (i, (o, dl)) in built.into_iter().enumerate() {
        avail.insert((h32(&tx.hash()), i as u32), (o, dl));
    }
    Some(tx)
}

pub fn node_env() -> &'static Env {
    static ENV: std::sync::OnceLock<Env> = std::sync::OnceLock::new();
    ENV.get_or_init(|| build_env(&SpecCfg::default()))
}

pub fn prop_node(ctx: &Ctx, c: &NodeCase, st: &mut Stats) -> Verdict {
    let known = |s: &str| {
        if ctx.strict {
            matches!(&c.focus, Some(f) if f != s) && ctx.is_known(s)
        } else {
            ctx.is_known(s)
        }
    };
    let tol = tol_of(&known);
    let env = node_env();
    let plan = &c.plan;
    let mut interp = Interp::new(env);
    interp.tx_builder = Some(node_build_tx);
    interp.spendable_filter = Some(node_spendable);
    let built = interp.run(plan);
    let tree = &built.tree;
    install_panic_recorder();
    clear_panics();
    let dir = scratch("c18n-");
    let node = Node::start(
        env,
        NodeCfg {
            dir: Some(dir.path().join("node")),
            ..Default::default()
        },
    )
    .map_err(|e| Violation::new("harness:node-start", e))?;
    let (keep_num, prune_interval) = if c.variant == 0 { (100u64, 1000u64) } else { (8, 2) };
    let sync_cfg = IndexerSyncConfig {
        secondary_path: dir.path().join("secondary"),
        poll_interval: 2,
        index_tx_pool: false,
    };
    let db_cfg = DBConfig {
        path: node.dir.join("db"),
        ..Default::default()
    };
    let sdb = new_secondary_db(&db_cfg, &sync_cfg);
    let sync = IndexerSyncService::new(sdb, PoolService::new(false, node.handle.clone()), &sync_cfg, node.handle.clone(), None);
    let idx = VerifIndexer::open(dir.path().join("indexer"), keep_num, prune_interval, None, None);
    let handle = idx.handle(usize::MAX, Duration::from_secs(600));

    // model states per block of the tree, computed lazily along parent links
    let mut states: BTreeMap<H32, MState> = BTreeMap::new();
    let genesis = tree.get(&tree.genesis).block.clone();
    states.insert(h32(&tree.genesis), MState::default().apply(&genesis).map_err(|e| Violation::new("harness:model", e))?);
    let mut seen = Seen::default();
    seen.note_block(&genesis);
    let mut queries_run = 0u64;
    let mut deep = false;
    let mut nontrivial_q = false;
    let mut reorgs = 0u64;
    let mut max_depth = 0u64;
    let mut behind = 0u64;
    let mut max_tip = 0u64;
    let nq = c.queries.len().max(1);
    let mut stopped = false;
    for (bi, h) in built.blocks.iter().enumerate() {
        let mb = tree.get(h);
        let pst = states.get(&h32(&mb.parent)).cloned().ok_or_else(|| Violation::new("harness:model", "parent state missing"))?;
        states.insert(h32(h), pst.apply(&mb.block).map_err(|e| Violation::new("harness:model", e))?);
        seen.note_block(&mb.block);
        match node.process(&mb.block) {
            Ok(_) => {}
            Err(e) => vfail!("harness:node-rejected-model-block", "block {} #{}: {e}", h, mb.number),
        }
        // predict what the sync step has to do
        let old_tip: Option<(u64, packed::Byte32)> = idx.tip().map_err(|e| Violation::new("tip:error", e.to_string()))?;
        let node_tip = node.shared.snapshot().tip_hash();
        if let Some((on, oh)) = &old_tip {
            if !tree.is_ancestor(oh, &node_tip) && *oh != node_tip {
                // a reorganisation: count the blocks to roll back
                let mut cur: H = oh.clone();
                let mut d = 0u64;
                let mut consumed_old = false;
                while !(tree.is_ancestor(&cur, &node_tip) || cur == node_tip) {
                    let b = tree.get(&cur);
                    let before = &states[&h32(&b.parent)];
                    for tx in b.block.transactions().iter().skip(1) {
                        for i in tx.inputs().into_iter() {
                            if let Some(cell) = before.live.get(&cell_key(&i.previous_output())) {
                                if cell.block_number + 2 <= b.number {
                                    consumed_old = true;
                                }
                            }
                        }
                    }
                    d += 1;
                    cur = b.parent.clone();
                }
                let fork_n = tree.get(&cur).number;
                if max_tip.max(*on) - fork_n > keep_num {
                    // outside the stated retention bound: stop following here
                    st.label("node:reorg-deeper-than-keep_num-stopped");
                    stopped = true;
                    break;
                }
                {
                    reorgs += 1;
                    max_depth = max_depth.max(d);
                    deep |= consumed_old;
                }
            }
        }
        let r = std::panic::catch_unwind(std::panic::AssertUnwindSafe(|| sync.verif_try_loop_sync(idx.clone())));
        if r.is_err() {
            vfail!("sync-loop:panicked", "try_loop_sync panicked after block {} #{}", h, mb.number);
        }
        node_panic_violation()?;
        let itip = idx.tip().map_err(|e| Violation::new("tip:error", e.to_string()))?;
        let (in_, ih) = match itip {
            Some(t) => t,
            None => vfail!("sync-loop:no-tip-after-sync", "indexer has no tip after a sync step"),
        };
        max_tip = max_tip.max(in_);
        let at = format!("after block {} (#{} created {bi}) node tip #{} indexer tip #{}", h, mb.number, tree.get(&node_tip).number, in_);
        if ih != node_tip {
            // the loop only looks at block tip+1: a heavier chain that is not longer than the
            // indexed one is not noticed until it grows (then the answers must follow it)
            let nt = tree.get(&node_tip).number;
            if nt > in_ {
                vfail!("sync-loop:not-caught-up", "{at}: node tip is higher but the sync step stopped");
            }
            if node.shared.snapshot().get_block_hash(in_ + 1).is_some() {
                vfail!("sync-loop:not-caught-up", "{at}: main chain has block {} but the sync step stopped", in_ + 1);
            }
            behind += 1;
        }
        let m = match states.get(&h32(&ih)) {
            Some(m) => m.clone(),
            None => vfail!("sync-loop:tip-unknown-block", "{at}: indexer tip is not a block of the tree"),
        };
        check_tip(&handle, &m, &at)?;
        let mut qs = battery(&seen, &m, bi, false);
        let lo = (bi * 2) % nq;
        for q in c.queries.iter().cycle().skip(lo).take(2.min(c.queries.len())) {
            qs.push(resolve_query(q, &seen, &m));
        }
        for q in &qs {
            check_query(&handle, &m, q, &at, &tol, st)?;
            queries_run += 1;
            if deep && q.mode != MODE_EXACT && q.mode != MODE_PARTIAL && seen.strict_prefix_of_another(&unhex(&q.script)) {
                nontrivial_q = true;
            }
        }
    }
    if !stopped {
        if let Some((_, ih)) = idx.tip().map_err(|e| Violation::new("tip:error", e.to_string()))? {
            let m = states[&h32(&ih)].clone();
            let mut qs = battery(&seen, &m, 0, true);
            for q in &c.queries {
                qs.push(resolve_query(q, &seen, &m));
            }
            for q in &qs {
                check_query(&handle, &m, q, "final state", &tol, st)?;
                queries_run += 1;
            }
            st.label(&format!("node:final-live-cells:{}", match m.live.len() { 0..=39 => "<40", 40..=79 => "40-79", _ => "80+" }));
        }
    }
    drop(sync);
    node.stop();
    st.label_n("node:queries-run", queries_run);
    st.label(&format!("node:reorgs:{}", reorgs.min(4)));
    st.label(&format!("node:max-rollback-depth:{}", max_depth.min(6)));
    st.label_n("node:indexer-behind-not-longer-heavier-chain", behind);
    for (l, n) in &built.labels {
        if l.starts_with("block:with-commits") || l.starts_with("step:") {
            st.label_n(&format!("node:{l}"), *n);
        }
    }
    if deep {
        st.label("node:rolled-back-block-consumed-cell-2+-blocks-old");
    }
    if deep && nontrivial_q {
        st.nontrivial(&serde_json::to_string(c).unwrap_or_default());
    }
    if st.want_sample() {
        st.sample(|| json!({"sub": "node-sync", "variant": c.variant, "blocks": built.blocks.len(), "reorgs": reorgs, "max_depth": max_depth, "queries_run": queries_run, "scripts_seen": seen.scripts.len()}));
    }
    Ok(())
}

fn run(ctx: &Ctx) {
    // development aid: VERIF_C18_SUB=<name>[,<name>..] runs these sub-checks only
    // (direct, node-sync, rich, rich-node)
    let only = std::env::var("VERIF_C18_SUB").ok();
    let want = |name: &str| only.as_deref().map(|o| o.split(',').any(|x| x.trim() == name)).unwrap_or(true);
    if want("direct") {
        ctx.shrink_iters.set(250);
        let cases = ctx.cases(1000, 20000);
        let max_ops = ctx.tier.pick(14, 24);
        ctx.run_prop("direct", cases, case_strategy(max_ops), |c, st| prop_direct(ctx, c, st));
    }
    if want("node-sync") {
        ctx.shrink_iters.set(100);
        let cases = ctx.cases(160, 3200);
        let max_blocks = ctx.tier.pick(30, 50);
        ctx.run_prop("node-sync", cases, node_case_strategy(max_blocks), |c, st| prop_node(ctx, c, st));
    }
    if want(SUB_RICH) {
        ctx.shrink_iters.set(120);
        let cases = ctx.cases(RICH_CASES.0, RICH_CASES.1);
        let max_ops = ctx.tier.pick(12, 20);
        ctx.run_prop(SUB_RICH, cases, rich_case_strategy(max_ops), |c, st| prop_rich(ctx, c, st));
    }
    if want(SUB_RICH_NODE) {
        ctx.shrink_iters.set(60);
        let cases = ctx.cases(RICH_NODE_CASES.0, RICH_NODE_CASES.1);
        let max_blocks = ctx.tier.pick(26, 44);
        ctx.run_prop(SUB_RICH_NODE, cases, rich_node_case_strategy(max_blocks), |c, st| prop_rich_node(ctx, c, st));
    }
}

fn replay(ctx: &Ctx, sub: &str, v: &Value) -> Verdict {
    let mut st = ctx.stats.borrow_mut();
    match sub {
        "node-sync" => {
            let c: NodeCase = from_case(v)?;
            prop_node(ctx, &c, &mut st)
        }
        SUB_RICH => {
            let c: RichCase = from_case(v)?;
            prop_rich(ctx, &c, &mut st)
        }
        SUB_RICH_NODE => {
            let c: RichNodeCase = from_case(v)?;
            prop_rich_node(ctx, &c, &mut st)
        }
        _ => {
            let c: Case = from_case(v)?;
            prop_direct(ctx, &c, &mut st)
        }
    }
}
