//! C06 — rewards, fee split and DAO field follow the issuance rules; nothing else mints.
use crate::common::*;
use crate::model::*;
use crate::node::*;
use crate::plan::*;
use crate::vfail;
use ckb_dao::DaoCalculator;
use ckb_store::ChainStore;
use ckb_types::{
    bytes::Bytes,
    core::Capacity,
    packed::{CellOutput, Script},
    prelude::*,
};
use proptest::prelude::*;
use serde::{Deserialize, Serialize};
use serde_json::{Value, json};
use std::collections::BTreeMap;

pub fn spec() -> CheckSpec {
    CheckSpec {
        id: "C06",
        level: "exploration",
        rule: "proptest: chain histories (30-90 blocks, some forks) with random fees, proposals in blocks and in uncles, re-proposals of the same id inside one window, commits at every window offset, epoch boundaries with remainder rewards and halving (short epochs), NervosDAO deposits / phase-1 / phase-2 withdrawals (DAO slot holds always_success so node-level accounting runs without the 180-epoch lock). Every block carries the reference model's reward and DAO field and must be accepted by the real node; for every block: cellbase capacity = forward fee ledger (each fee split into committer share and proposer share assigned to the earliest proposer of the commit block's window, each paid once) + primary + miner share of secondary; U = occupied capacity of the model's live-cell set recomputed from scratch; conservation C - S - live capacity - pending rewards - pending fee shares = constant; +-1 mutations of reward and of each DAO component are rejected; DaoCalculator::calculate_maximum_withdraw agrees with exact 128-bit arithmetic on random (capacity, occupied, deposit, withdraw) inputs. Non-trivial = history where some fee's proposer differs from its committer, an id is proposed >= 2 times in one window, and an epoch boundary with non-zero remainder is crossed; distinct by hash of the plan.",
        assumptions: &[
            "NervosDAO script rules (lock period, since) are not exercised in this tier: the DAO slot holds always_success; the node-level accounting (DaoCalculator, dao field S/U/AR, fees of withdrawals) is",
            "epoch transitions come from Consensus::next_epoch_ext over the model tree (C07 checks that arithmetic)",
        ],
        workers: |_| 8,
        watchdog_s: |t| t.pick(1500, 7200),
        run,
        replay,
    }
}

#[derive(Clone, Debug, Serialize, Deserialize)]
pub struct Case {
    pub variant: u8,
    pub plan: TreePlan,
    /// selectors for the withdraw-arithmetic probes: (capacity sel, args len, data len, block a, block b)
    pub probes: Vec<(u16, u8, u8, u16, u16)>,
}

fn variant_cfg(variant: u8) -> SpecCfg {
    let mut c = SpecCfg {
        fake_dao: true,
        ..Default::default()
    };
    match variant % 4 {
        0 => {
            c.permanent_difficulty = true;
            c.epoch_duration_target = 56; // 7 blocks / epoch: remainders are non-zero
            c.halving_interval = 2;
        }
        1 => {
            c.permanent_difficulty = true;
            c.epoch_duration_target = 40;
            c.proposal_window = (2, 4);
            c.halving_interval = 3;
        }
        2 => {
            c.permanent_difficulty = false;
            c.genesis_epoch_length = 5;
            c.proposal_window = (1, 2);
        }
        _ => {
            c.permanent_difficulty = false;
            c.genesis_epoch_length = 7;
        }
    }
    c
}

fn case_strategy(max_blocks: usize) -> impl Strategy<Value = Case> {
    let p = PlanParams {
        min_blocks: 25,
        max_blocks,
        fork_pct: 18,
        tx_rate: 75,
        invalid_pct: 0,
        uncle_pct: 25,
        dao_pct: 30,
    };
    (
        0u8..4,
        tree_plan_strategy(p),
        proptest::collection::vec((any::<u16>(), 0u8..40, 0u8..80, any::<u16>(), any::<u16>()), 4..10),
    )
        .prop_map(|(variant, plan, probes)| Case { variant, plan, probes })
}

/// forward ledger: expected cellbase capacity of the block on top of `parent`
fn ledger_reward(tree: &Tree, parent: &H) -> Option<(u64, u64, u64)> {
    let (close, far) = tree.window();
    let n = tree.get(parent).number + 1;
    if n <= far + 1 {
        return None;
    }
    let t = n - far - 1;
    let target = tree.ancestor(parent, t).unwrap();
    let committer: u64 = target.txs_fees.iter().map(|f| f - (*f as u128 * 4 / 10) as u64).sum();
    let mut proposer = 0u64;
    for c in (t + 1)..=(t + far).min(n - 1) {
        let cb = tree.ancestor(parent, c).unwrap();
        for (i, tx) in cb.block.transactions().iter().enumerate().skip(1) {
            let id = pid(&tx.proposal_short_id());
            // earliest proposer inside the commit block's window
            let lo = c.saturating_sub(far).max(1);
            let hi = c.saturating_sub(close);
            let mut earliest = None;
            for b in lo..=hi {
                if tree.ancestor(parent, b).unwrap().proposals.contains(&id) {
                    earliest = Some(b);
                    break;
                }
            }
            if earliest == Some(t) {
                proposer += (cb.txs_fees[i - 1] as u128 * 4 / 10) as u64;
            }
        }
    }
    let base = tree.primary_issuance(&target.epoch, t) + {
        let tp = tree.get(&target.parent);
        let g2 = tree.secondary_issuance(&target.epoch, t);
        (g2 as u128 * tp.dao.u as u128 / tp.dao.c as u128) as u64
    };
    Some((base, committer, proposer))
}

fn live_capacity(b: &MBlock) -> u128 {
    b.state.live.values().map(|c| cap(&c.output) as u128).sum()
}

/// K(B) = C - S - live - pending block rewards - pending fee shares (constant along every chain)
fn conservation(tree: &Tree, h: &H) -> i128 {
    let (close, far) = tree.window();
    let b = tree.get(h);
    let n = b.number;
    let mut pending: u128 = 0;
    let path = tree.path(h);
    for blk in path.iter() {
        if blk.number == 0 {
            continue;
        }
        // base reward of block `blk` is paid by block blk.number + far + 1
        if blk.number + far + 1 > n {
            let tp = tree.get(&blk.parent);
            let g2 = tree.secondary_issuance(&blk.epoch, blk.number);
            pending += tree.primary_issuance(&blk.epoch, blk.number) as u128
                + (g2 as u128 * tp.dao.u as u128 / tp.dao.c as u128);
        }
        for (i, tx) in blk.block.transactions().iter().enumerate().skip(1) {
            let fee = blk.txs_fees[i - 1];
            let p_share = (fee as u128 * 4 / 10) as u64;
            let c_share = fee - p_share;
            let c = blk.number;
            if c + far + 1 > n {
                pending += c_share as u128;
            }
            let id = pid(&tx.proposal_short_id());
            let lo = c.saturating_sub(far).max(1);
            let hi = c.saturating_sub(close);
            let mut earliest = None;
            for x in lo..=hi {
                if tree.ancestor(h, x).unwrap().proposals.contains(&id) {
                    earliest = Some(x);
                    break;
                }
            }
            match earliest {
                Some(e) if e + far + 1 > n => pending += p_share as u128,
                Some(_) => {}
                None => pending += p_share as u128, // never paid (cannot happen on a valid chain)
            }
        }
    }
    b.dao.c as i128 - b.dao.s as i128 - live_capacity(b) as i128 - pending as i128
}

fn prop(case: &Case, st: &mut Stats) -> Verdict {
    let cfg = variant_cfg(case.variant);
    let env = build_env(&cfg);
    let mut interp = Interp::new(&env);
    interp.tolerate_reward_quirk = true;
    let built = interp.run(&case.plan);
    for (k, v) in &built.labels {
        st.label_n(k, *v);
    }
    let tree = &built.tree;
    install_panic_recorder();
    clear_panics();
    let node = Node::start(&env, NodeCfg::default()).map_err(|e| Violation::new("harness:node-start", e))?;
    let k0 = conservation(tree, &tree.genesis);
    let mut proposer_ne_committer = false;
    let mut multi_proposed = false;
    let mut remainder_boundary = false;
    let mut quirk_blocks = 0;
    // capacity that legitimately never reaches a cell, cumulated per branch: the proposer share the
    // node denies for target block 1 (known finding, tolerated) and rewards too small to create
    // the cellbase output (the protocol drops them)
    let mut unpaid: BTreeMap<[u8; 32], i128> = BTreeMap::new();
    for h in &built.blocks {
        let b = tree.get(h);
        let parent = &b.parent;
        if tree.path(h).iter().any(|x| x.invalid.is_some()) {
            continue; // deliberately invalid blocks belong to C01/C03
        }
        // (1) model-built block accepted by the node
        match node.process(&b.block) {
            Ok(_) => {}
            Err(e) => {
                let r = tree.reward_for_child_of(parent);
                let snap = node.shared.snapshot();
                let dbg = r
                    .as_ref()
                    .map(|r| {
                        let t = tree.get(&r.target);
                        format!(
                            "target #{} model fees {:?} node fees {:?} target txs {:?}; parent-of-target dao {:?}",
                            t.number,
                            t.txs_fees,
                            snap.get_block_ext(&t.hash).map(|e| e.txs_fees.iter().map(|c| c.as_u64()).collect::<Vec<_>>()),
                            t.block.transactions().iter().skip(1).map(|x| (x.header_deps().len(), x.outputs().get(0).and_then(|o| o.type_().to_opt()).is_some())).collect::<Vec<_>>(),
                            tree.get(&t.parent).dao
                        )
                    })
                    .unwrap_or_default();
                let node_reward = ckb_reward_calculator::RewardCalculator::new(&env.consensus, snap.as_ref())
                    .block_reward_to_finalize(&tree.get(parent).block.header())
                    .map(|(_, r)| (r.primary.as_u64(), r.secondary.as_u64(), r.tx_fee.as_u64(), r.proposal_reward.as_u64()));
                let dbg = format!("{dbg}; node RewardCalculator says {node_reward:?}");
                let txs_dbg: Vec<_> = b.block.transactions().iter().skip(1).map(|x| (x.header_deps().len(), x.outputs().get(0).and_then(|o| o.type_().to_opt()).is_some(), x.outputs_capacity().map(|c| c.as_u64()).unwrap_or(0))).collect();
                vfail!(
                    "accept:model-built-block-rejected",
                    "block #{} ({} txs {:?}, {} uncles, reward {:?}, model dao {:?} parent dao {:?} fees {:?}) built with the reference model's reward/DAO was rejected: {e}; {dbg}",
                    b.number,
                    b.block.transactions().len() - 1,
                    txs_dbg,
                    b.block.uncles().data().len(),
                    r.as_ref().map(|r| (r.primary, r.secondary, r.committer, r.proposer, r.proposer_node_quirk)),
                    b.dao,
                    tree.get(parent).dao,
                    b.txs_fees
                );
            }
        }
        // (2) forward ledger = model reward = cellbase
        let mut unpaid_here: i128 = 0;
        let paid: u64 = b.block.transactions()[0].outputs_capacity().map(|c| c.as_u64()).unwrap_or(0);
        match (ledger_reward(tree, parent), tree.reward_for_child_of(parent)) {
            (None, None) => {
                if paid != 0 {
                    vfail!("ledger:cellbase-before-finalisation", "block #{} pays {paid} before any block is finalised", b.number);
                }
            }
            (Some((base, committer, proposer)), Some(r)) => {
                if proposer != r.proposer || committer != r.committer || base != r.primary + r.secondary {
                    vfail!(
                        "ledger:model-disagrees-with-forward-ledger",
                        "block #{}: ledger (base {base}, committer {committer}, proposer {proposer}) vs model {:?}",
                        b.number,
                        (r.primary + r.secondary, r.committer, r.proposer)
                    );
                }
                let quirk = r.proposer != r.proposer_node_quirk;
                if quirk {
                    quirk_blocks += 1;
                    unpaid_here += r.proposer as i128 - r.proposer_node_quirk as i128;
                }
                let want = base + committer + if quirk { r.proposer_node_quirk } else { proposer };
                let lack = occupied_shannons(
                    &CellOutput::new_builder().lock(r.lock.clone()).build(),
                    0,
                ) > want as u128;
                if lack {
                    unpaid_here += want as i128;
                }
                if !lack && paid != want {
                    vfail!(
                        "ledger:cellbase-differs-from-ledger",
                        "block #{} cellbase pays {paid}, ledger says {want} (base {base} committer {committer} proposer {proposer})",
                        b.number
                    );
                }
                if r.proposer > 0 && r.committer == 0 {
                    proposer_ne_committer = true;
                }
            }
            (a, bm) => vfail!("ledger:finalisation-target-mismatch", "block #{}: {a:?} vs {:?}", b.number, bm.map(|r| r.total)),
        }
        // (3) U = occupied capacity of the live-cell set, C grows by the block's issuance
        if b.dao.u as u128 != b.state.occupied_total {
            vfail!("dao:u-differs-from-live-set-occupied-capacity", "block #{}: U {} vs recomputed {}", b.number, b.dao.u, b.state.occupied_total);
        }
        let pd = tree.get(parent).dao;
        if b.dao.c - pd.c != b.issuance_g {
            vfail!("dao:c-growth", "block #{}: dC {} vs issuance {}", b.number, b.dao.c - pd.c, b.issuance_g);
        }
        // (4) conservation
        let unpaid_total = unpaid.get(&h32(parent)).copied().unwrap_or(0) + unpaid_here;
        unpaid.insert(h32(h), unpaid_total);
        let k = conservation(tree, h);
        if k != k0 + unpaid_total {
            vfail!(
                "conservation:capacity-appeared-or-vanished",
                "block #{}: C - S - live - pending = {k}, at genesis {k0}, legitimately unpaid so far {unpaid_total} (difference {})",
                b.number,
                k - k0 - unpaid_total
            );
        }
        // labels for the non-trivial rule
        let (_, far) = tree.window();
        let mut seen: BTreeMap<[u8; 10], u32> = BTreeMap::new();
        let mut cur = b;
        for _ in 0..far {
            for id in cur.proposals.iter() {
                *seen.entry(*id).or_insert(0) += 1;
            }
            if cur.number == 0 {
                break;
            }
            cur = tree.get(&cur.parent);
        }
        if seen.values().any(|c| *c >= 2) {
            multi_proposed = true;
        }
        if b.epoch.start_number() == b.number && b.number > 0 {
            let total = {
                let halvings = b.epoch.number() / env.consensus.primary_epoch_reward_halving_interval();
                env.consensus.initial_primary_epoch_reward().as_u64() >> halvings.min(63)
            };
            if total % b.epoch.length() != 0 {
                remainder_boundary = true;
            }
        }
    }
    node_panic_violation()?;
    st.label_n("known:C06-block1-proposer-clamp:blocks", quirk_blocks);

    // (5) +-1 mutants on the final best tip are rejected
    let tip = node.tip_hash();
    if tree.blocks.contains_key(&tip) {
        let ts = tree.get(&tip).block.timestamp() + 1000;
        let spec = BlockSpec {
            timestamp: ts,
            miner_lock: Some(env.always_success_lock.clone()),
            ..Default::default()
        };
        let has_reward = tree.reward_for_child_of(&tip).is_some();
        let mut muts: Vec<(&str, BuildOpts)> = vec![];
        for (i, name) in ["dao-c", "dao-ar", "dao-s", "dao-u"].iter().enumerate() {
            for d in [1i64, -1] {
                let mut o = BuildOpts::default();
                o.use_node_reward_quirk = true;
                o.dao_delta[i] = d;
                muts.push((name, o));
            }
        }
        if has_reward {
            for d in [1i64, -1] {
                let mut o = BuildOpts::default();
                o.use_node_reward_quirk = true;
                o.reward_delta = d;
                muts.push(("reward", o));
            }
        }
        for (name, o) in muts {
            let Ok(mb) = tree.build(&tip, &spec, &o) else { continue };
            st.label("mutant:submitted");
            if let Ok(r) = node.process(&mb.block) {
                vfail!(
                    format!("mutant:{name}:accepted"),
                    "a block whose {name} differs by {:?}/{} from the rule was accepted: Ok({r})",
                    o.dao_delta,
                    o.reward_delta
                );
            }
            if node.tip_hash() != tip {
                vfail!(format!("mutant:{name}:tip-moved"), "tip moved after a rejected mutant");
            }
        }
        // the unmutated block is accepted
        let mut o = BuildOpts::default();
        o.use_node_reward_quirk = true;
        if let Ok(mb) = tree.build(&tip, &spec, &o) {
            if let Err(e) = node.process(&mb.block) {
                vfail!("accept:unmutated-control-rejected", "control block on the tip rejected: {e}");
            }
        }
    }

    // (6) DaoCalculator::calculate_maximum_withdraw vs exact arithmetic
    let snap = node.shared.snapshot();
    let consensus = env.consensus.clone();
    let loader = snap.borrow_as_data_loader();
    let calc = DaoCalculator::new(&consensus, &loader);
    let main: Vec<&MBlock> = tree.path(&tip);
    for (csel, args, dlen, a, bsel) in &case.probes {
        if main.len() < 3 {
            break;
        }
        let ia = pick_idx(*a as u32, main.len());
        let ib = pick_idx(*bsel as u32, main.len());
        let (d, w) = (main[ia], main[ib]);
        let lock = Script::new_builder().args(Bytes::from(vec![7u8; *args as usize]).pack()).build();
        let probe = CellOutput::new_builder().lock(lock.clone()).build();
        let occ = occupied_shannons(&probe, *dlen as usize) as u64;
        let capacity = match csel % 5 {
            0 => occ,
            1 => occ + 1,
            2 => occ.saturating_sub(1),
            3 => occ + (*csel as u64) * 1_000_003,
            _ => occ + 10_000_000_000_000 + *csel as u64,
        };
        let out = probe.as_builder().capacity(Capacity::shannons(capacity)).build();
        let got = calc.calculate_maximum_withdraw(
            &out,
            Capacity::bytes(*dlen as usize).unwrap(),
            &d.hash,
            &w.hash,
        );
        st.label("withdraw-probe");
        let want: Option<u64> = if d.number >= w.number || capacity < occ {
            None
        } else {
            let counted = (capacity - occ) as u128;
            let v = counted * w.dao.ar as u128 / d.dao.ar as u128 + occ as u128;
            u64::try_from(v).ok()
        };
        match (got, want) {
            (Ok(g), Some(wv)) if g.as_u64() == wv => {}
            (Err(_), None) => {}
            (g, wv) => vfail!(
                "withdraw:calculate_maximum_withdraw-differs-from-exact-arithmetic",
                "capacity {capacity} occupied {occ} deposit #{} (AR {}) withdraw #{} (AR {}): code {:?}, exact {:?}",
                d.number,
                d.dao.ar,
                w.number,
                w.dao.ar,
                g.map(|c| c.as_u64()).map_err(|e| e.to_string()),
                wv
            ),
        }
    }
    node.stop();
    if proposer_ne_committer {
        st.label("history:proposer-differs-from-committer");
    }
    if multi_proposed {
        st.label("history:id-proposed>=2-in-window");
    }
    if remainder_boundary {
        st.label("history:epoch-boundary-with-remainder");
    }
    if proposer_ne_committer && multi_proposed && remainder_boundary {
        st.nontrivial(&serde_json::to_string(&case.plan).unwrap());
        if st.want_sample() {
            st.sample(|| {
                json!({"variant": case.variant, "blocks": built.blocks.len(), "txs": built.txs.len(),
                   "labels": built.labels,
                   "rewards": built.blocks.iter().rev().take(8).map(|h| { let r = tree.reward_for_child_of(&tree.get(h).parent); json!(r.map(|r| json!({"n": tree.get(h).number, "target": r.target_number, "primary": r.primary, "secondary": r.secondary, "committer": r.committer, "proposer": r.proposer})))}).collect::<Vec<_>>()})
            });
        }
    }
    Ok(())
}

/// directed: the proposer share of target block 1 (DESIGN §4 item 6) with the model's own value
fn block1_case(variant: u8, commit_at: u8) -> Case {
    // plan: anchor (#1) is built by the interpreter without proposals, so drive it by hand instead
    Case {
        variant,
        plan: TreePlan { steps: vec![] },
        probes: vec![(commit_at as u16, 0, 0, 0, 0)],
    }
}

fn prop_block1(case: &Case, st: &mut Stats) -> Verdict {
    let cfg = variant_cfg(case.variant);
    let env = build_env(&cfg);
    let (close, far) = (cfg.proposal_window.0, cfg.proposal_window.1);
    let mut tree = Tree::new(env.consensus.clone());
    let node = Node::start(&env, NodeCfg::default()).map_err(|e| Violation::new("harness:node-start", e))?;
    // block 1 proposes a tx, committed at height c in [1+close, far]; block far+2 finalises block 1
    let commit_at = (1 + close + (case.probes[0].0 as u64 % (far - close).max(1))).min(far.max(1 + close));
    let mut avail: BTreeMap<CellKey, (CellOutput, usize)> = tree
        .get(&tree.genesis)
        .state
        .live
        .iter()
        .filter(|(_, c)| c.output.lock() == env.always_success_lock && c.output.type_().to_opt().is_none())
        .map(|(k, c)| (*k, (c.output.clone(), c.data.len())))
        .collect();
    let tx = build_tx(
        &env,
        &TxStep {
            inputs: vec![0],
            outputs: 1,
            fee: 6,
            data_len: 0,
            lock_variant: 0,
            kind: 0,
        },
        &mut avail,
    )
    .ok_or_else(|| Violation::new("harness:no-faucet", "no faucet cell"))?;
    let mut tip = tree.genesis.clone();
    let mut ts = 1000u64;
    for n in 1..=(far + 2) {
        ts += 1000;
        let mut spec = BlockSpec {
            timestamp: ts,
            miner_lock: Some(env.always_success_lock.clone()),
            ..Default::default()
        };
        if n == 1 {
            spec.proposals = vec![tx.proposal_short_id()];
        }
        if n == commit_at {
            spec.txs = vec![tx.clone()];
        }
        let opts = BuildOpts::default(); // the model's own reward, no quirk
        let mb = tree.build(&tip, &spec, &opts).map_err(|e| Violation::new("harness:build", e))?;
        let r = tree.reward_for_child_of(&tip);
        match node.process(&mb.block) {
            Ok(_) => {}
            Err(e) => {
                let r = r.unwrap();
                vfail!(
                    if r.target_number == 1 && r.proposer != r.proposer_node_quirk {
                        "reward:proposer-share-of-target-block-1-denied"
                    } else {
                        "accept:model-built-block-rejected"
                    },
                    "block #{n} finalising block {} with the rule's reward (proposer share {}, what the node computes {}) was rejected: {e}; tx proposed in block 1, committed in block {commit_at}, window ({close},{far})",
                    r.target_number,
                    r.proposer,
                    r.proposer_node_quirk
                );
            }
        }
        tip = tree.insert(mb);
    }
    st.label("block1-proposer:accepted");
    node.stop();
    Ok(())
}

fn run(ctx: &Ctx) {
    ctx.shrink_iters.set(100);
    let cases = ctx.cases(240, 3600);
    let max_blocks = ctx.tier.pick(70, 160);
    ctx.run_prop("history", cases, case_strategy(max_blocks), prop);
    // directed block-1 scenario, every window variant x every commit offset
    if ctx.worker == 0 {
        for variant in 0..4u8 {
            for off in 0..8u8 {
                let c = block1_case(variant, off);
                ctx.run_case("block1-proposer-share", &c, prop_block1);
            }
        }
    }
}

fn replay(ctx: &Ctx, sub: &str, v: &Value) -> Verdict {
    let c: Case = from_case(v)?;
    let mut st = ctx.stats.borrow_mut();
    if sub == "block1-proposer-share" {
        prop_block1(&c, &mut st)
    } else {
        prop(&c, &mut st)
    }
}
