//! C02 — stored chain state and every snapshot equal a replay of the main chain.
use crate::checks::c01::{Case, Schedule, run_schedule_with, schedule_strategy, variant_cfg};
use crate::common::*;
use crate::model::*;
use crate::node::*;
use crate::plan::*;
use crate::statecheck::*;
use crate::vfail;
use ckb_snapshot::Snapshot;
use proptest::prelude::*;
use serde_json::{Value, json};
use std::sync::Arc;
use std::sync::atomic::{AtomicBool, Ordering};

pub fn spec() -> CheckSpec {
    CheckSpec {
        id: "C02",
        level: "exploration",
        rule: "proptest: block-tree plans dense in transactions (in-block spend chains, the same tx committed on two branches, cells created on one branch and spent on another, conflicting spends) and forks, delivered to a real node under generated schedules (mostly synchronous so that many reorgs happen; asynchronous bursts with a concurrent snapshot-sampling reader thread); at every quiescent point the oracle = full scans of the live-cell / cell-data / data-hash / tx-location / number<->hash / included-uncle columns compared both ways with the reference model's replay of the main chain, plus tip, current epoch, per-block epoch records, block ext (fees, sizes, TD, uncle count, verified), chain-root MMR; every sampled snapshot gets the same comparison for its own tip; at the end a second node fed only the final main chain in order must have byte-identical columns, block exts (incl. cycles) and chain root; some histories end with a truncate, half of them with a clean stop and restart on the same directory whose first snapshot gets the same comparison. A second family grows few long rival branches under 2-5 block epochs so that reorganisations cross epoch boundaries. A case = (plan, schedule); non-trivial = some reorg detaches a block containing a non-cellbase transaction, or has its fork point in an earlier epoch than a new tip that is not an epoch head; distinct by hash of (plan, schedule).",
        assumptions: &[
            "snapshots are sampled by a reader thread at whatever instants the OS schedules it, not enumerated",
            "the reference model's replay (model.rs) is the definition of 'what replaying the main chain produces'; it is validated by the unchanged node accepting its blocks",
        ],
        workers: |_| 8,
        watchdog_s: |t| t.pick(1500, 7200),
        run,
        replay,
    }
}

fn case_strategy(max_blocks: usize) -> impl Strategy<Value = Case> {
    let p = PlanParams {
        min_blocks: 6,
        max_blocks,
        fork_pct: 60,
        tx_rate: 70,
        invalid_pct: 4,
        uncle_pct: 15,
        dao_pct: 0,
    };
    (
        0u8..4,
        tree_plan_strategy(p),
        proptest::collection::vec(
            schedule_strategy(max_blocks + 2).prop_map(|mut s| {
                // bias to in-order synchronous delivery: reorgs rather than orphan games
                if s.mode >= 2 {
                    s.mode = 1;
                }
                s.dups.truncate(1);
                s
            }),
            1..=2,
        ),
    )
        .prop_map(|(variant, plan, schedules)| Case {
            variant,
            plan,
            schedules,
        })
}

/// second family: few long competing branches under short epochs (2, 3.., 5 blocks), so that
/// reorganisations cross epoch boundaries with the new tip in the middle of an epoch
fn epoch_case_strategy(max_blocks: usize) -> impl Strategy<Value = Case> {
    let p = PlanParams {
        min_blocks: 10,
        max_blocks,
        fork_pct: 34,
        tx_rate: 40,
        invalid_pct: 2,
        uncle_pct: 25,
        dao_pct: 0,
    };
    (
        prop_oneof![Just(2u8), Just(3u8), Just(4u8)],
        tree_plan_strategy(p).prop_map(|mut plan| {
            // forks mostly continue an existing rival leaf instead of opening a new one
            for (i, st) in plan.steps.iter_mut().enumerate() {
                if st.parent_mode == 2 && i % 3 != 0 {
                    st.parent_mode = 1;
                }
            }
            plan
        }),
        proptest::collection::vec(
            schedule_strategy(max_blocks + 2).prop_map(|mut s| {
                if s.mode >= 2 {
                    s.mode = 0;
                }
                s.dups.truncate(1);
                s
            }),
            1..=2,
        ),
    )
        .prop_map(|(variant, plan, schedules)| Case {
            variant,
            plan,
            schedules,
        })
}

fn prop(case: &Case, st: &mut Stats) -> Verdict {
    let cfg = variant_cfg(case.variant);
    let env = build_env(&cfg);
    let built = Interp::new(&env).run(&case.plan);
    for (k, v) in &built.labels {
        st.label_n(k, *v);
    }
    if built.blocks.is_empty() {
        return Ok(());
    }
    for (si, s) in case.schedules.iter().enumerate() {
        st.eval("schedule");
        run_one(&env, &built, s, case, st).map_err(|mut v| {
            v.detail = format!("[schedule {si}] {}", v.detail);
            v
        })?;
    }
    Ok(())
}

fn run_one(env: &Env, built: &Built, s: &Schedule, case: &Case, st: &mut Stats) -> Verdict {
    let tree = &built.tree;
    // concurrent reader: samples published snapshots while blocks are processed
    let stop = Arc::new(AtomicBool::new(false));
    let sampled: Arc<std::sync::Mutex<Vec<Arc<Snapshot>>>> = Arc::new(std::sync::Mutex::new(vec![]));
    let shared_slot: Arc<std::sync::Mutex<Option<ckb_shared::Shared>>> = Arc::new(std::sync::Mutex::new(None));
    let reader = {
        let stop = Arc::clone(&stop);
        let sampled = Arc::clone(&sampled);
        let slot = Arc::clone(&shared_slot);
        std::thread::Builder::new()
            .name("main".into()) // part of the check, not of the node
            .spawn(move || {
                let mut last: Option<ckb_types::packed::Byte32> = None;
                while !stop.load(Ordering::Relaxed) {
                    if let Some(shared) = slot.lock().unwrap().as_ref() {
                        let snap = Arc::clone(&shared.snapshot());
                        let th = snap.tip_hash();
                        if last.as_ref() != Some(&th) {
                            last = Some(th);
                            let mut g = sampled.lock().unwrap();
                            if g.len() < 64 {
                                g.push(snap);
                            }
                        }
                    }
                    std::thread::yield_now();
                }
            })
            .unwrap()
    };
    let mut detached_tx_block = false;
    let mut crossed_epoch = false;
    let mut last_tip: Option<H> = None;
    let mut extra = |node: &Node, where_: &str, st: &mut Stats| -> Verdict {
        {
            let mut g = shared_slot.lock().unwrap();
            if g.is_none() {
                *g = Some(node.shared.clone());
            }
        }
        let snap = node.shared.snapshot();
        let tip = snap.tip_hash();
        if let Some(prev) = &last_tip {
            if prev != &tip && tree.blocks.contains_key(&tip) && !tree.is_ancestor(prev, &tip) {
                // a reorg: did it detach a block with a non-cellbase transaction?
                let mut a = tree.get(prev);
                while !tree.is_ancestor(&a.hash, &tip) {
                    if a.block.transactions().len() > 1 {
                        detached_tx_block = true;
                    }
                    a = tree.get(&a.parent);
                }
                st.label("reorg");
                // `a` is now the fork point
                let nt = tree.get(&tip);
                let tip_epoch = nt.block.epoch();
                if a.block.epoch().number() != tip_epoch.number() && tip_epoch.index() != 0 {
                    st.label("reorg:fork-point-in-earlier-epoch,new-tip-not-epoch-head");
                    crossed_epoch = true;
                }
            }
        }
        last_tip = Some(tip);
        check_snapshot(&snap, tree, where_, st)
    };
    let dir = scratch("c02-");
    let node_cfg = NodeCfg { dir: Some(dir.path().to_path_buf()), ..Default::default() };
    let res = run_schedule_with(env, built, s, st, &mut extra, node_cfg);
    stop.store(true, Ordering::Relaxed);
    let _ = reader.join();
    let (out, node) = res?;
    // every sampled snapshot equals the replay of its own main chain
    let snaps: Vec<Arc<Snapshot>> = sampled.lock().unwrap().drain(..).collect();
    st.label_n("snapshot:sampled-by-reader", snaps.len() as u64);
    for (i, snap) in snaps.iter().enumerate() {
        check_snapshot(snap, tree, &format!("reader-sampled snapshot {i} (tip #{})", snap.tip_number()), st)?;
    }
    drop(snaps);
    *shared_slot.lock().unwrap() = None;

    // linear-replay twin
    let final_tip = out.final_tip.clone();
    let twin = Node::start(env, NodeCfg::default()).map_err(|e| Violation::new("harness:node-start", e))?;
    for b in tree.path(&final_tip).iter().skip(1) {
        match twin.process(&b.block) {
            Ok(_) => {}
            Err(e) => vfail!(
                "twin:main-chain-block-refused",
                "linear replay node refused main-chain block #{}: {e}",
                b.number
            ),
        }
    }
    compare_stores(&node.shared.snapshot(), &twin.shared.snapshot(), tree, "end of schedule")?;
    twin.stop();

    // truncate to an ancestor (testing-only API, part of the property's history space)
    let tipn = tree.get(&final_tip).number;
    if tipn >= 2 && (s.jitter.first().copied().unwrap_or(0) % 3 == 0) {
        let target_n = 1 + (s.jitter.get(1).copied().unwrap_or(0) as u64 % (tipn - 1));
        let target = tree.ancestor(&final_tip, target_n).unwrap().hash.clone();
        match node.chain().truncate(target.clone()) {
            Ok(()) => {}
            Err(e) => vfail!("truncate:failed", "truncate to #{target_n}: {e}"),
        }
        st.label("truncate");
        let snap = node.shared.snapshot();
        if snap.tip_hash() != target {
            vfail!("truncate:tip", "after truncate to #{target_n} tip is #{}", snap.tip_number());
        }
        check_snapshot(&snap, tree, &format!("after truncate to #{target_n}"), st)?;
    }
    node_panic_violation()?;
    // the persisted state is what the next start loads: a restarted node's first snapshot must
    // satisfy the same oracle (clean stop; crash points are C08's subject)
    if s.jitter.get(2).copied().unwrap_or(0) % 2 == 0 {
        let tip_before = node.shared.snapshot().tip_hash();
        node.stop();
        let mut last = String::new();
        let mut restarted = None;
        for attempt in 0..40u64 {
            let cfg = NodeCfg { dir: Some(dir.path().to_path_buf()), ..Default::default() };
            match std::panic::catch_unwind(std::panic::AssertUnwindSafe(|| Node::start(env, cfg))) {
                Ok(Ok(n)) => {
                    restarted = Some(n);
                    break;
                }
                Ok(Err(e)) => last = e,
                Err(_) => last = "panic while starting the node".into(),
            }
            // the previous instance's threads may still be releasing the database lock
            std::thread::sleep(std::time::Duration::from_millis(50 + 25 * attempt));
        }
        let Some(node) = restarted else { vfail!("harness:node-start", "restart: {last}") };
        st.label("restart");
        let snap = node.shared.snapshot();
        if snap.tip_hash() != tip_before {
            vfail!("restart:tip-changed", "tip before the stop {:#x}, after the restart {:#x}", tip_before, snap.tip_hash());
        }
        check_snapshot(&snap, tree, "after restart", st)?;
        node_panic_violation()?;
        node.stop();
    } else {
        node.stop();
    }
    if detached_tx_block {
        st.label("schedule:reorg-detached-block-with-txs");
    }
    if detached_tx_block || crossed_epoch {
        st.nontrivial(&(
            serde_json::to_string(&case.plan).unwrap(),
            serde_json::to_string(s).unwrap(),
            case.variant,
        ));
        if st.want_sample() {
            st.sample(|| {
                json!({"variant": case.variant, "blocks": built.blocks.len(), "txs": built.txs.len(),
                    "schedule_mode": s.mode, "sync_pct": s.sync_pct, "max_reorg_depth": out.max_reorg_depth,
                    "final_tip_number": tipn,
                    "tree": built.blocks.iter().map(|h| { let b = tree.get(h); json!({"n": b.number, "parent_n": tree.get(&b.parent).number, "txs": b.block.transactions().len()-1, "uncles": b.block.uncles().data().len(), "invalid": b.invalid})}).collect::<Vec<_>>()})
            });
        }
    }
    Ok(())
}

fn run(ctx: &Ctx) {
    ctx.shrink_iters.set(100);
    let cases = ctx.cases(500, 7500);
    let max_blocks = ctx.tier.pick(40, 100);
    ctx.run_prop("history-x-schedule", cases, case_strategy(max_blocks), prop);
    let cases = ctx.cases(300, 4500);
    let max_blocks = ctx.tier.pick(36, 80);
    ctx.run_prop("reorgs-across-epochs", cases, epoch_case_strategy(max_blocks), prop);
}

fn replay(ctx: &Ctx, _sub: &str, v: &Value) -> Verdict {
    let c: Case = from_case(v)?;
    let mut st = ctx.stats.borrow_mut();
    prop(&c, &mut st)
}
