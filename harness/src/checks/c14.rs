//! C14 — caches never change a verdict or an answer.
//!
//! Two real nodes receive the identical operation sequence: T ("warm": default / small caches) and
//! R ("reference": every StoreCache LRU has capacity 0 and the transaction-verification cache has
//! capacity 0, i.e. all caches disabled).  After every operation the verdicts, the recorded
//! BlockExt, the pool reports and the answers of a query battery must be identical on both, and
//! equal to the reference model wherever the model knows the answer.
use crate::c14_world::*;
use crate::common::*;
use crate::model::*;
use crate::node::*;
use crate::vfail;
use ckb_app_config::StoreConfig;
use ckb_store::ChainStore;
use ckb_types::{
    core::{BlockView, TransactionView, cell::CellProvider, cell::CellStatus},
    packed::{Byte32, CellOutput, OutPoint},
    prelude::*,
};
use ckb_verification::cache::TxVerificationCache;
use proptest::prelude::*;
use serde::{Deserialize, Serialize};
use serde_json::{Value, json};
use std::collections::{BTreeMap, BTreeSet};
use std::sync::mpsc;
use std::time::{Duration, Instant};

pub fn spec() -> CheckSpec {
    CheckSpec {
        id: "C14",
        level: "exploration",
        rule: "proptest: operation sequences (create a transaction at the model tip with since (absolute/relative block number, epoch, median time) / cellbase-maturity / witness-checking-lock variants and submit it to the pool; re-submit a known transaction with other witnesses; build a block on the tip, on an ancestor or on a stored side block that proposes / commits known transactions, optionally with another witness variant or at a position where the transaction is immature or its script fails, or with a wrong DAO field / reward / chain root / transactions root; re-deliver a block; directed composites: since-fork (pool-accepted since transaction committed earlier on a fork), relative-since reorg (transaction cached on the block path, input re-committed later on the winning chain, re-submitted to the pool), NervosDAO deposit + phase-1 withdrawal with equal / different lock size; query batteries on block hashes before arrival, after arrival, after deletion, on transactions and on cells, through the store and through the snapshot) interpreted over the reference model and applied to two real nodes, one with default or tiny caches and one with all caches disabled; four chain-spec variants (proposal windows (2,4) (2,10) (1,2), cellbase maturity 0 / fractions of an epoch / one epoch, one with ckb2023 activating at epoch 2). Oracle after every operation: same block verdict (and the model's verdict), same BlockExt, same pool verdict and reported cycles/fee, same pool entries, same answer to every query, and the model's answer for presence-determined queries. A case = one sequence; non-trivial = at least one hit on the transaction-verification cache (peeked before the operation) for a transaction verified at another position than where it was cached, or one query repeated across an insert or delete of the same hash; distinct by hash of the case. Sub-check system-cell-cache: a short chain, prepared dep-group cells and 6-12 transactions whose cell deps mix the two cached system dep groups (2 members each), the three cached plain system cells, system cells the cache does not hold, a system group cell read as code / a code cell read as group, ordinary dep groups of 1-24 members drawn from system cells with repetitions, a spare plain cell, unknown out points, an optional verbatim duplicate, in generated order, topped up by a 1900-member group and a trim group so that the total expansion is exactly 2047 / 2048 / 2049; each case is evaluated in this process (SYSTEM_CELL empty) and in a helper process in which setup_system_cell_cache(genesis, snapshot) was called as ckb run does. Oracle: in both processes every pool verdict (test_accept_tx fresh and proposed, submit_local_tx) and every block verdict (probe block per model-invalid transaction, the real block for the rest) equals the C04 admissibility model (expansion counted from the cell data of the model's own live-cell set), and the two processes' observations (verdict class, cycles, fee) are identical; non-trivial there = a transaction with total expansion 2047/2048/2049 that uses a cached system dep.",
        assumptions: &[
            "the reference node runs with StoreConfig cache sizes 0 and a transaction-verification cache of capacity 0 (lru 0.7.8 treats capacity 0 as 'never retain'), which is what 'all caches empty or disabled' means here",
            "operations are applied sequentially and both nodes are quiescent (block callback fired, pool synced to the tip) before anything is compared; cache effects that need two blocks in flight at once are not explored",
            "SYSTEM_CELL is process-global: two of the eight workers run every paired-history case with the system-cell cache installed and are compared against the model only; the sub-check system-cell-cache compares a process with the cache against a process without it on the same cases (system cells are unspendable in the verif specs, the documented precondition of the cache)",
            "script semantics of the witness-checking lock are those of the C source in c14_world.rs; block validity is predicted from RFC 0017 (since), the cellbase maturity rule and that script, not from the node's verifiers",
        ],
        workers: |_| 8,
        watchdog_s: |t| t.pick(1500, 7200),
        run,
        replay,
    }
}

// ------------------------------------------------------------------------------------------------
// case

#[derive(Clone, Debug, Serialize, Deserialize, Hash)]
pub enum Op {
    Tx(TxOp),
    Resubmit { sel: u16, witness: u8 },
    Block(BlockOp),
    Redeliver { sel: u16 },
    /// directed: create a since-bearing transaction that the pool accepts at the tip, then build a
    /// fork from `back` blocks below the tip that proposes it and commits it `back` blocks earlier
    /// than the position the pool judged (`mature`: since lowered so that it is just satisfied there)
    SinceFork { tx: TxOp, back: u8, mature: bool, ts: u8, witness_alt: bool },
    /// directed: transaction T spends the output of T0 with a relative since; chain X commits T0
    /// early and T as soon as it is mature (T enters the verification cache on the block path); a
    /// longer chain Y commits T0 only in its tip block, so after the reorg T is immature again and
    /// is re-submitted to the pool (cache hit on the pool path, context changed)
    RelSinceReorg { tx0: TxOp, tx: TxOp, ts: u8, submit_first: bool },
    /// directed: NervosDAO deposit, then a phase-1 withdrawal whose lock has the same / another size
    /// than the deposit's (DaoScriptSizeVerifier), seen by the pool first and committed afterwards
    Dao { sel: u16, lock_a: u8, lock_b: u8, submit: bool, ts: u8 },
    Query { target: u16, mask: u16, snapshot: bool, rev: bool },
    CellQuery { sel: u16, snapshot: bool },
    TxQuery { sel: u16, snapshot: bool },
}

#[derive(Clone, Debug, Serialize, Deserialize, Hash)]
pub struct Case {
    pub variant: u8,
    /// cache configuration of the tested node: 0,1 default; 2 store caches of size 1; 3 store
    /// caches of size 2 and a transaction-verification cache of capacity 2
    pub t_cfg: u8,
    /// install the process-global SYSTEM_CELL cache before the first node starts
    pub sys_cell: bool,
    pub ops: Vec<Op>,
}

fn tx_op_strategy() -> impl Strategy<Value = TxOp> {
    (
        (
            proptest::collection::vec(any::<u16>(), 1..=2),
            1u8..=3,
            prop_oneof![1 => Just(0u8), 1 => Just(1u8), 4 => 2u8..6],
            prop_oneof![4 => Just(0u8), 2 => 1u8..20, 1 => 20u8..120],
            prop_oneof![1 => 0u8..4, 1 => 4u8..6],
        ),
        (
            prop_oneof![5 => Just(0u8), 6 => 1u8..7],
            -2i8..=2,
            prop_oneof![6 => 1u8..3, 2 => Just(0u8), 3 => 3u8..7],
            prop_oneof![4 => Just(false), 1 => Just(true)],
            prop_oneof![5 => Just(false), 1 => Just(true)],
            prop_oneof![3 => Just(true), 1 => Just(false)],
        ),
    )
        .prop_map(
            |((inputs, outputs, fee, data_len, out_lock), (since, since_delta, witness, extra_dep, conflict, submit))| TxOp {
                inputs,
                outputs,
                fee,
                data_len,
                out_lock,
                since,
                since_delta,
                witness,
                extra_dep,
                conflict,
                submit,
            },
        )
}

fn mask_strategy() -> impl Strategy<Value = u16> {
    prop_oneof![3 => Just(0xffffu16), 2 => any::<u16>(), 1 => Just(0u16)]
}

fn block_op_strategy() -> impl Strategy<Value = BlockOp> {
    (
        (
            prop_oneof![10 => Just(0u8), 4 => Just(1u8), 6 => Just(2u8)],
            any::<u16>(),
            0u8..6,
            mask_strategy(),
            mask_strategy(),
            prop_oneof![3 => Just(0u16), 2 => any::<u16>()],
            0u8..WITNESS_VARIANTS,
            prop_oneof![2 => Just(false), 1 => Just(true)],
        ),
        (
            prop_oneof![8 => Just(0u8), 2 => 1u8..5],
            prop_oneof![3 => Just(0u16), 1 => any::<u16>()],
            0u8..4,
            prop_oneof![3 => Just(0u8), 1 => 1u8..=64],
            prop_oneof![2 => Just(0u16), 2 => any::<u16>(), 1 => Just(0xffffu16)],
            any::<bool>(),
            prop_oneof![2 => Just(0u16), 2 => any::<u16>(), 1 => Just(0xffffu16)],
        ),
    )
        .prop_map(
            |(
                (parent_mode, parent, ts, propose_mask, commit_mask, witness_alt, witness_sel, allow_bad),
                (invalid, uncle, miner, ext_extra, prequery, pre_snapshot, postquery),
            )| BlockOp {
                parent_mode,
                parent,
                ts,
                propose_mask,
                commit_mask,
                witness_alt,
                witness_sel,
                allow_bad,
                invalid,
                uncle,
                miner,
                ext_extra,
                prequery,
                pre_snapshot,
                postquery,
            },
        )
}

fn op_strategy() -> impl Strategy<Value = Op> {
    prop_oneof![
        30 => tx_op_strategy().prop_map(Op::Tx),
        6 => (any::<u16>(), 0u8..WITNESS_VARIANTS).prop_map(|(sel, witness)| Op::Resubmit { sel, witness }),
        36 => block_op_strategy().prop_map(Op::Block),
        3 => any::<u16>().prop_map(|sel| Op::Redeliver { sel }),
        2 => (any::<u16>(), 0u8..4, 0u8..4, prop_oneof![3 => Just(true), 1 => Just(false)], 0u8..4)
            .prop_map(|(sel, lock_a, lock_b, submit, ts)| Op::Dao { sel, lock_a, lock_b, submit, ts }),
        2 => (tx_op_strategy(), tx_op_strategy(), 0u8..6, any::<bool>())
            .prop_map(|(tx0, tx, ts, submit_first)| Op::RelSinceReorg { tx0, tx, ts, submit_first }),
        5 => (tx_op_strategy(), 0u8..4, prop_oneof![2 => Just(false), 1 => Just(true)], 0u8..6, prop_oneof![3 => Just(false), 1 => Just(true)])
            .prop_map(|(tx, back, mature, ts, witness_alt)| Op::SinceFork { tx, back, mature, ts, witness_alt }),
        12 => (any::<u16>(), prop_oneof![1 => Just(0xffffu16), 2 => any::<u16>()], any::<bool>(), any::<bool>())
            .prop_map(|(target, mask, snapshot, rev)| Op::Query { target, mask, snapshot, rev }),
        7 => (any::<u16>(), any::<bool>()).prop_map(|(sel, snapshot)| Op::CellQuery { sel, snapshot }),
        6 => (any::<u16>(), any::<bool>()).prop_map(|(sel, snapshot)| Op::TxQuery { sel, snapshot }),
    ]
}

pub fn case_strategy(max_ops: usize, pinned: Option<u8>) -> impl Strategy<Value = Case> {
    let variant = match pinned {
        Some(v) => Just(v).boxed(),
        None => (0u8..4).boxed(),
    };
    let sys_cell = pinned.is_some();
    (variant, 0u8..4, proptest::collection::vec(op_strategy(), 12..=max_ops)).prop_map(move |(variant, t_cfg, ops)| Case {
        variant,
        t_cfg,
        sys_cell,
        ops,
    })
}

// ------------------------------------------------------------------------------------------------
// known-finding switches: a registered ("known") signature excludes its trigger by construction /
// is tolerated inline so that the search continues behind it

pub const SIG_EXT_NONE: &str = "query:get_block_extension:none-cached-while-absent-survives-insert";
pub const SIG_TXH_EMPTY: &str = "query:get_block_txs_hashes:empty-cached-while-absent-survives-insert";
pub const SIG_EXT_NONE_VERDICT: &str =
    "block-verdict:valid-block-rejected-NoBlockExtension:extension-none-cached-while-absent";
pub const SIG_TXH_EMPTY_VERDICT: &str =
    "block-verdict:valid-block-rejected-wrong-reward:tx-hashes-empty-cached-while-absent";
pub const SIG_VM_BLOCK: &str = "vm-version-change:block-verdict:cached-script-result-reused";
pub const SIG_VM_EXT: &str = "vm-version-change:block-ext-cycles:cached-script-result-reused";
pub const SIG_VM_POOL: &str = "vm-version-change:pool-verdict:cached-script-result-reused";
pub const SIG_VM_POOL_CYCLES: &str = "vm-version-change:pool-report-cycles:cached-script-result-reused";
pub const SIG_CELL_DATA: &str = "query:get_cell_data(_hash):non-live-cell-answered-from-cache";
pub const SIG_CELL_DATA_HASH: &str = SIG_CELL_DATA;
/// the cell never was live on the node: its data entered the cache through a read inside a store
/// transaction that was rolled back (the block creating it failed verification)
pub const SIG_CELL_DATA_ROLLED_BACK: &str =
    "query:get_cell_data(_hash):non-live-cell-answered-from-cache:cached-inside-a-rolled-back-store-transaction";

#[derive(Clone, Copy, Debug, Default)]
pub struct Known {
    pub ext_none: bool,
    pub txh_empty: bool,
    pub cell_data: bool,
    pub cell_data_hash: bool,
    pub cell_data_rolled_back: bool,
    pub vm_change: bool,
}

impl Known {
    fn from_ctx(ctx: &Ctx) -> Known {
        // development aid: C14_KEEP_KNOWN=1 keeps the exclusions while replaying
        if ctx.strict && std::env::var_os("C14_KEEP_KNOWN").is_none() {
            return Known::default();
        }
        Known {
            ext_none: ctx.is_known(SIG_EXT_NONE),
            txh_empty: ctx.is_known(SIG_TXH_EMPTY),
            cell_data: ctx.is_known(SIG_CELL_DATA),
            cell_data_hash: ctx.is_known(SIG_CELL_DATA_HASH),
            cell_data_rolled_back: ctx.is_known(SIG_CELL_DATA_ROLLED_BACK),
            vm_change: ctx.is_known(SIG_VM_BLOCK),
        }
    }
}

// ------------------------------------------------------------------------------------------------
// query battery

const Q_NAMES: [&str; 12] = [
    "block_exists",
    "get_block_header",
    "get_block",
    "get_block_uncles",
    "get_block_proposal_txs_ids",
    "get_block_txs_hashes",
    "get_block_extension",
    "get_packed_block",
    "get_packed_block_header",
    "get_block_number",
    "get_block_ext",
    "get_cellbase",
];
const Q_EXTENSION: usize = 6;
const Q_TX_HASHES: usize = 5;
const Q_BLOCK_EXT: usize = 10;

fn dg(b: &[u8]) -> String {
    format!("{:016x}/{}", fxhash64(b), b.len())
}

fn opt<T>(o: Option<T>, f: impl FnOnce(T) -> String) -> String {
    match o {
        Some(v) => format!("Some({})", f(v)),
        None => "None".to_string(),
    }
}

fn block_query<S: ChainStore>(s: &S, h: &Byte32, q: usize) -> String {
    match q {
        0 => format!("{}", s.block_exists(h)),
        1 => opt(s.get_block_header(h), |x| format!("{:x}:{}", x.hash(), dg(x.data().as_slice()))),
        2 => opt(s.get_block(h), |x| format!("{:x}:{}", x.hash(), dg(x.data().as_slice()))),
        3 => opt(s.get_block_uncles(h), |x| dg(x.data().as_slice())),
        4 => opt(s.get_block_proposal_txs_ids(h), |x| dg(x.as_slice())),
        5 => {
            let v = s.get_block_txs_hashes(h);
            let mut all = vec![];
            for x in &v {
                all.extend_from_slice(x.as_slice());
            }
            format!("{}:{}", v.len(), dg(&all))
        }
        6 => opt(s.get_block_extension(h), |x| dg(x.as_slice())),
        7 => opt(s.get_packed_block(h), |x| dg(x.as_slice())),
        8 => opt(s.get_packed_block_header(h), |x| dg(x.as_slice())),
        9 => format!("{:?}/{}", s.get_block_number(h), s.is_main_chain(h)),
        10 => opt(s.get_block_ext(h), |e| {
            format!(
                "verified={:?} td={:#x} uncles={} fees={:?} cycles={:?} sizes={:?}",
                e.verified, e.total_difficulty, e.total_uncles_count, e.txs_fees, e.cycles, e.txs_sizes
            )
        }),
        _ => opt(s.get_cellbase(h), |x| format!("{:x}", x.hash())),
    }
}

/// the model's answer (None = the model does not determine it)
fn block_expect(w: &World, h: &Byte32, q: usize) -> Option<String> {
    let present = w.tree.blocks.contains_key(h) && w.present(h);
    if !present {
        return Some(
            match q {
                0 => "false",
                5 => {
                    return Some(format!("0:{}", dg(&[])));
                }
                9 => "None/false",
                10 => return None,
                _ => "None",
            }
            .to_string(),
        );
    }
    let b: &BlockView = &w.tree.get(h).block;
    Some(match q {
        0 => "true".to_string(),
        1 => format!("Some({:x}:{})", b.hash(), dg(b.header().data().as_slice())),
        2 => format!("Some({:x}:{})", b.hash(), dg(b.data().as_slice())),
        3 => format!("Some({})", dg(b.uncles().data().as_slice())),
        4 => format!("Some({})", dg(b.data().proposals().as_slice())),
        5 => {
            let mut all = vec![];
            for x in b.tx_hashes() {
                all.extend_from_slice(x.as_slice());
            }
            format!("{}:{}", b.tx_hashes().len(), dg(&all))
        }
        6 => opt(b.extension(), |x| dg(x.as_slice())),
        7 => format!("Some({})", dg(b.data().as_slice())),
        8 => format!("Some({})", dg(b.header().data().as_slice())),
        9 => {
            if w.on_main(h) {
                format!("Some({})/true", b.number())
            } else {
                "None/false".to_string()
            }
        }
        10 => return None,
        _ => format!("Some({:x})", b.transactions()[0].hash()),
    })
}

fn render_cell_meta(c: &ckb_types::core::cell::CellMeta) -> String {
    let info = c
        .transaction_info
        .as_ref()
        .map(|i| format!("{:x}#{}@{}[{}]", i.block_hash, i.block_number, i.block_epoch.full_value(), i.index))
        .unwrap_or_default();
    format!(
        "out={} info={} bytes={} data={}",
        dg(c.cell_output.as_slice()),
        info,
        c.data_bytes,
        opt(c.mem_cell_data.as_ref().zip(c.mem_cell_data_hash.as_ref()), |(d, h)| format!("{}:{:x}", dg(d), h))
    )
}

const CQ_NAMES: [&str; 5] = ["have_cell", "get_cell", "get_cell_data", "get_cell_data_hash", "cell(eager)"];

fn cell_query<S: ChainStore>(s: &S, snap: &ckb_snapshot::Snapshot, op: &OutPoint, q: usize) -> String {
    match q {
        0 => format!("{}", s.have_cell(op)),
        1 => opt(s.get_cell(op), |c| render_cell_meta(&c)),
        2 => opt(s.get_cell_data(op), |(d, h)| format!("{}:{:x}", dg(&d), h)),
        3 => opt(s.get_cell_data_hash(op), |h| format!("{:x}", h)),
        _ => match snap.cell(op, true) {
            CellStatus::Live(c) => format!("Live({})", render_cell_meta(&c)),
            CellStatus::Dead => "Dead".into(),
            CellStatus::Unknown => "Unknown".into(),
        },
    }
}

fn data_hash(d: &[u8]) -> Byte32 {
    if d.is_empty() {
        Byte32::zero()
    } else {
        CellOutput::calc_data_hash(d)
    }
}

fn cell_expect(w: &World, op: &OutPoint, q: usize) -> String {
    let st = &w.tree.get(&w.tip).state;
    match st.live.get(&cell_key(op)) {
        None => match q {
            0 => "false".into(),
            4 => "Unknown".into(),
            _ => "None".into(),
        },
        Some(c) => {
            let meta = |with_data: bool| {
                format!(
                    "out={} info={:x}#{}@{}[{}] bytes={} data={}",
                    dg(c.output.as_slice()),
                    c.block_hash,
                    c.block_number,
                    c.block_epoch,
                    c.tx_index,
                    c.data.len(),
                    if with_data {
                        format!("Some({}:{:x})", dg(&c.data), data_hash(&c.data))
                    } else {
                        "None".into()
                    }
                )
            };
            match q {
                0 => "true".into(),
                1 => format!("Some({})", meta(false)),
                2 => format!("Some({}:{:x})", dg(&c.data), data_hash(&c.data)),
                3 => format!("Some({:x})", data_hash(&c.data)),
                _ => format!("Live({})", meta(true)),
            }
        }
    }
}

const TQ_NAMES: [&str; 3] = ["transaction_exists", "get_transaction_info", "get_transaction"];

fn tx_query<S: ChainStore>(s: &S, h: &Byte32, q: usize) -> String {
    match q {
        0 => format!("{}", s.transaction_exists(h)),
        1 => opt(s.get_transaction_info(h), |i| {
            format!("{:x}#{}[{}]", i.block_hash, i.block_number, i.index)
        }),
        _ => opt(s.get_transaction(h), |(tx, bh)| format!("{}@{:x}", dg(tx.data().as_slice()), bh)),
    }
}

fn tx_expect(w: &World, h: &Byte32, q: usize) -> String {
    let st = &w.tree.get(&w.tip).state;
    match st.tx_index.get(&h32(h)) {
        None => match q {
            0 => "false".into(),
            _ => "None".into(),
        },
        Some((bh, n, i)) => match q {
            0 => "true".into(),
            1 => format!("Some({:x}#{}[{}])", bh, n, i),
            _ => {
                let tx = &w.tree.get(bh).block.transactions()[*i as usize];
                format!("Some({}@{:x})", dg(tx.data().as_slice()), bh)
            }
        },
    }
}

// ------------------------------------------------------------------------------------------------
// the pair of nodes

type BlockVerdict = Result<bool, String>;

struct Pair {
    t: Node,
    r: Node,
}

fn store_cfg(size: usize) -> StoreConfig {
    let mut c = StoreConfig::default();
    c.header_cache_size = size;
    c.cell_data_cache_size = size;
    c.block_proposals_cache_size = size;
    c.block_tx_hashes_cache_size = size;
    c.block_uncles_cache_size = size;
    c.block_extensions_cache_size = size;
    c
}

static SYS_CELL_GENESIS: std::sync::OnceLock<Byte32> = std::sync::OnceLock::new();

impl Pair {
    fn start(env: &Env, case: &Case) -> Result<Pair, Violation> {
        let t_store = match case.t_cfg % 4 {
            0 | 1 => None,
            2 => Some(store_cfg(1)),
            _ => Some(store_cfg(2)),
        };
        let t = Node::start(
            env,
            NodeCfg {
                store: t_store,
                ..Default::default()
            },
        )
        .map_err(|e| Violation::new("harness:node-start", e))?;
        let r = Node::start(
            env,
            NodeCfg {
                store: Some(store_cfg(0)),
                ..Default::default()
            },
        )
        .map_err(|e| Violation::new("harness:node-start", e))?;
        *r.shared.txs_verify_cache().blocking_write() = TxVerificationCache::new(0);
        if case.t_cfg % 4 == 3 {
            *t.shared.txs_verify_cache().blocking_write() = TxVerificationCache::new(2);
        }
        let genesis = env.consensus.genesis_block();
        let installed = ckb_types::core::cell::SYSTEM_CELL.get().is_some();
        if case.sys_cell {
            if !installed {
                let _ = ckb_types::core::cell::setup_system_cell_cache(genesis, t.shared.snapshot().as_ref());
                let _ = SYS_CELL_GENESIS.set(genesis.hash());
            }
            if SYS_CELL_GENESIS.get() != Some(&genesis.hash()) {
                return Err(Violation::new(
                    "harness:system-cell-cache-of-another-genesis",
                    "SYSTEM_CELL is process-global and was installed for another genesis block",
                ));
            }
        } else if installed {
            return Err(Violation::new(
                "harness:system-cell-cache-already-installed",
                "SYSTEM_CELL is process-global and was installed by an earlier case of this process",
            ));
        }
        Ok(Pair { t, r })
    }

    fn deliver(&self, b: &BlockView) -> Result<(BlockVerdict, BlockVerdict), Violation> {
        let (tx1, rx1) = mpsc::channel();
        let (tx2, rx2) = mpsc::channel();
        self.t.deliver_async(b, 0, tx1);
        self.r.deliver_async(b, 0, tx2);
        let wait = |rx: mpsc::Receiver<(usize, BlockVerdict)>, who: &str| -> Result<BlockVerdict, Violation> {
            match rx.recv_timeout(Duration::from_secs(90)) {
                Ok((_, v)) => Ok(v),
                Err(_) => {
                    node_panic_violation()?;
                    Err(Violation::new(
                        "harness:block-callback-timeout",
                        format!("{who} node: callback of block #{} did not fire in 90 s", b.number()),
                    ))
                }
            }
        };
        let a = wait(rx1, "tested")?;
        let c = wait(rx2, "reference")?;
        node_panic_violation()?;
        for n in [&self.t, &self.r] {
            if !n.wait_pool_synced(Duration::from_secs(30)) {
                return Err(Violation::new("harness:pool-sync-timeout", "tx-pool did not reach the chain tip in 30 s"));
            }
        }
        Ok((a, c))
    }

    fn peek(&self, wtx: &Byte32) -> bool {
        self.t.shared.txs_verify_cache().blocking_read().peek(wtx).is_some()
    }

    fn wait_cached(&self, wtx: &Byte32) -> bool {
        let start = Instant::now();
        while start.elapsed() < Duration::from_millis(400) {
            if self.peek(wtx) {
                return true;
            }
            std::thread::sleep(Duration::from_millis(1));
        }
        false
    }
}

fn pool_render(n: &Node) -> Result<String, Violation> {
    let info = n
        .shared
        .tx_pool_controller()
        .get_all_entry_info()
        .map_err(|e| Violation::new("harness:pool-info", e.to_string()))?;
    let f = |m: &std::collections::HashMap<Byte32, ckb_types::core::tx_pool::TxEntryInfo>| -> BTreeMap<String, (u64, u64, u64)> {
        m.iter()
            .map(|(k, v)| (format!("{:x}", k), (v.cycles, v.size, v.fee.as_u64())))
            .collect()
    };
    let mut conflicted: Vec<String> = info.conflicted.iter().map(|h| format!("{:x}", h)).collect();
    conflicted.sort();
    Ok(format!("pending={:?} proposed={:?} conflicted={:?}", f(&info.pending), f(&info.proposed), conflicted))
}

// ------------------------------------------------------------------------------------------------
// the run

#[derive(Default)]
struct Track {
    /// (hash, query) -> (asked while absent, asked while present)
    block_q: BTreeMap<([u8; 32], usize), (bool, bool)>,
    /// out point -> asked get_cell_data / get_cell_data_hash while live
    cell_q: BTreeSet<(CellKey, usize)>,
    /// witness hashes seen in the tested node's verification cache -> tip when first seen
    cached: BTreeMap<[u8; 32], [u8; 32]>,
    hits_ctx_changed: u64,
    query_across: u64,
    /// cells that were live inside the store transaction of a refused (rolled back) import:
    /// restored by a detached block, or created by a block of the refused branch
    rolled_back_cells: BTreeSet<CellKey>,
}

struct Run<'a> {
    w: World,
    p: Pair,
    k: Known,
    tr: Track,
    st: &'a mut Stats,
    opi: usize,
}

fn trace() -> bool {
    static T: std::sync::OnceLock<bool> = std::sync::OnceLock::new();
    *T.get_or_init(|| std::env::var_os("C14_TRACE").is_some())
}

fn class(a: &str, r: &str, m: Option<&str>) -> &'static str {
    match m {
        Some(m) if r == m && a != m => "tested-differs-from-reference-and-model",
        Some(m) if a == m && r != m => "reference-differs-from-tested-and-model",
        Some(m) if a == r && a != m => "both-differ-from-model",
        Some(_) => "all-three-differ",
        None => "tested-differs-from-reference",
    }
}

impl<'a> Run<'a> {
    fn refresh_cached(&mut self) {
        let cache = self.p.t.shared.txs_verify_cache();
        let g = cache.blocking_read();
        let tip = h32(&self.w.tip);
        for kt in &self.w.txs {
            for v in 0..WITNESS_VARIANTS {
                let wtx = with_witnesses(&kt.tx, v).witness_hash();
                if g.peek(&wtx).is_some() {
                    self.tr.cached.entry(h32(&wtx)).or_insert(tip);
                }
            }
        }
    }

    /// the tested node cached this exact transaction while another VM version (for scripts
    /// referenced by type hash) was in force than `vm_now`
    fn cached_under_other_vm(&self, tx: &TransactionView, vm_now: u8) -> bool {
        if self.w.fork_epoch == 0 {
            return false;
        }
        match self.tr.cached.get(&h32(&tx.witness_hash())) {
            Some(tip) => {
                let e = self.w.tree.get(&Byte32::from_slice(tip).unwrap()).block.epoch();
                let next = if e.index() + 1 >= e.length() { e.number() + 1 } else { e.number() };
                self.w.vm_version_at_epoch(e.number()) != vm_now || self.w.vm_version_at_epoch(next) != vm_now
            }
            None => false,
        }
    }

    /// (this exact tx is cached, another witness variant of the same tx hash is cached)
    fn cache_traits(&self, tx: &TransactionView) -> (bool, bool) {
        let own = h32(&tx.witness_hash());
        let hit = self.tr.cached.contains_key(&own);
        let mut other = false;
        for v in 0..WITNESS_VARIANTS {
            let wtx = h32(&with_witnesses(tx, v).witness_hash());
            if wtx != own && self.tr.cached.contains_key(&wtx) {
                other = true;
            }
        }
        (hit, other)
    }

    fn one_block_query(&mut self, h: &Byte32, q: usize, snapshot: bool, ctx_: &str) -> Verdict {
        let via = if snapshot { "snapshot" } else { "store" };
        let present = self.w.tree.blocks.contains_key(h) && self.w.present(h);
        // known findings: exclude the trigger by construction (counted)
        if !present && q == Q_EXTENSION && self.k.ext_none && self.w.tree.blocks.contains_key(h) && !self.w.stat.contains_key(&h32(h)) {
            self.st.label("excluded-known:extension-query-before-arrival");
            return Ok(());
        }
        if !present && q == Q_TX_HASHES && self.k.txh_empty && self.w.tree.blocks.contains_key(h) && !self.w.stat.contains_key(&h32(h)) {
            self.st.label("excluded-known:tx-hashes-query-before-arrival");
            return Ok(());
        }
        let (a, r) = if snapshot {
            (
                block_query(self.p.t.shared.snapshot().as_ref(), h, q),
                block_query(self.p.r.shared.snapshot().as_ref(), h, q),
            )
        } else {
            (block_query(self.p.t.shared.store(), h, q), block_query(self.p.r.shared.store(), h, q))
        };
        let m = block_expect(&self.w, h, q);
        let across = {
            let e = self.tr.block_q.entry((h32(h), q)).or_insert((false, false));
            let across = if present && e.0 {
                Some("asked-while-absent-then-stored")
            } else if !present && e.1 {
                Some("asked-while-stored-then-deleted")
            } else {
                None
            };
            if present {
                e.1 = true;
            } else {
                e.0 = true;
            }
            across
        };
        if across.is_some() {
            self.tr.query_across += 1;
            self.st.label(&format!("query:{}", across.unwrap()));
        }
        self.st.label(if present { "query:block-present" } else { "query:block-absent" });
        let bad = a != r || m.as_deref().map(|m| m != a).unwrap_or(false);
        if bad {
            let state = if present {
                "present"
            } else if self.w.stat.contains_key(&h32(h)) {
                "deleted-or-rejected"
            } else if self.w.tree.blocks.contains_key(h) {
                "not-yet-delivered"
            } else {
                "never-existed"
            };
            let sig = if q == Q_EXTENSION && across == Some("asked-while-absent-then-stored") && a == "None" {
                SIG_EXT_NONE.to_string()
            } else if q == Q_TX_HASHES && across == Some("asked-while-absent-then-stored") && a.starts_with("0:") {
                SIG_TXH_EMPTY.to_string()
            } else {
                format!(
                    "query:{via}:{}:{}:{}:{}",
                    Q_NAMES[q],
                    class(&a, &r, m.as_deref()),
                    state,
                    across.unwrap_or("no-earlier-query")
                )
            };
            vfail!(
                sig,
                "op {} ({ctx_}): {}({:x}) via {via}: tested node {a}, reference node {r}, model {:?}; block state {state}, history {:?}",
                self.opi,
                Q_NAMES[q],
                h,
                m,
                across
            );
        }
        Ok(())
    }

    fn battery(&mut self, h: &Byte32, mask: u16, snapshot: bool, rev: bool, ctx_: &str) -> Verdict {
        let mut qs: Vec<usize> = (0..Q_NAMES.len()).filter(|q| (mask >> q) & 1 == 1).collect();
        if rev {
            qs.reverse();
        }
        for q in qs {
            self.one_block_query(h, q, snapshot, ctx_)?;
        }
        Ok(())
    }

    fn cell_battery(&mut self, op: &OutPoint, snapshot: bool, ctx_: &str) -> Verdict {
        self.cell_battery_sel(op, snapshot, false, ctx_)
    }

    /// `hash_only`: ask for liveness and the data hash but never for the data, the way the script
    /// verifier reads the cell deps it does not execute (the two caches are filled independently)
    fn cell_battery_sel(&mut self, op: &OutPoint, snapshot: bool, hash_only: bool, ctx_: &str) -> Verdict {
        let via = if snapshot { "snapshot" } else { "store" };
        let live = self.w.tree.get(&self.w.tip).state.live.contains_key(&cell_key(op));
        self.st.label(if live { "query:cell-live" } else { "query:cell-not-live" });
        if hash_only && live {
            self.st.label("query:cell-live:data-hash-without-data");
        }
        for q in 0..CQ_NAMES.len() {
            if hash_only && (q == 2 || q == 4) {
                continue;
            }
            let (sa, sr) = (self.p.t.shared.snapshot(), self.p.r.shared.snapshot());
            let (a, r) = if snapshot {
                (cell_query(sa.as_ref(), sa.as_ref(), op, q), cell_query(sr.as_ref(), sr.as_ref(), op, q))
            } else {
                (
                    cell_query(self.p.t.shared.store(), sa.as_ref(), op, q),
                    cell_query(self.p.r.shared.store(), sr.as_ref(), op, q),
                )
            };
            let m = cell_expect(&self.w, op, q);
            let asked_live = self.tr.cell_q.contains(&(cell_key(op), q));
            if live {
                self.tr.cell_q.insert((cell_key(op), q));
            }
            if a != r || a != m {
                let stale_cache = !live && r == m && a != "None";
                let rolled_back = self.tr.rolled_back_cells.contains(&cell_key(op));
                if stale_cache && (q == 2 || q == 3) && rolled_back {
                    if self.k.cell_data_rolled_back {
                        self.st.label("known:get_cell_data-cached-inside-a-rolled-back-store-transaction");
                        continue;
                    }
                    vfail!(
                        SIG_CELL_DATA_ROLLED_BACK,
                        "op {} ({ctx_}): {}({}) via {via}: tested node {a}, reference node {r}, model {m}; the cell was live only inside the store transaction of a refused reorganisation (restored by a detached block or created by a block of the refused branch)",
                        self.opi,
                        CQ_NAMES[q],
                        op
                    );
                }
                if stale_cache && q == 2 && self.k.cell_data {
                    self.st.label("known:get_cell_data-non-live-answered-from-cache");
                    continue;
                }
                if stale_cache && q == 3 && self.k.cell_data_hash {
                    self.st.label("known:get_cell_data_hash-non-live-answered-from-cache");
                    continue;
                }
                let sig = if stale_cache && q == 2 {
                    SIG_CELL_DATA.to_string()
                } else if stale_cache && q == 3 {
                    SIG_CELL_DATA_HASH.to_string()
                } else {
                    format!(
                        "query:{via}:{}:{}:{}",
                        CQ_NAMES[q],
                        class(&a, &r, Some(&m)),
                        if live { "live" } else { "not-live" }
                    )
                };
                vfail!(
                    sig,
                    "op {} ({ctx_}): {}({}) via {via}: tested node {a}, reference node {r}, model {m}; cell live at tip: {live}; asked earlier while live: {asked_live}",
                    self.opi,
                    CQ_NAMES[q],
                    op
                );
            }
        }
        Ok(())
    }

    fn tx_battery(&mut self, h: &Byte32, snapshot: bool, ctx_: &str) -> Verdict {
        let via = if snapshot { "snapshot" } else { "store" };
        for q in 0..TQ_NAMES.len() {
            let (a, r) = if snapshot {
                (
                    tx_query(self.p.t.shared.snapshot().as_ref(), h, q),
                    tx_query(self.p.r.shared.snapshot().as_ref(), h, q),
                )
            } else {
                (tx_query(self.p.t.shared.store(), h, q), tx_query(self.p.r.shared.store(), h, q))
            };
            let m = tx_expect(&self.w, h, q);
            if a != r || a != m {
                vfail!(
                    format!("query:{via}:{}:{}", TQ_NAMES[q], class(&a, &r, Some(&m))),
                    "op {} ({ctx_}): {}({:x}) via {via}: tested node {a}, reference node {r}, model {m}",
                    self.opi,
                    TQ_NAMES[q],
                    h
                );
            }
        }
        Ok(())
    }

    fn compare_pools(&mut self, ctx_: &str) -> Verdict {
        let mut a = pool_render(&self.p.t)?;
        let mut r = pool_render(&self.p.r)?;
        // Transactions parked in the conflicts cache are re-verified and re-submitted by a spawned
        // task and the verify-queue workers ("recover back") some time after the operation that
        // freed their inputs has returned: the two pools converge asynchronously.  A difference is
        // judged only once both verify queues are empty and the answer has stopped changing.
        if a != r {
            let start = Instant::now();
            let mut stable = 0;
            while start.elapsed() < Duration::from_secs(5) && stable < 3 {
                std::thread::sleep(Duration::from_millis(20));
                let idle = [&self.p.t, &self.p.r].iter().all(|n| {
                    n.shared.tx_pool_controller().verif_dump().map(|d| d.verify_queue_len == 0).unwrap_or(false)
                });
                let (a2, r2) = (pool_render(&self.p.t)?, pool_render(&self.p.r)?);
                if a2 == r2 {
                    self.st.label("pool:converged-after-asynchronous-recovery");
                    return Ok(());
                }
                stable = if idle && a2 == a && r2 == r { stable + 1 } else { 0 };
                a = a2;
                r = r2;
            }
        }
        if a != r {
            vfail!(
                "pool:entries-differ",
                "op {} ({ctx_}): pool of the tested node: {a}; pool of the reference node: {r}",
                self.opi
            );
        }
        Ok(())
    }

    fn tx_traits(&self, idx: usize) -> String {
        let kt = &self.w.txs[idx];
        let metric = ["none", "abs-number", "rel-number", "abs-epoch", "rel-epoch", "abs-time", "rel-time"];
        let m = if kt.since == 0 {
            0
        } else {
            1 + (((kt.since >> 61) & 3) * 2 + (kt.since >> 63)) as usize
        };
        format!("since={}{}", metric[m.min(6)], if kt.wc_input { ",witness-checking-lock" } else { "" })
    }

    fn submit(&mut self, idx: usize, tx: &TransactionView, what: &str) -> Verdict {
        self.refresh_cached();
        let (hit, other) = self.cache_traits(tx);
        let wtx = tx.witness_hash();
        let traits = format!(
            "{}{}{}",
            self.tx_traits(idx),
            if hit { ",cached" } else { "" },
            if other { ",other-witness-variant-cached" } else { "" }
        );
        if hit {
            self.st.label("pool:cache-hit");
            if self.tr.cached.get(&h32(&wtx)) != Some(&h32(&self.w.tip)) {
                self.tr.hits_ctx_changed += 1;
                self.st.label("pool:cache-hit-at-another-tip");
            }
        }
        if other && !hit {
            self.st.label("pool:other-witness-variant-cached");
        }
        let vm_stale = {
            let e = self.w.tree.get(&self.w.tip).block.epoch();
            let next = if e.index() + 1 >= e.length() { e.number() + 1 } else { e.number() };
            let dao = tx.outputs().into_iter().any(|o| o.type_().to_opt().map(|t| t == self.w.env.dao_type).unwrap_or(false));
            (self.w.txs[idx].wc_input || dao) && self.cached_under_other_vm(tx, self.w.vm_version_at_epoch(next))
        };
        let ctl_t = self.p.t.shared.tx_pool_controller().clone();
        let ctl_r = self.p.r.shared.tx_pool_controller().clone();
        let ta = |c: &ckb_tx_pool::TxPoolController| -> Result<Result<(u64, u64), String>, Violation> {
            c.test_accept_tx(tx.clone())
                .map(|r| r.map(|c| (c.cycles, c.fee.as_u64())).map_err(|e| e.to_string()))
                .map_err(|e| Violation::new("harness:pool-call", e.to_string()))
        };
        let (a, r) = (ta(&ctl_t)?, ta(&ctl_r)?);
        if a.is_ok() != r.is_ok() {
            vfail!(
                if vm_stale {
                    SIG_VM_POOL.to_string()
                } else {
                    format!(
                        "pool-verdict:test_accept_tx:tested-{}-reference-{}:{traits}",
                        if a.is_ok() { "accepts" } else { "rejects" },
                        if r.is_ok() { "accepts" } else { "rejects" }
                    )
                },
                "op {} ({what}): test_accept_tx({:x}): tested node {a:?}, reference node {r:?}",
                self.opi,
                tx.hash()
            );
        }
        if let (Ok(x), Ok(y)) = (&a, &r) {
            if x != y {
                vfail!(
                    if vm_stale { SIG_VM_POOL_CYCLES.to_string() } else { format!("pool-report:test_accept_tx:cycles-or-fee-differ:{traits}") },
                    "op {} ({what}): test_accept_tx({:x}): tested node (cycles, fee) = {x:?}, reference node {y:?}",
                    self.opi,
                    tx.hash()
                );
            }
        }
        let sub = |c: &ckb_tx_pool::TxPoolController| -> Result<Result<(), String>, Violation> {
            c.submit_local_tx(tx.clone())
                .map(|r| r.map_err(|e| e.to_string()))
                .map_err(|e| Violation::new("harness:pool-call", e.to_string()))
        };
        let (a, r) = (sub(&ctl_t)?, sub(&ctl_r)?);
        if trace() {
            eprintln!("op {} {what}: tx {:x} wtx {:x} [{traits}] -> tested {a:?} reference {r:?}", self.opi, tx.hash(), wtx);
        }
        if a.is_ok() != r.is_ok() {
            vfail!(
                if vm_stale {
                    SIG_VM_POOL.to_string()
                } else {
                    format!(
                        "pool-verdict:submit_local_tx:tested-{}-reference-{}:{traits}",
                        if a.is_ok() { "accepts" } else { "rejects" },
                        if r.is_ok() { "accepts" } else { "rejects" }
                    )
                },
                "op {} ({what}): submit_local_tx({:x}): tested node {a:?}, reference node {r:?}",
                self.opi,
                tx.hash()
            );
        }
        match &a {
            Ok(()) => {
                self.st.label("pool:accepted");
                if !hit && self.p.t.shared.txs_verify_cache().blocking_read().cap() > 0 {
                    self.p.wait_cached(&wtx);
                }
            }
            Err(e) => {
                let kind = e.split(|c: char| !c.is_alphanumeric()).next().unwrap_or("").to_string();
                self.st.label(&format!("pool:rejected:{kind}"));
                if e.contains("Immature") {
                    self.st.label("pool:rejected-immature");
                }
            }
        }
        self.compare_pools(what)?;
        self.refresh_cached();
        Ok(())
    }

    fn deliver(&mut self, info: &BlockInfo, redelivery: bool) -> Verdict {
        let h = info.hash.clone();
        let blk = self.w.tree.get(&h).block.clone();
        self.refresh_cached();
        // cache traits of the committed transactions, peeked before the import
        let mut any_hit = false;
        let mut any_other = false;
        let mut hit_since = false;
        for tx in blk.transactions().iter().skip(1) {
            let (hit, other) = self.cache_traits(tx);
            any_hit |= hit;
            any_other |= other && !hit;
            if hit && tx.inputs().into_iter().any(|i| Into::<u64>::into(i.since()) != 0) {
                hit_since = true;
            }
        }
        let vm_now = self.w.vm_version_at_epoch(blk.epoch().number());
        let vm_stale = blk.transactions().iter().skip(1).any(|tx| {
            // does the transaction run a script that is referenced by type hash?
            let pstate = &self.w.tree.get(&self.w.tree.get(&h).parent).state;
            let is_dao = |o: &CellOutput| o.type_().to_opt().map(|t| t == self.w.env.dao_type).unwrap_or(false);
            let by_type = tx.inputs().into_iter().any(|i| {
                pstate
                    .live
                    .get(&cell_key(&i.previous_output()))
                    .map(|c| self.w.is_wc(&c.output.lock()) || is_dao(&c.output))
                    .unwrap_or(false)
            }) || tx.outputs().into_iter().any(|o| is_dao(&o));
            by_type && self.cached_under_other_vm(tx, vm_now)
        });
        let tip_before = self.w.tip.clone();
        let will_verify = !redelivery
            && self.w.tree.get(&h).td > self.w.tree.get(&tip_before).td
            && self.w.present(&self.w.tree.get(&h).parent);
        let expect_ok = self.w.deliver(&h);
        if will_verify && !expect_ok {
            let tree = &self.w.tree;
            for x in tree.path(&tip_before) {
                if !tree.is_ancestor(&x.hash, &h) {
                    for tx in x.block.transactions().iter().skip(1) {
                        for i in tx.inputs() {
                            self.tr.rolled_back_cells.insert(cell_key(&i.previous_output()));
                        }
                    }
                }
            }
            for x in tree.path(&h) {
                if !tree.is_ancestor(&x.hash, &tip_before) {
                    for tx in x.block.transactions().iter() {
                        for (j, _) in tx.outputs().into_iter().enumerate() {
                            self.tr.rolled_back_cells.insert(cell_key(&OutPoint::new(tx.hash(), j as u32)));
                        }
                    }
                }
            }
        }
        let (a, r) = self.p.deliver(&blk)?;
        if trace() {
            eprintln!(
                "op {}: block #{} {:x} epoch {} txs {} committed {:?} bad {:?} will_verify {will_verify} hit {any_hit} other {any_other} -> model ok={expect_ok} tested {:?} reference {:?}",
                self.opi,
                blk.number(),
                h,
                blk.epoch(),
                blk.transactions().len() - 1,
                info.committed,
                info.bad,
                a,
                r
            );
        }
        let path_bad: Option<String> = self
            .w
            .tree
            .path(&h)
            .iter()
            .find_map(|x| x.invalid.clone().map(|k| if x.hash == h { k } else { format!("ancestor-{k}") }));
        let cache_trait = if any_hit && any_other {
            "cached-tx+other-witness-variant-cached"
        } else if any_hit {
            "cached-tx"
        } else if any_other {
            "other-witness-variant-cached"
        } else {
            "no-cached-tx"
        };
        let render = |v: &BlockVerdict| match v {
            Ok(b) => format!("Ok({b})"),
            Err(e) => format!("Err({e})"),
        };
        if a.is_ok() != expect_ok || r.is_ok() != expect_ok {
            let who = match (a.is_ok() == expect_ok, r.is_ok() == expect_ok) {
                (false, true) => "tested-node-differs-from-reference-and-model",
                (true, false) => "reference-node-differs-from-tested-and-model",
                _ => "both-nodes-differ-from-model",
            };
            // cascades of the two cached-while-absent findings get their own signature
            let asked_absent = |q: usize, hh: &Byte32| self.tr.block_q.get(&(h32(hh), q)).map(|e| e.0).unwrap_or(false);
            if let (Err(e), Ok(_), true) = (&a, &r, expect_ok) {
                if e.contains("NoBlockExtension") && self.w.tree.path(&h).iter().any(|x| asked_absent(Q_EXTENSION, &x.hash)) {
                    vfail!(
                        SIG_EXT_NONE_VERDICT,
                        "op {}: valid block #{} {:x}: tested node {}, reference node {}; get_block_extension was asked for a block of its chain before that block was stored",
                        self.opi,
                        blk.number(),
                        h,
                        render(&a),
                        render(&r)
                    );
                }
                if (e.contains("InvalidRewardAmount") || e.contains("Cellbase")) && self.w.tree.path(&h).iter().any(|x| asked_absent(Q_TX_HASHES, &x.hash)) {
                    vfail!(
                        SIG_TXH_EMPTY_VERDICT,
                        "op {}: valid block #{} {:x}: tested node {}, reference node {}; get_block_txs_hashes was asked for a block of its chain before that block was stored",
                        self.opi,
                        blk.number(),
                        h,
                        render(&a),
                        render(&r)
                    );
                }
            }
            if vm_stale && a.is_ok() != expect_ok && r.is_ok() == expect_ok {
                vfail!(
                    SIG_VM_BLOCK,
                    "op {}: block #{} {:x} (epoch {}, VM version {vm_now} for scripts referenced by type hash, model: {:?}) commits a transaction that the tested node cached under another VM version: tested node {}, reference node {}",
                    self.opi,
                    blk.number(),
                    h,
                    blk.epoch(),
                    path_bad,
                    render(&a),
                    render(&r)
                );
            }
            vfail!(
                format!(
                    "block-verdict:{who}:model-{}:{}:{cache_trait}{}",
                    if expect_ok { "accepts" } else { "rejects" },
                    path_bad.clone().unwrap_or_else(|| "valid-chain".into()),
                    if redelivery { ":redelivery" } else { "" }
                ),
                "op {}: block #{} {:x} (parent #{}, {} txs, model: {:?}, verified on arrival: {will_verify}): tested node {}, reference node {}",
                self.opi,
                blk.number(),
                h,
                blk.number() - 1,
                blk.transactions().len() - 1,
                path_bad,
                render(&a),
                render(&r)
            );
        }
        if let (Ok(x), Ok(y)) = (&a, &r) {
            if x != y {
                vfail!(
                    format!("block-verdict:ok-flag-differs:{cache_trait}"),
                    "op {}: block #{} {:x}: tested node Ok({x}), reference node Ok({y})",
                    self.opi,
                    blk.number(),
                    h
                );
            }
        }
        if let (Err(x), Err(y)) = (&a, &r) {
            if x != y {
                self.st.label("note:error-text-differs");
            }
        }
        // labels
        if !redelivery {
            self.st.label(match (&info.bad, expect_ok, will_verify) {
                (None, true, true) => "block:valid-new-tip",
                (None, true, false) => "block:valid-side",
                (Some(_), true, _) => "block:invalid-stored-unverified",
                (Some(_), false, _) => "block:invalid-rejected",
                (None, false, _) => "block:valid-on-invalid-ancestor-rejected",
            });
            if let Some(k) = &info.bad {
                if !expect_ok {
                    self.st.label(&format!("rejected:{k}"));
                }
            }
            if will_verify && self.w.tip == h && !self.w.tree.is_ancestor(&tip_before, &h) {
                self.st.label("block:reorg");
            }
            if will_verify {
                if any_hit {
                    self.tr.hits_ctx_changed += 1;
                    self.st.label("block:cache-hit-on-block-path");
                    if hit_since {
                        self.st.label("block:cache-hit-since-tx");
                    }
                    let bad_cached = info
                        .bad_tx
                        .and_then(|i| blk.transactions().get(i + 1).map(|tx| self.cache_traits(tx).0))
                        .unwrap_or(false);
                    if bad_cached && matches!(info.bad.as_deref(), Some("immature-since") | Some("immature-cellbase")) {
                        self.st.label("block:cached-tx-immature-at-commit");
                    }
                    if info.bad.as_deref() == Some("script:vm-version") {
                        self.st.label("block:cache-hit-but-other-vm-version");
                    }
                }
                if any_other {
                    self.st.label("block:other-witness-variant-cached");
                    if info.bad.as_deref().map(|b| b.starts_with("script:")).unwrap_or(false) {
                        self.st.label("block:bad-witness-while-good-variant-cached");
                    }
                }
            }
            if info.committed.iter().any(|(_, alt)| *alt) {
                self.st.label("block:commits-other-witness-variant");
            }
        } else {
            self.st.label(if expect_ok { "redelivery:stored" } else { "redelivery:rejected" });
        }
        // BlockExt
        let ea = block_query(self.p.t.shared.store(), &h, Q_BLOCK_EXT);
        let er = block_query(self.p.r.shared.store(), &h, Q_BLOCK_EXT);
        if ea != er {
            vfail!(
                if vm_stale { SIG_VM_EXT.to_string() } else { format!("block-ext:differs:{cache_trait}") },
                "op {}: BlockExt of block #{} {:x}: tested node {ea}; reference node {er}",
                self.opi,
                blk.number(),
                h
            );
        }
        if self.w.present(&h) {
            let ext = self.p.r.shared.store().get_block_ext(&h);
            let mb = self.w.tree.get(&h);
            let verified_model = match self.w.stat.get(&h32(&h)) {
                Some(BStat::Stored { verified: true }) => Some(true),
                _ => None,
            };
            let ok = match &ext {
                Some(e) => {
                    e.verified == verified_model
                        && e.total_difficulty == mb.td
                        && e.total_uncles_count == mb.total_uncles
                        && (verified_model.is_none()
                            || e.txs_fees.iter().map(|c| c.as_u64()).collect::<Vec<_>>() == mb.txs_fees)
                }
                None => false,
            };
            if !ok {
                vfail!(
                    "block-ext:differs-from-model",
                    "op {}: BlockExt of block #{} {:x}: nodes {er}; model verified={:?} td={:#x} uncles={} fees={:?}",
                    self.opi,
                    blk.number(),
                    h,
                    verified_model,
                    mb.td,
                    mb.total_uncles,
                    mb.txs_fees
                );
            }
        }
        self.compare_pools("after block")?;
        self.refresh_cached();
        Ok(())
    }

    fn block_targets(&self) -> Vec<Byte32> {
        let mut v: Vec<Byte32> = vec![self.w.tree.genesis.clone()];
        v.extend(self.w.blocks.iter().filter(|h| self.w.stat.contains_key(&h32(h))).cloned());
        v.push(Byte32::from_slice(&[0xa5; 32]).unwrap());
        v
    }

    fn apply(&mut self, op: &Op) -> Verdict {
        match op {
            Op::Tx(t) => {
                if let Some(idx) = self.w.new_tx(t) {
                    self.st.label("tx:created");
                    if self.w.txs[idx].since != 0 {
                        self.st.label("tx:with-since");
                    }
                    if self.w.txs[idx].wc_input {
                        self.st.label("tx:spends-witness-checking-lock");
                    }
                    if t.submit {
                        let tx = self.w.txs[idx].tx.clone();
                        self.submit(idx, &tx, "submit new tx")?;
                    }
                }
            }
            Op::Resubmit { sel, witness } => {
                if !self.w.txs.is_empty() {
                    let idx = pick_idx(*sel as u32, self.w.txs.len());
                    let tx = with_witnesses(&self.w.txs[idx].tx, *witness);
                    self.st.label("tx:resubmit");
                    self.submit(idx, &tx, "resubmit")?;
                }
            }
            Op::Block(b) => {
                if let Some(info) = self.w.new_block(b) {
                    let h = info.hash.clone();
                    if b.prequery != 0 {
                        self.battery(&h, b.prequery, b.pre_snapshot, false, "before arrival")?;
                    }
                    self.deliver(&info, false)?;
                    if b.postquery != 0 {
                        self.battery(&h, b.postquery, b.pre_snapshot, true, "after arrival")?;
                    }
                }
            }
            Op::SinceFork { tx, back, mature, ts, witness_alt } => {
                let closest = self.w.tree.window().0;
                let tipn = self.w.tree.get(&self.w.tip).number;
                let room = tipn.saturating_sub(self.w.base_number).min(closest);
                if room == 0 {
                    self.st.label("since-fork:no-room");
                    return Ok(());
                }
                let back_eff = 1 + (*back as u64) % room;
                let mut t = tx.clone();
                t.submit = true;
                t.conflict = false;
                if t.since == 0 || t.since == 3 || t.since == 4 {
                    t.since = 1 + (*back % 2);
                }
                t.since_delta = if *mature { -(back_eff as i8) } else { 0 };
                let idx = match self.w.new_tx(&t) {
                    Some(i) => i,
                    None => return Ok(()),
                };
                self.st.label("since-fork:started");
                let txv = self.w.txs[idx].tx.clone();
                self.submit(idx, &txv, "since-fork submit")?;
                let mut parent = self.w.tree.ancestor(&self.w.tip, tipn - back_eff).unwrap().hash.clone();
                for i in 0..=closest {
                    let b = BlockOp {
                        parent_mode: 0,
                        parent: 0,
                        ts: ts.wrapping_add(i as u8) % 6,
                        propose_mask: if i == 0 { 1 } else { 0 },
                        commit_mask: if i == closest { 1 } else { 0 },
                        witness_alt: if *witness_alt { 0xffff } else { 0 },
                        witness_sel: *back,
                        allow_bad: true,
                        invalid: 0,
                        uncle: 0,
                        miner: (*back + i as u8) % 4,
                        ext_extra: 0,
                        prequery: 0,
                        pre_snapshot: false,
                        postquery: 0,
                    };
                    let info = match self.w.new_block_on(&b, Some(parent.clone()), Some(idx)) {
                        Some(x) => x,
                        None => return Ok(()),
                    };
                    parent = info.hash.clone();
                    let last = i == closest;
                    if last {
                        self.st.label(match (&info.bad, info.committed.is_empty()) {
                            (_, true) => "since-fork:tx-not-committable",
                            (None, false) => "since-fork:committed-mature",
                            (Some(_), false) => "since-fork:committed-immature",
                        });
                    }
                    self.deliver(&info, false)?;
                    if !self.w.present(&parent) {
                        break;
                    }
                }
            }
            Op::RelSinceReorg { tx0, tx, ts, submit_first } => {
                let c = self.w.tree.window().0;
                let fork = self.w.tip.clone();
                let mk = |i: u64, propose: bool, commit: bool| BlockOp {
                    parent_mode: 0,
                    parent: 0,
                    ts: ts.wrapping_add(i as u8) % 4,
                    propose_mask: propose as u16,
                    commit_mask: commit as u16,
                    witness_alt: 0,
                    witness_sel: 0,
                    allow_bad: false,
                    invalid: 0,
                    uncle: 0,
                    miner: (i % 4) as u8,
                    ext_extra: 0,
                    prequery: 0,
                    pre_snapshot: false,
                    postquery: 0,
                };
                // T0 on the tip
                let mut t0 = tx0.clone();
                t0.since = 0;
                t0.out_lock %= 4;
                t0.conflict = false;
                t0.outputs = 1;
                let i0 = match self.w.new_tx(&t0) {
                    Some(i) => i,
                    None => return Ok(()),
                };
                self.st.label("rel-reorg:started");
                // chain X: propose T0, commit it c blocks later
                let mut seq = 0u64;
                for i in 0..=c {
                    let tipx = self.w.tip.clone();
                    let info = match self.w.new_block_on(&mk(seq, i == 0, i == c), Some(tipx), Some(i0)) {
                        Some(x) => x,
                        None => return Ok(()),
                    };
                    seq += 1;
                    self.deliver(&info, false)?;
                }
                let cell = (h32(&self.w.txs[i0].tx.hash()), 0u32);
                if !self.w.tree.get(&self.w.tip).state.live.contains_key(&cell) {
                    self.st.label("rel-reorg:t0-not-committed");
                    return Ok(());
                }
                // T: relative since c + 2 blocks after T0's block
                let mut t = tx.clone();
                t.conflict = false;
                let it = match self.w.new_tx_ex(&t, Some((cell, SINCE_REL | (c + 2)))) {
                    Some(i) => i,
                    None => return Ok(()),
                };
                let txv = self.w.txs[it].tx.clone();
                if *submit_first {
                    // too early for the pool: both nodes must refuse it
                    self.submit(it, &txv, "rel-reorg early submit")?;
                }
                // X: one idle block, propose T, ..., commit T exactly when it matures
                for i in 0..=(c + 1) {
                    let tipx = self.w.tip.clone();
                    let info = match self.w.new_block_on(&mk(seq, i == 1, i == c + 1), Some(tipx), Some(it)) {
                        Some(x) => x,
                        None => return Ok(()),
                    };
                    seq += 1;
                    let committed = !info.committed.is_empty();
                    self.deliver(&info, false)?;
                    if i == c + 1 && !committed {
                        self.st.label("rel-reorg:t-not-committed-on-x");
                        return Ok(());
                    }
                }
                // chain Y from the fork point: one block higher than X, T0 committed in its tip
                let xn = self.w.tree.get(&self.w.tip).number;
                let fn_ = self.w.tree.get(&fork).number;
                let n = xn + 1;
                let mut parent = fork.clone();
                for hgt in (fn_ + 1)..=n {
                    let info = match self.w.new_block_on(&mk(seq + 100, hgt == n - c, hgt == n), Some(parent.clone()), Some(i0)) {
                        Some(x) => x,
                        None => return Ok(()),
                    };
                    seq += 1;
                    parent = info.hash.clone();
                    self.deliver(&info, false)?;
                    if !self.w.present(&parent) {
                        return Ok(());
                    }
                }
                if self.w.tip != parent {
                    self.st.label("rel-reorg:y-did-not-overtake");
                    return Ok(());
                }
                self.st.label("rel-reorg:reorged");
                // T was detached; on Y its input is younger: the pool must refuse it now
                self.submit(it, &txv, "rel-reorg resubmit after reorg")?;
            }
            Op::Dao { sel, lock_a, lock_b, submit, ts } => {
                let c = self.w.tree.window().0;
                let mk = |i: u64, propose: bool, commit: bool| BlockOp {
                    parent_mode: 0,
                    parent: 0,
                    ts: ts.wrapping_add(i as u8) % 4,
                    propose_mask: propose as u16,
                    commit_mask: commit as u16,
                    witness_alt: 0,
                    witness_sel: 0,
                    allow_bad: true,
                    invalid: 0,
                    uncle: 0,
                    miner: (i % 4) as u8,
                    ext_extra: 0,
                    prequery: 0,
                    pre_snapshot: false,
                    postquery: 0,
                };
                if self.k.vm_change && self.w.fork_epoch > 0 && self.w.tree.get(&self.w.tip).block.epoch().number() < self.w.fork_epoch + 1 {
                    self.st.label("excluded-known:dao-transaction-before-vm-version-change");
                    return Ok(());
                }
                let d = match self.w.new_dao_deposit(*sel, *lock_a) {
                    Some(i) => i,
                    None => return Ok(()),
                };
                self.st.label("dao:deposit-created");
                let dtx = self.w.txs[d].tx.clone();
                if *submit {
                    self.submit(d, &dtx, "dao deposit submit")?;
                }
                for i in 0..=c {
                    let tip = self.w.tip.clone();
                    let info = match self.w.new_block_on(&mk(i, i == 0, i == c), Some(tip), Some(d)) {
                        Some(x) => x,
                        None => return Ok(()),
                    };
                    self.deliver(&info, false)?;
                }
                let wi = match self.w.new_dao_withdraw(d, sel.wrapping_mul(31), *lock_b) {
                    Some(i) => i,
                    None => return Ok(()),
                };
                let wtx = self.w.txs[wi].tx.clone();
                if *submit {
                    self.submit(wi, &wtx, "dao withdraw submit")?;
                }
                for i in 0..=c {
                    let tip = self.w.tip.clone();
                    let info = match self.w.new_block_on(&mk(10 + i, i == 0, i == c), Some(tip), Some(wi)) {
                        Some(x) => x,
                        None => return Ok(()),
                    };
                    if i == c && !info.committed.is_empty() {
                        self.st.label(if info.bad.is_some() { "dao:withdraw-committed-invalid" } else { "dao:withdraw-committed-valid" });
                    }
                    self.deliver(&info, false)?;
                    if !self.w.present(&info.hash) {
                        break;
                    }
                }
            }
            Op::Redeliver { sel } => {
                let delivered: Vec<Byte32> = self
                    .w
                    .blocks
                    .iter()
                    .filter(|h| self.w.stat.contains_key(&h32(h)) && self.w.tree.get(h).invalid.as_deref() != Some("bad-tx-root"))
                    .cloned()
                    .collect();
                if !delivered.is_empty() {
                    let h = delivered[pick_idx(*sel as u32, delivered.len())].clone();
                    let info = BlockInfo {
                        hash: h,
                        bad: None,
                        bad_tx: None,
                        committed: vec![],
                    };
                    self.deliver(&info, true)?;
                }
            }
            Op::Query { target, mask, snapshot, rev } => {
                let ts = self.block_targets();
                let h = ts[pick_idx(*target as u32, ts.len())].clone();
                self.battery(&h, *mask, *snapshot, *rev, "query")?;
            }
            Op::CellQuery { sel, snapshot } => {
                let n = self.w.cells.len();
                let op = if *sel == u16::MAX || n == 0 {
                    OutPoint::new(Byte32::from_slice(&[0x5a; 32]).unwrap(), 0)
                } else {
                    self.w.cells[pick_idx(*sel as u32, n)].clone()
                };
                self.cell_battery_sel(&op, *snapshot, *sel % 3 == 0, "cell query")?;
            }
            Op::TxQuery { sel, snapshot } => {
                if !self.w.txs.is_empty() {
                    let idx = pick_idx(*sel as u32, self.w.txs.len());
                    let h = self.w.txs[idx].tx.hash();
                    self.tx_battery(&h, *snapshot, "tx query")?;
                }
            }
        }
        Ok(())
    }

    fn sweep(&mut self) -> Verdict {
        self.opi = usize::MAX;
        let full = (1u16 << Q_NAMES.len()) - 1;
        for h in self.block_targets() {
            self.battery(&h, full, false, false, "final sweep")?;
            self.battery(&h, full, true, true, "final sweep")?;
        }
        let txs: Vec<Byte32> = self.w.txs.iter().map(|k| k.tx.hash()).collect();
        for h in txs {
            self.tx_battery(&h, false, "final sweep")?;
        }
        let n = self.w.cells.len();
        let step = (n / 48).max(1);
        let cells: Vec<OutPoint> = self.w.cells.iter().step_by(step).cloned().collect();
        for c in cells {
            self.cell_battery(&c, false, "final sweep")?;
        }
        Ok(())
    }
}

fn prop(case: &Case, st: &mut Stats, k: Known) -> Verdict {
    install_panic_recorder();
    clear_panics();
    let v = variant(case.variant);
    let env = build_env_c14(&v);
    let (mut w, prefix) = World::new(env.clone(), v.fork_epoch).map_err(|e| Violation::new("harness:world-setup", e))?;
    w.exclude_vm_change = k.vm_change;
    let p = Pair::start(&env, case)?;
    st.label(&format!("cfg:variant-{}", case.variant % 4));
    st.label(match case.t_cfg % 4 {
        0 | 1 => "cfg:tested-default-caches",
        2 => "cfg:tested-store-caches-size-1",
        _ => "cfg:tested-all-caches-size-2",
    });
    if case.sys_cell {
        st.label("cfg:system-cell-cache-installed");
    }
    let mut run = Run {
        w,
        p,
        k,
        tr: Track::default(),
        st,
        opi: 0,
    };
    for h in prefix {
        let info = BlockInfo {
            hash: h,
            bad: None,
            bad_tx: None,
            committed: vec![],
        };
        run.deliver(&info, false).map_err(|mut v| {
            if !v.signature.starts_with("harness:") {
                v.detail = format!("[set-up prefix] {}", v.detail);
            }
            v
        })?;
    }
    for (i, op) in case.ops.iter().enumerate() {
        run.opi = i;
        run.apply(op)?;
    }
    run.sweep()?;
    node_panic_violation()?;
    for (l, n) in run.w.labels.clone() {
        run.st.label_n(&l, n);
    }
    let nontrivial = run.tr.hits_ctx_changed > 0 || run.tr.query_across > 0;
    if run.tr.hits_ctx_changed > 0 {
        run.st.label("case:verification-cache-hit-at-another-position");
    }
    if run.tr.query_across > 0 {
        run.st.label("case:query-repeated-across-insert-or-delete");
    }
    if nontrivial {
        run.st.nontrivial(case);
        if run.st.want_sample() {
            let w = &run.w;
            let tr = &run.tr;
            run.st.sample(|| {
                json!({
                    "variant": case.variant % 4, "t_cfg": case.t_cfg % 4, "sys_cell": case.sys_cell, "ops": case.ops.len(),
                    "blocks": w.blocks.iter().map(|h| { let b = w.tree.get(h); json!({"n": b.number, "txs": b.block.transactions().len() - 1, "invalid": b.invalid, "stat": format!("{:?}", w.stat.get(&h32(h)))}) }).collect::<Vec<_>>(),
                    "txs": w.txs.len(), "tip": w.tree.get(&w.tip).number,
                    "cache_hits_at_another_position": tr.hits_ctx_changed, "queries_across_insert_or_delete": tr.query_across,
                })
            });
        }
    }
    let Run { p, .. } = run;
    p.t.stop();
    p.r.stop();
    Ok(())
}

// ------------------------------------------------------------------------------------------------
// second family: assume-valid window
//
// A node configured with `assume_valid_targets` verifies every block with `Switch::DISABLE_SCRIPT`
// until the last target has been verified (ConsumeUnverifiedBlockProcessor::verify_block), then
// fully.  Both nodes get the same configuration (the targets are set through the public
// `Shared::assume_valid_targets()` handle that SharedBuilder fills from the sync config; reaching the
// target is emulated by clearing it, which is what verify_block does at that moment); only the
// caches differ.  Blocks verified after the window must get the same verdict and the same recorded
// cycles on both nodes, whatever was seen inside the window.

#[derive(Clone, Debug, Serialize, Deserialize)]
pub struct AvCase {
    pub variant: u8,
    pub t_cfg: u8,
    pub plan: crate::plan::TreePlan,
    /// number of leading deliveries (creation order) made while the targets are pending
    pub window: u16,
    /// bit i: the transactions of delivery i (mod 16) are first submitted to both pools (full
    /// verification on the pool path: the warm node caches the result)
    #[serde(default)]
    pub submit_mask: u16,
}

fn av_case_strategy() -> impl Strategy<Value = AvCase> {
    let p = crate::plan::PlanParams {
        min_blocks: 8,
        max_blocks: 30,
        fork_pct: 40,
        tx_rate: 60,
        invalid_pct: 0,
        uncle_pct: 5,
        dao_pct: 0,
    };
    (
        0u8..4,
        0u8..4,
        crate::plan::tree_plan_strategy(p),
        any::<u16>(),
        prop_oneof![2 => Just(0u16), 1 => any::<u16>()],
    )
        .prop_map(|(variant, t_cfg, plan, window, submit_mask)| AvCase { variant, t_cfg, plan, window, submit_mask })
}

fn av_prop(case: &AvCase, st: &mut Stats) -> Verdict {
    install_panic_recorder();
    clear_panics();
    let cfg = crate::checks::c01::variant_cfg(case.variant % 4);
    let env = build_env(&cfg);
    let built = crate::plan::Interp::new(&env).run(&case.plan);
    let n = built.blocks.len();
    if n < 3 {
        return Ok(());
    }
    let tree = &built.tree;
    let pair = Pair::start(&env, &Case { variant: 0, t_cfg: case.t_cfg, sys_cell: false, ops: vec![] })?;
    // deliveries (creation order) at which the model's heaviest chain switches to a branch that
    // commits again a transaction the old main chain had committed: the window preferably closes
    // right there, so that the branch is verified in full right after the window
    let mut interesting: Vec<usize> = vec![];
    {
        let mut best = tree.genesis.clone();
        for (i, h) in built.blocks.iter().enumerate() {
            let b = tree.get(h);
            if b.td > tree.get(&best).td {
                if b.parent != best && i > 0 {
                    let old: BTreeSet<[u8; 32]> = tree
                        .path(&best)
                        .iter()
                        .flat_map(|x| x.block.transactions().into_iter().skip(1).map(|t| h32(&t.witness_hash())))
                        .collect();
                    let again = tree.path(h).iter().any(|x| {
                        !tree.is_ancestor(&x.hash, &best)
                            && x.block.transactions().iter().skip(1).any(|t| old.contains(&h32(&t.witness_hash())))
                    });
                    if again {
                        interesting.push(i);
                    }
                }
                best = h.clone();
            }
        }
    }
    let k = if !interesting.is_empty() && case.window % 4 != 0 {
        interesting[pick_idx((case.window / 4) as u32 * 4, interesting.len())]
    } else {
        1 + pick_idx(case.window as u32, n - 1)
    };
    let pending = ckb_types::H256([0xa5; 32]);
    for node in [&pair.t, &pair.r] {
        *node.shared.assume_valid_targets() = Some(vec![pending.clone()]);
    }
    // wtx hash -> committed inside the window
    let mut in_window: BTreeSet<[u8; 32]> = BTreeSet::new();
    let mut recommitted_after = 0u64;
    let mut verified_in_window: BTreeSet<[u8; 32]> = BTreeSet::new();
    let mut counted: BTreeSet<[u8; 32]> = BTreeSet::new();
    let mut reverified_after = 0u64;
    let mut pool_then_window = 0u64;
    for (i, h) in built.blocks.iter().enumerate() {
        if i == k {
            for node in [&pair.t, &pair.r] {
                node.shared.assume_valid_targets().take();
            }
        }
        let b = tree.get(h);
        for tx in b.block.transactions().iter().skip(1) {
            let w = h32(&tx.witness_hash());
            if i < k {
                in_window.insert(w);
            } else if in_window.contains(&w) {
                recommitted_after += 1;
            }
        }
        if case.submit_mask >> (i % 16) & 1 == 1 && std::env::var_os("C14_AV_NOSUBMIT").is_none() {
            for tx in b.block.transactions().iter().skip(1) {
                let ra = pair.t.shared.tx_pool_controller().submit_local_tx(tx.clone());
                let rb = pair.r.shared.tx_pool_controller().submit_local_tx(tx.clone());
                if let (Ok(Ok(_)), Ok(Ok(_))) = (&ra, &rb) {
                    st.label("assume-valid:tx-verified-by-the-pool-before-its-block");
                    if i < k {
                        pool_then_window += 1;
                    }
                }
            }
        }
        let (a, c) = pair.deliver(&b.block)?;
        if std::env::var_os("C14_AV_TRACE").is_some() {
            use std::io::Write;
            let mut f = std::fs::OpenOptions::new().create(true).append(true).open("/dev/shm/av.trace").unwrap();
            let _ = writeln!(f, "av-deliver: k={k} i={i} #{} invalid={:?} T {:?} R {:?}", b.number, b.invalid, a, c);
        }
        if i < k {
            // everything on the (then) main chain has been through BlockTxsVerifier without scripts
            let snap = pair.t.shared.snapshot();
            for x in tree.path(&snap.tip_hash()) {
                for tx in x.block.transactions().iter().skip(1) {
                    verified_in_window.insert(h32(&tx.witness_hash()));
                }
            }
        } else if a.is_ok() {
            let snap = pair.t.shared.snapshot();
            for x in tree.path(&snap.tip_hash()) {
                let xi = built.blocks.iter().position(|y| y == &x.hash).unwrap_or(0);
                if xi >= k && xi <= i && !counted.contains(&h32(&x.hash)) {
                    counted.insert(h32(&x.hash));
                    for tx in x.block.transactions().iter().skip(1) {
                        if verified_in_window.contains(&h32(&tx.witness_hash())) {
                            reverified_after += 1;
                        }
                    }
                }
            }
        }
        if a.is_ok() != c.is_ok() {
            vfail!(
                "assume-valid:block-verdict-differs",
                "delivery {i} (#{}, {} the assume-valid window of {k} deliveries): node with caches {:?}, node without caches {:?}",
                b.number,
                if i < k { "inside" } else { "after" },
                a,
                c
            );
        }
    }
    let (ts, rs) = (pair.t.shared.snapshot(), pair.r.shared.snapshot());
    if ts.tip_hash() != rs.tip_hash() {
        vfail!("assume-valid:tip-differs", "tips differ: #{} vs #{}", ts.tip_number(), rs.tip_number());
    }
    for h in &built.blocks {
        let (ea, eb) = (ts.get_block_ext(h), rs.get_block_ext(h));
        let strip = |e: &Option<ckb_types::core::BlockExt>| e.as_ref().map(|e| (e.verified, e.txs_fees.clone(), e.cycles.clone(), e.txs_sizes.clone()));
        if std::env::var_os("C14_AV_TRACE").is_some() {
            use std::io::Write;
            let mut f = std::fs::OpenOptions::new().create(true).append(true).open("/dev/shm/av.trace").unwrap();
            let _ = writeln!(f, "av: k={k} block #{} idx {:?} txs {} T {:?} R {:?}", tree.get(h).number, built.blocks.iter().position(|x| x == h), tree.get(h).block.transactions().len() - 1, strip(&ea).map(|x| (x.0, x.2)), strip(&eb).map(|x| (x.0, x.2)));
        }
        if strip(&ea) != strip(&eb) {
            let b = tree.get(h);
            let zero = |e: &Option<ckb_types::core::BlockExt>| e.as_ref().and_then(|e| e.cycles.clone()).map(|c| c.iter().any(|x| *x == 0)).unwrap_or(false);
            vfail!(
                match (zero(&ea), zero(&eb)) {
                    (true, false) => "assume-valid:block-ext-cycles:warm-node-records-zero-cycles:script-skipped-result-reused",
                    (false, true) => "assume-valid:block-ext-cycles:warm-node-records-cached-cycles-for-script-skipped-block",
                    _ => "assume-valid:block-ext-differs",
                },
                "block #{} ({} transactions): ext with caches {:?}, without caches {:?}",
                b.number,
                b.block.transactions().len() - 1,
                strip(&ea),
                strip(&eb)
            );
        }
    }
    node_panic_violation()?;
    st.label_n("assume-valid:tx-committed-in-window-and-again-after-it", recommitted_after);
    st.label_n("assume-valid:tx-verified-in-window-and-verified-again-after-it", reverified_after);
    st.label_n("assume-valid:tx-verified-by-the-pool-then-committed-inside-the-window", pool_then_window);
    if reverified_after > 0 || pool_then_window > 0 {
        st.nontrivial(&serde_json::to_string(case).unwrap_or_default());
        if st.want_sample() {
            st.sample(|| json!({"family": "assume-valid-window", "variant": case.variant % 4, "t_cfg": case.t_cfg % 4, "blocks": n, "window": k, "recommitted_after_window": recommitted_after}));
        }
    }
    let Pair { t, r } = pair;
    t.stop();
    r.stop();
    Ok(())
}

fn run(ctx: &Ctx) {
    if super::c14_syscell::is_server() {
        // helper process of the `system-cell-cache` sub-check (evaluates cases with the cache installed)
        super::c14_syscell::serve();
        return;
    }
    ctx.shrink_iters.set(120);
    // development aid: VERIF_ONLY_SUB=<sub name> runs one sub-check only
    let only = std::env::var("VERIF_ONLY_SUB").ok();
    let want = |sub: &str| only.as_deref().map(|o| o == sub).unwrap_or(true);
    // first: the cache is a OnceLock and this sub-check needs a process that has not installed it yet
    if want(super::c14_syscell::SUB) {
        super::c14_syscell::run(ctx);
    }
    if only.is_some() && !want("paired-history") {
        return;
    }
    let k = Known::from_ctx(ctx);
    // workers 3 and 7 (of 8) run with the process-global SYSTEM_CELL cache installed, on one
    // genesis each
    let pinned = if ctx.nworkers >= 4 && ctx.worker % 4 == 3 { Some(if ctx.worker % 8 == 3 { 0u8 } else { 3u8 }) } else { None };
    let cases = ctx.cases(640, 9600);
    let max_ops = ctx.tier.pick(48, 90);
    ctx.run_prop("paired-history", cases, case_strategy(max_ops, pinned), move |c, st| prop(c, st, k));
    if pinned.is_none() {
        // (the SYSTEM_CELL cache of the pinned workers belongs to another genesis)
        let cases = ctx.cases(320, 4800);
        ctx.run_prop("assume-valid-window", cases, av_case_strategy(), av_prop);
    }
}

fn replay(ctx: &Ctx, sub: &str, v: &Value) -> Verdict {
    if sub == super::c14_syscell::SUB {
        return super::c14_syscell::replay(ctx, v);
    }
    if sub == "assume-valid-window" {
        let c: AvCase = from_case(v)?;
        let mut st = ctx.stats.borrow_mut();
        return av_prop(&c, &mut st);
    }
    let mut c: Case = from_case(v)?;
    let k = Known::from_ctx(ctx);
    let mut st = ctx.stats.borrow_mut();
    let first = prop(&c, &mut st, k);
    // development aid: C14_MINIMIZE=<out file> greedily drops operations while the signature stays
    if let (Some(out), Err(v0)) = (std::env::var_os("C14_MINIMIZE"), &first) {
        let mut i = c.ops.len();
        while i > 0 {
            i -= 1;
            let mut d = c.clone();
            d.ops.remove(i);
            if matches!(prop(&d, &mut st, k), Err(v) if v.signature == v0.signature) {
                c = d;
            }
        }
        let body = json!({"property": "C14", "sub": "paired-history", "signature": v0.signature, "detail": v0.detail, "case": c});
        let _ = std::fs::write(out, serde_json::to_vec_pretty(&body).unwrap());
    }
    first
}
