//! C08 — a crash at any point of block import recovers to a consistent, convergent state.
//!
//! One case = one history (block-tree plan + delivery schedule).  The worker never runs a node
//! itself: every node lifetime is a child process (`vcheck` re-executed with `VERIF_C08_JOB`):
//!   * `run` phase: start a node on a persistent directory, deliver the history; with
//!     `VERIF_COMMIT_LOG` it enumerates the database commits (dry run = the never-crashed
//!     reference), with `VERIF_CRASH_AT=<n>:<before|after>` it dies by abort() at that commit;
//!   * `recover` phase: look at the directory read-only (state "at open"), start a node on it,
//!     wait for InitLoadUnverified + quiescence (stage R), deliver the blocks that were not stored
//!     (stage S1), re-offer every block once more (stage S2); dump + compare with the reference
//!     model after every stage.
//! The worker enumerates every commit of the history x {before, after}, judges every recovery
//! against the model (RefModel, `model.rs`) and the never-crashed run.
use crate::common::*;
use crate::model::*;
use crate::node::*;
use crate::plan::*;
use crate::vfail;
use ckb_db::IteratorMode;
use ckb_db_schema::*;
use ckb_store::ChainStore;
use ckb_types::{U256, core::BlockExt, packed, prelude::*};
use proptest::prelude::*;
use serde::{Deserialize, Serialize};
use serde_json::{Value, json};
use std::collections::{BTreeMap, BTreeSet};
use std::io::Write;
use std::path::{Path, PathBuf};
use std::process::{Command, Stdio};
use std::sync::mpsc;
use std::time::{Duration, Instant};

const ENV_JOB: &str = "VERIF_C08_JOB";
const ABORT_MARKER: &str = "verif-hooks: VERIF_CRASH_AT";

pub fn spec() -> CheckSpec {
    CheckSpec {
        id: "C08",
        level: "fault_enumeration",
        rule: "proptest: block-tree plans (forks, uneven difficulty, uncles, proposals/commits, contextually and structurally invalid blocks) built by the reference model and delivered (out of order, in bursts, no duplicates) to a real node on a persistent directory in a child process; a dry run logs every database commit of the history (ckb-db hook); then for EVERY commit index after the anchor block x {before, after} (all of them unless a label history:capped:* says otherwise: then every `before` point plus a window of the `after` points) a child is killed by abort() at exactly that point, a second child reopens the directory, waits for InitLoadUnverified and a FIFO barrier, and the state is judged after recovery, after the not-yet-stored blocks are delivered, and after every block is re-offered: reopen succeeds, no node thread panics, store = model replay of the recovered tip (tip header, number<->hash index, epoch ext, full scans of the cell / cell-data / tx-info / uncle columns, block ext on the main chain), no verified work lost, every connectable stored-but-unverified block got an ext or was deleted without being re-delivered, TD = best fully valid stored chain, and tip/TD/columns converge to the never-crashed run (equal-TD ties allowed). One evaluation = (history, crash point); non-trivial = at reopen a stored block has no ext yet (crash between the insert of a block and its verification commit) or the crash is at the verification commit of a reorg detaching >= 2 blocks; distinct by hash of (history, commit index, phase). Plus a directed family for DESIGN section 4 item 13 (tip at N, lighter side block at N+1, its child at N+2) and repeated crashes (a second abort at an enumerated commit of the recovery).",
        assumptions: &[
            "crash model = process death (abort()): everything handed to the OS survives; torn WAL writes / power loss are RocksDB's contract",
            "inside a delivery burst the interleaving of the chain-service insert commits with the verify-thread commits is whatever the OS schedules: the commit index is enumerated exhaustively, which commit carries that index may differ from the dry run (the state found at reopen is what is classified and judged)",
            "header-level checks are the sender's job for asynchronously delivered blocks: header-invalid blocks of a plan are not delivered",
            "the statement's clause 'stored but not yet verified blocks are picked up' is applied to connectable blocks (all ancestors stored); a stored orphan can only be verified once its parent arrives",
        ],
        workers: |_| 8,
        watchdog_s: |t| t.pick(1800, 7200),
        run,
        replay,
    }
}

// ------------------------------------------------------------------------------------------
// case
// ------------------------------------------------------------------------------------------

#[derive(Clone, Debug, Serialize, Deserialize)]
pub struct Sched {
    /// 0 creation order, 1 local shuffle, 2 random, 3 deepest first
    pub mode: u8,
    pub jitter: Vec<u16>,
    /// burst lengths (a quiescent point follows every burst)
    pub bursts: Vec<u8>,
}

#[derive(Clone, Debug, Serialize, Deserialize)]
pub struct Case {
    pub variant: u8,
    pub plan: TreePlan,
    pub sched: Sched,
    /// repeated crashes: every `recrash_every`-th crash point (offset `recrash_off`) is followed by
    /// a second crash during recovery at the commit selected by `recrash_sel`
    pub recrash_off: u8,
    pub recrash_sel: Vec<u16>,
    /// where the cap starts when the history has more crash points than the tier evaluates
    pub cap_off: u16,
    /// committed regression replays: evaluate only these crash points (commit index, before?);
    /// empty (always, for generated cases) = the whole enumeration
    #[serde(default)]
    pub only: Vec<(u64, bool)>,
}

fn sched_strategy(n: usize) -> impl Strategy<Value = Sched> {
    (
        prop_oneof![3 => Just(0u8), 3 => Just(1u8), 2 => Just(2u8), 2 => Just(3u8)],
        proptest::collection::vec(any::<u16>(), n),
        prop_oneof![
            3 => Just(vec![1u8]),
            2 => proptest::collection::vec(1u8..=4, 1..5),
            1 => proptest::collection::vec(2u8..=8, 1..4),
        ],
    )
        .prop_map(|(mode, jitter, bursts)| Sched { mode, jitter, bursts })
}

pub fn case_strategy(min_blocks: usize, max_blocks: usize) -> impl Strategy<Value = Case> {
    let p = PlanParams {
        min_blocks,
        max_blocks,
        fork_pct: 50,
        tx_rate: 30,
        invalid_pct: 12,
        uncle_pct: 20,
        dao_pct: 0,
    };
    (
        0u8..4,
        tree_plan_strategy(p),
        sched_strategy(max_blocks + 2),
        any::<u8>(),
        proptest::collection::vec(any::<u16>(), 4),
        any::<u16>(),
    )
        .prop_map(|(variant, plan, sched, recrash_off, recrash_sel, cap_off)| Case {
            variant,
            plan,
            sched,
            recrash_off,
            recrash_sel,
            cap_off,
            only: vec![],
        })
}

/// selector that makes `pick_idx(sel, len) == j`
fn sel_for(j: usize, len: usize) -> u16 {
    ((((j as u64) << 16) + len as u64 - 1) / len as u64).min(65535) as u16
}

fn plain_step(parent_mode: u8, parent: u16, ts: u8) -> BlockStep {
    BlockStep {
        parent_mode,
        parent,
        ts,
        uncles: 0,
        uncle_sel: 0,
        new_txs: vec![],
        repropose: 0,
        repropose_sel: 0,
        commit_mask: 0xffff,
        miner: 0,
        ext_extra: 0,
        invalid: 0,
    }
}

/// Directed family (DESIGN §4 item 13): a main chain A of `len_a` quick blocks on the anchor and a
/// side chain B forking `fork_back` blocks below A's head with slow timestamps (different epoch
/// duration => lower difficulty), delivered in creation order: the B blocks above A's height are
/// lighter side blocks (they get an ext) until B overtakes.
pub fn gap_case_strategy() -> impl Strategy<Value = Case> {
    (
        prop_oneof![2 => Just(0u8), 2 => Just(1u8), 3 => Just(2u8), 2 => Just(3u8)],
        2usize..=7,
        1usize..=6,
        prop_oneof![Just(0u8), Just(1u8)],
        prop_oneof![Just(3u8), Just(4u8)],
        2usize..=8,
        proptest::collection::vec(tx_step_strategy(), 0..=2),
        any::<u8>(),
        proptest::collection::vec(any::<u16>(), 4),
        0usize..=5,
    )
        .prop_map(|(variant, len_a, fork_back, ts_a, ts_b, extra_b, txs, recrash_off, recrash_sel, commit_delay)| {
            let mut steps = vec![];
            // A chain: extend the heaviest leaf; the transactions proposed by its first block are
            // committed `commit_delay` blocks after they become committable (so that a restart in
            // between has to rebuild the proposal window from the store)
            for i in 0..len_a {
                let mut s = plain_step(0, 0, ts_a);
                if i == 0 {
                    s.new_txs = txs.clone();
                }
                if i < commit_delay + 2 {
                    s.commit_mask = 0;
                }
                steps.push(s);
            }
            // tree.order = [genesis, anchor, A1..A_len_a]; fork parent = A_(len_a - fork_back) or anchor
            let n = 2 + len_a;
            let fork_idx = (1 + len_a).saturating_sub(fork_back.min(len_a)).max(1);
            let lo = n.saturating_sub(12);
            let mut first_b = plain_step(2, sel_for(fork_idx.saturating_sub(lo), n - lo), ts_b);
            first_b.repropose = 2;
            steps.push(first_b);
            // B continues on "the other leaf": leaves (in creation order) = [A head, B head]
            let len_b = fork_back.min(len_a) + extra_b;
            for i in 1..len_b {
                let mut st = plain_step(1, sel_for(1, 2), ts_b);
                if i == 1 {
                    st.uncles = 1; // an A block may qualify as uncle of the B chain
                }
                steps.push(st);
            }
            let total = steps.len() + 2;
            Case {
                variant,
                plan: TreePlan { steps },
                sched: Sched {
                    mode: 0,
                    jitter: vec![0; total],
                    bursts: vec![1],
                },
                recrash_off,
                recrash_sel,
                cap_off: 0,
                only: vec![],
            }
        })
}

pub fn variant_cfg(variant: u8) -> SpecCfg {
    crate::checks::c01::variant_cfg(variant)
}

fn nc_invalid(b: &MBlock) -> bool {
    b.invalid.as_deref() == Some("BadTxRoot")
}

fn header_invalid(b: &MBlock) -> bool {
    b.invalid.as_deref() == Some("TimestampTooOld")
}

/// delivery order as indices into `built.blocks`; the anchor (index 0) is always first; header-
/// invalid blocks are not delivered (see assumptions); no duplicates
fn delivery_order(built: &Built, s: &Sched) -> Vec<usize> {
    let n = built.blocks.len();
    let mut keyed: Vec<(u64, usize)> = (1..n)
        .filter(|i| !header_invalid(built.tree.get(&built.blocks[*i])))
        .map(|i| {
            let j = *s.jitter.get(i).unwrap_or(&0) as u64;
            let key = match s.mode {
                0 => i as u64 * 8,
                1 => i as u64 * 8 + (j % 40),
                2 => j,
                _ => u64::MAX / 2 - built.tree.get(&built.blocks[i]).number * 65536 + (j % 1024),
            };
            (key, i)
        })
        .collect();
    keyed.sort();
    let mut order = vec![0usize];
    order.extend(keyed.iter().map(|(_, i)| *i));
    order
}

// ------------------------------------------------------------------------------------------
// child <-> worker protocol
// ------------------------------------------------------------------------------------------

#[derive(Clone, Debug, Serialize, Deserialize)]
struct Job {
    phase: String, // "run" | "recover"
    variant: u8,
    plan: TreePlan,
    order: Vec<usize>,
    bursts: Vec<u8>,
    dir: String,
    progress: String,
    out: String,
}

#[derive(Clone, Debug, Default, Serialize, Deserialize)]
struct BlockFact {
    stored: bool,
    /// (verified, total difficulty as hex) when a block ext exists
    ext: Option<(Option<bool>, String)>,
}

#[derive(Clone, Debug, Default, Serialize, Deserialize)]
struct Dump {
    tip: String,
    td: String,
    /// violated consistency clauses (clause, detail) of the store against the model for this tip
    problems: Vec<(String, String)>,
    facts: Vec<BlockFact>,
    digest: u64,
    orphans: usize,
    commits: u64,
    /// blocks whose header row is gone but whose header the store still answers (from its cache)
    #[serde(default)]
    stale_headers: Vec<usize>,
}

#[derive(Clone, Debug, Default, Serialize, Deserialize)]
struct Panicked {
    thread: String,
    location: String,
    message: String,
}

#[derive(Clone, Debug, Default, Serialize, Deserialize)]
struct RunOut {
    error: Option<String>,
    timeout: Option<String>,
    panics: Vec<Panicked>,
    /// (position in the order, tip, commit count) at every quiescent point
    quiescent: Vec<(usize, String, u64)>,
    fin: Option<Dump>,
    /// times the run had to send another block to get stalled orphans released
    #[serde(default)]
    nudges: u64,
}

#[derive(Clone, Debug, Default, Serialize, Deserialize)]
struct OpenFacts {
    tip: String,
    facts: Vec<BlockFact>,
}

#[derive(Clone, Debug, Default, Serialize, Deserialize)]
struct RecOut {
    error: Option<String>,
    open: Option<OpenFacts>,
    start_error: Option<String>,
    start_panic: Option<Panicked>,
    timeout: Option<String>,
    panics: Vec<Panicked>,
    r: Option<Dump>,
    s1: Option<Dump>,
    s2: Option<Dump>,
}

fn hexh(h: &H) -> String {
    hex(h.as_slice())
}

fn td_hex(td: &U256) -> String {
    format!("{:#x}", td)
}

fn panics_now() -> Vec<Panicked> {
    node_panics()
        .into_iter()
        .map(|p| Panicked {
            thread: if p.thread.starts_with("GlobalRt") { "GlobalRt".into() } else { p.thread },
            location: p.location,
            message: p.message,
        })
        .collect()
}

// ------------------------------------------------------------------------------------------
// child side
// ------------------------------------------------------------------------------------------

fn append_line(path: &str, line: &str) {
    if let Ok(mut f) = std::fs::OpenOptions::new().create(true).append(true).open(path) {
        let _ = writeln!(f, "{line}");
    }
}

fn commit_count() -> u64 {
    ckb_db::verif_hook::commit_count()
}

struct Received {
    set: BTreeSet<[u8; 32]>,
    seen: BTreeSet<[u8; 32]>,
}

/// model predicate (as in C01): a delivered block whose ancestry has not all reached the chain
/// service sits in the orphan pool and its callback does not fire yet
fn orphan_rec(tree: &Tree, rec: &Received, h: &H, memo: &mut BTreeMap<[u8; 32], bool>) -> bool {
    let k = h32(h);
    if let Some(v) = memo.get(&k) {
        return *v;
    }
    let b = tree.get(h);
    let r = if b.number == 0 || nc_invalid(b) {
        false
    } else {
        let p = tree.get(&b.parent);
        if p.number == 0 {
            false
        } else if nc_invalid(p) && rec.seen.contains(&h32(&p.hash)) {
            false
        } else if !rec.set.contains(&h32(&p.hash)) {
            true
        } else {
            orphan_rec(tree, rec, &p.hash, memo)
        }
    };
    memo.insert(k, r);
    r
}

fn mmr_size_of_tip(tip_number: u64) -> u64 {
    let leaves = tip_number + 1;
    2 * leaves - leaves.count_ones() as u64
}

/// Compare the store with the model's replay of the chain ending at the store's tip and collect
/// the block facts.  Independent oracle: everything expected comes from `Tree` (model.rs).
fn dump_state(node: &Node, built: &Built) -> Dump {
    let tree = &built.tree;
    let store = node.shared.store();
    let snap = node.shared.snapshot();
    let mut problems: Vec<(String, String)> = vec![];
    let mut p = |c: &str, d: String| {
        if problems.len() < 12 {
            problems.push((c.to_string(), d));
        }
    };
    let tip_header = store.get_tip_header();
    let (tip, td) = match &tip_header {
        Some(h) => {
            let ext = store.get_block_ext(&h.hash());
            (h.hash(), ext.map(|e| e.total_difficulty).unwrap_or_default())
        }
        None => {
            p("tip-header-missing", "META tip header does not resolve to a stored header".into());
            (packed::Byte32::zero(), U256::zero())
        }
    };
    if snap.tip_hash() != tip {
        p("snapshot-tip-differs-from-stored-tip", format!("snapshot tip {} stored tip {}", snap.tip_hash(), tip));
    }
    if *snap.total_difficulty() != td {
        p(
            "snapshot-td-differs-from-tip-ext",
            format!("snapshot TD {:#x}, ext(tip).total_difficulty {:#x}", snap.total_difficulty(), td),
        );
    }
    let mut digest_items: Vec<(u8, Vec<u8>, Vec<u8>)> = vec![];
    if let Some(mb) = tree.blocks.get(&tip) {
        let path = tree.path(&tip);
        // number <-> hash index, ext, headers along the parent links
        for b in &path {
            if store.get_block_hash(b.number) != Some(b.hash.clone()) {
                p(
                    "index-number-to-hash",
                    format!("number {} maps to {:?}, the tip's ancestor there is {}", b.number, store.get_block_hash(b.number), b.hash),
                );
            }
            if store.get_block_number(&b.hash) != Some(b.number) {
                p("index-hash-to-number", format!("block {} #{} maps to {:?}", b.hash, b.number, store.get_block_number(&b.hash)));
            }
            match store.get_block_header(&b.hash) {
                Some(h) if h.parent_hash() == b.parent || b.number == 0 => {}
                other => p("main-chain-header", format!("block #{} {}: stored header {:?}", b.number, b.hash, other.map(|h| h.hash()))),
            }
            if b.invalid.is_some() {
                p("main-chain-contains-invalid-block", format!("block #{} {} ({:?}) is on the main chain", b.number, b.hash, b.invalid));
            }
            match store.get_block_ext(&b.hash) {
                Some(e) => {
                    if e.verified != Some(true) {
                        p("main-chain-ext-not-verified", format!("block #{} {} ext.verified = {:?}", b.number, b.hash, e.verified));
                    }
                    if e.total_difficulty != b.td {
                        p("main-chain-ext-td", format!("block #{} ext TD {:#x} model {:#x}", b.number, e.total_difficulty, b.td));
                    }
                    if e.total_uncles_count != b.total_uncles {
                        p("main-chain-ext-uncles-count", format!("block #{} ext uncles {} model {}", b.number, e.total_uncles_count, b.total_uncles));
                    }
                    if b.number > 0 {
                        let fees: Vec<u64> = e.txs_fees.iter().map(|c| c.as_u64()).collect();
                        if fees != b.txs_fees {
                            p("main-chain-ext-fees", format!("block #{} ext fees {:?} model {:?}", b.number, fees, b.txs_fees));
                        }
                    }
                }
                None => p("main-chain-ext-missing", format!("block #{} {} has no ext", b.number, b.hash)),
            }
            if store.get_block_epoch(&b.hash).as_ref() != Some(&b.epoch) {
                p("main-chain-block-epoch", format!("block #{} epoch {:?} model {:?}", b.number, store.get_block_epoch(&b.hash), b.epoch));
            }
        }
        // full scan of the index column: nothing but the path
        let mut n_index = 0usize;
        for (k, v) in store.get_iter(COLUMN_INDEX, IteratorMode::Start) {
            n_index += 1;
            let ok = if k.len() == 8 {
                let n = u64::from_le_bytes(k[..8].try_into().unwrap());
                path.get(n as usize).map(|b| b.hash.as_slice() == &v[..]).unwrap_or(false)
            } else {
                let n = if v.len() == 8 { u64::from_le_bytes(v[..8].try_into().unwrap()) } else { u64::MAX };
                path.get(n as usize).map(|b| b.hash.as_slice() == &k[..]).unwrap_or(false)
            };
            if !ok {
                p("index-entry-not-on-tip-chain", format!("index entry {} -> {} is not on the chain of tip #{}", hex(&k), hex(&v), mb.number));
            }
            digest_items.push((0, k.to_vec(), v.to_vec()));
        }
        if n_index != 2 * path.len() {
            p("index-size", format!("{} index entries for a chain of {} blocks", n_index, path.len()));
        }
        // epoch
        if store.get_current_epoch_ext().as_ref() != Some(&mb.epoch) {
            p("current-epoch-ext", format!("stored {:?} model {:?}", store.get_current_epoch_ext(), mb.epoch));
        }
        if snap.epoch_ext() != &mb.epoch {
            p("snapshot-epoch-ext", format!("snapshot {:?} model {:?}", snap.epoch_ext(), mb.epoch));
        }
        // live cells: full scans, both directions
        let live = &mb.state.live;
        let mut seen_cells = 0usize;
        for (k, v) in store.get_iter(COLUMN_CELL, IteratorMode::Start) {
            digest_items.push((1, k.to_vec(), v.to_vec()));
            if k.len() != 36 {
                p("cell-key", format!("cell key of {} bytes", k.len()));
                continue;
            }
            let mut txh = [0u8; 32];
            txh.copy_from_slice(&k[..32]);
            let idx = u32::from_be_bytes(k[32..36].try_into().unwrap());
            match live.get(&(txh, idx)) {
                None => p("cell-live-in-store-dead-in-model", format!("cell {}:{} is in the cell column", hex(&txh), idx)),
                Some(c) => {
                    seen_cells += 1;
                    match packed::CellEntryReader::from_slice(&v) {
                        Ok(e) => {
                            let bn: u64 = e.block_number().into();
                            let be: u64 = e.block_epoch().into();
                            let ti: u32 = e.index().into();
                            let ds: u64 = e.data_size().into();
                            if e.output().as_slice() != c.output.as_slice()
                                || e.block_hash().as_slice() != c.block_hash.as_slice()
                                || bn != c.block_number
                                || be != c.block_epoch
                                || ti != c.tx_index
                                || ds != c.data.len() as u64
                            {
                                p(
                                    "cell-entry-differs",
                                    format!(
                                        "cell {}:{} stored (block {} #{} epoch {:#x} tx {} size {}) model (block {} #{} epoch {:#x} tx {} size {})",
                                        hex(&txh), idx, e.block_hash(), bn, be, ti, ds, c.block_hash, c.block_number, c.block_epoch, c.tx_index, c.data.len()
                                    ),
                                );
                            }
                        }
                        Err(e) => p("cell-entry-malformed", format!("cell {}:{}: {e}", hex(&txh), idx)),
                    }
                }
            }
        }
        if seen_cells != live.len() {
            for (k, _) in live.iter() {
                if store.get_cell(&out_point_of(k)).is_none() {
                    p("cell-live-in-model-missing-in-store", format!("cell {}:{}", hex(&k.0), k.1));
                    break;
                }
            }
        }
        let mut n_data = 0usize;
        for (k, v) in store.get_iter(COLUMN_CELL_DATA, IteratorMode::Start) {
            digest_items.push((2, k.to_vec(), v.to_vec()));
            n_data += 1;
            if k.len() != 36 {
                continue;
            }
            let mut txh = [0u8; 32];
            txh.copy_from_slice(&k[..32]);
            let idx = u32::from_be_bytes(k[32..36].try_into().unwrap());
            match live.get(&(txh, idx)) {
                None => p("cell-data-of-dead-cell", format!("cell {}:{}", hex(&txh), idx)),
                Some(c) => {
                    let ok = if c.data.is_empty() {
                        v.is_empty()
                    } else {
                        match packed::CellDataEntryReader::from_slice(&v) {
                            Ok(e) => {
                                e.output_data().raw_data() == &c.data[..]
                                    && e.output_data_hash().as_slice() == packed::CellOutput::calc_data_hash(&c.data).as_slice()
                            }
                            Err(_) => false,
                        }
                    };
                    if !ok {
                        p("cell-data-differs", format!("cell {}:{}", hex(&txh), idx));
                    }
                }
            }
        }
        if n_data != live.len() {
            p("cell-data-size", format!("{} cell-data rows, {} live cells in the model", n_data, live.len()));
        }
        let mut n_dh = 0usize;
        for (k, v) in store.get_iter(COLUMN_CELL_DATA_HASH, IteratorMode::Start) {
            digest_items.push((3, k.to_vec(), v.to_vec()));
            n_dh += 1;
        }
        if n_dh != live.len() {
            p("cell-data-hash-size", format!("{} cell-data-hash rows, {} live cells in the model", n_dh, live.len()));
        }
        // tx-location index
        let txi = &mb.state.tx_index;
        let mut n_tx = 0usize;
        for (k, v) in store.get_iter(COLUMN_TRANSACTION_INFO, IteratorMode::Start) {
            digest_items.push((4, k.to_vec(), v.to_vec()));
            n_tx += 1;
            let mut txh = [0u8; 32];
            if k.len() == 32 {
                txh.copy_from_slice(&k[..32]);
            }
            let info = store.get_transaction_info(&packed::Byte32::from_slice(&txh).unwrap());
            match (txi.get(&txh), info) {
                (Some((bh, bn, ti)), Some(i)) => {
                    if &i.block_hash != bh || i.block_number != *bn || i.index != *ti as usize {
                        p(
                            "tx-info-differs",
                            format!("tx {} stored ({} #{} idx {}) model ({} #{} idx {})", hex(&txh), i.block_hash, i.block_number, i.index, bh, bn, ti),
                        );
                    }
                }
                (None, _) => p("tx-info-of-uncommitted-tx", format!("tx {} has a location but is not committed on the tip's chain", hex(&txh))),
                _ => {}
            }
        }
        if n_tx != txi.len() {
            for (k, _) in txi.iter() {
                if store.get_transaction_info(&packed::Byte32::from_slice(k).unwrap()).is_none() {
                    p("tx-info-missing", format!("committed tx {} has no location", hex(k)));
                    break;
                }
            }
        }
        // uncle index
        let mut n_unc = 0usize;
        for (k, v) in store.get_iter(COLUMN_UNCLES, IteratorMode::Start) {
            digest_items.push((5, k.to_vec(), v.to_vec()));
            n_unc += 1;
            let mut uh = [0u8; 32];
            if k.len() == 32 {
                uh.copy_from_slice(&k[..32]);
            }
            if !mb.state.uncles.contains_key(&uh) {
                p("uncle-index-extra", format!("uncle {} is indexed but not included on the tip's chain", hex(&uh)));
            }
        }
        if n_unc != mb.state.uncles.len() {
            p("uncle-index-size", format!("{} uncle rows, model {}", n_unc, mb.state.uncles.len()));
        }
        // chain-root MMR nodes below the tip's size (raw, compared between runs only)
        let size = mmr_size_of_tip(mb.number);
        for (k, v) in store.get_iter(COLUMN_CHAIN_ROOT_MMR, IteratorMode::Start) {
            if k.len() == 8 && u64::from_le_bytes(k[..8].try_into().unwrap()) < size {
                digest_items.push((6, k.to_vec(), v.to_vec()));
            }
        }
    } else {
        p("tip-not-a-model-block", format!("stored tip {} is not a block of the history", tip));
    }
    digest_items.sort();
    // block facts are read from the columns themselves: `get_block_header` answers from the
    // StoreCache first, and a header cached again by a concurrent reader between
    // `delete_block` (which drops the cache entry) and the commit of the deletion outlives the row
    let mut stale_headers = vec![];
    let facts: Vec<BlockFact> = built
        .blocks
        .iter()
        .enumerate()
        .map(|(i, h)| {
            let stored = store.get(COLUMN_BLOCK_HEADER, h.as_slice()).is_some();
            if !stored && store.get_block_header(h).is_some() {
                stale_headers.push(i);
            }
            BlockFact {
                stored,
                ext: store
                    .get(COLUMN_BLOCK_EXT, h.as_slice())
                    .and_then(|s| decode_ext(&s))
                    .map(|e| (e.verified, td_hex(&e.total_difficulty))),
            }
        })
        .collect();
    Dump {
        tip: hexh(&tip),
        td: td_hex(&td),
        problems,
        facts,
        digest: fxhash64(&digest_items),
        orphans: node.chain().orphan_blocks_len(),
        commits: commit_count(),
        stale_headers,
    }
}

fn decode_ext(slice: &[u8]) -> Option<BlockExt> {
    let reader = packed::BlockExtReader::from_compatible_slice(slice).ok()?;
    match reader.count_extra_fields() {
        0 => Some(reader.into()),
        2 => packed::BlockExtV1Reader::from_slice(slice).ok().map(Into::into),
        _ => None,
    }
}

/// the directory as the crashed process left it, read without opening it for writing
fn inspect_open(dir: &Path, built: &Built) -> Result<OpenFacts, String> {
    let cols: Vec<String> = (0..COLUMNS).map(|c| c.to_string()).collect();
    let db = ckb_db::ReadOnlyDB::open_cf(dir.join("db"), cols)
        .map_err(|e| format!("read-only open: {e}"))?
        .ok_or("read-only open: no database")?;
    let tip = db
        .get_pinned(COLUMN_META, META_TIP_HEADER_KEY)
        .map_err(|e| e.to_string())?
        .map(|s| hex(&s))
        .unwrap_or_default();
    let mut facts = vec![];
    for h in &built.blocks {
        let stored = db.get_pinned(COLUMN_BLOCK_HEADER, h.as_slice()).map_err(|e| e.to_string())?.is_some();
        let ext = db
            .get_pinned(COLUMN_BLOCK_EXT, h.as_slice())
            .map_err(|e| e.to_string())?
            .and_then(|s| decode_ext(&s))
            .map(|e| (e.verified, td_hex(&e.total_difficulty)));
        facts.push(BlockFact { stored, ext });
    }
    Ok(OpenFacts { tip, facts })
}

const CB_TIMEOUT: Duration = Duration::from_secs(90);

fn child_run(job: &Job) -> i32 {
    install_panic_recorder();
    let env = build_env(&variant_cfg(job.variant));
    let built = Interp::new(&env).run(&job.plan);
    let tree = &built.tree;
    let mut out = RunOut::default();
    let write_out = |o: &RunOut| {
        let _ = std::fs::write(&job.out, serde_json::to_vec(o).unwrap());
    };
    let node = match Node::start(&env, NodeCfg { dir: Some(PathBuf::from(&job.dir)), ..Default::default() }) {
        Ok(n) => n,
        Err(e) => {
            out.error = Some(format!("node start: {e}"));
            write_out(&out);
            return 3;
        }
    };
    // block download only starts once the start-up rescan is over (the synchronizer checks the same
    // flag); delivering earlier races with InitLoadUnverified, which resubmits the fresh block
    let start = Instant::now();
    while node.chain().is_verifying_unverified_blocks_on_startup() {
        if start.elapsed() > CB_TIMEOUT {
            out.timeout = Some("is_verifying_unverified_blocks_on_startup stayed true".into());
            write_out(&out);
            return 4;
        }
        std::thread::sleep(Duration::from_millis(1));
    }
    let (tx, rx) = mpsc::channel::<(usize, Result<bool, String>)>();
    let mut rec = Received { set: BTreeSet::new(), seen: BTreeSet::new() };
    let mut done: BTreeSet<usize> = BTreeSet::new();
    let mut delivered: Vec<usize> = vec![];
    let mut burst_i = 0usize;
    let mut in_burst = 0u8;
    for (pos, bi) in job.order.iter().enumerate() {
        let h = &built.blocks[*bi];
        let b = tree.get(h);
        append_line(&job.progress, &format!("S {bi}"));
        node.deliver_async(&b.block, *bi, tx.clone());
        rec.seen.insert(h32(h));
        if !nc_invalid(b) {
            rec.set.insert(h32(h));
        }
        delivered.push(*bi);
        in_burst += 1;
        let blen = if pos == 0 { 1 } else { job.bursts[burst_i % job.bursts.len().max(1)].max(1) };
        if in_burst >= blen || pos + 1 == job.order.len() {
            in_burst = 0;
            if pos > 0 {
                burst_i += 1;
            }
            // quiescence: the callback of every delivered block that is not an orphan has fired
            // (callbacks fire after the last commit made for the block)
            let mut memo = BTreeMap::new();
            // position of every delivery, and of the last one that reached the orphan broker
            // (a structurally invalid block is refused before it: the chain service does not
            // look at the orphan pool then, so orphans waiting for that block are only failed
            // when the next stored block is processed)
            let pos_of: BTreeMap<usize, usize> = delivered.iter().enumerate().map(|(p, i)| (*i, p)).collect();
            let last_store = delivered.iter().enumerate().filter(|(_, i)| !nc_invalid(tree.get(&built.blocks[**i]))).map(|(p, _)| p).max();
            let released = |i: usize| -> bool {
                // walk up through delivered ancestors; if the chain ends at a refused
                // (structurally invalid) block, the release needs a later broker pass
                let mut need = pos_of[&i];
                let mut cur = tree.get(&built.blocks[i]);
                loop {
                    let p = tree.get(&cur.parent);
                    if p.number == 0 {
                        return true;
                    }
                    let pi = match built.blocks.iter().position(|h| h == &p.hash) {
                        Some(x) => x,
                        None => return true,
                    };
                    let ppos = match pos_of.get(&pi) {
                        Some(x) => *x,
                        None => return true,
                    };
                    if nc_invalid(p) {
                        need = need.max(ppos + 1);
                        return last_store.map(|l| l >= need).unwrap_or(false);
                    }
                    need = need.max(ppos);
                    cur = p;
                }
            };
            let expected: BTreeSet<usize> = delivered
                .iter()
                .filter(|i| !orphan_rec(tree, &rec, &built.blocks[**i], &mut memo) && released(**i))
                .cloned()
                .collect();
            let start = Instant::now();
            let mut last_progress = Instant::now();
            while !expected.is_subset(&done) {
                match rx.recv_timeout(Duration::from_millis(200)) {
                    Ok((tag, _r)) => {
                        done.insert(tag);
                        last_progress = Instant::now();
                    }
                    Err(_) => {
                        if last_progress.elapsed() > Duration::from_secs(2) && pos > 0 {
                            // OrphanBroker::search_orphan_leader reads the leader's status before
                            // is_pending_verify: a leader whose verification ends between the two
                            // reads is seen as neither stored nor pending and its orphans wait for
                            // the next block that reaches the broker.  Send one (the anchor again).
                            out.nudges += 1;
                            append_line(&job.progress, "N");
                            node.deliver_async(&tree.get(&built.blocks[0]).block, usize::MAX - 1, tx.clone());
                            last_progress = Instant::now();
                        }
                        if !node_panics().is_empty() || start.elapsed() > CB_TIMEOUT {
                            out.panics = panics_now();
                            out.timeout = Some(format!(
                                "callbacks of blocks {:?} did not fire after delivery {pos}",
                                expected.difference(&done).collect::<Vec<_>>()
                            ));
                            write_out(&out);
                            return 4;
                        }
                    }
                }
            }
            let tip = hexh(&node.shared.store().get_tip_header().map(|h| h.hash()).unwrap_or_default());
            let c = commit_count();
            append_line(&job.progress, &format!("Q {pos} {tip} {c}"));
            out.quiescent.push((pos, tip, c));
        }
    }
    out.panics = panics_now();
    out.fin = Some(dump_state(&node, &built));
    write_out(&out);
    node.stop();
    0
}

/// FIFO barrier through the three chain threads: re-deliver the (stored, verified) anchor block and
/// wait for its callback; repeated until a round changes neither the orphan pool nor the tip.
fn barrier(node: &Node, anchor: &ckb_types::core::BlockView) -> Result<(), String> {
    let mut prev: Option<(usize, H, u64)> = None;
    for _round in 0..16 {
        let (btx, brx) = mpsc::channel();
        node.deliver_async(anchor, usize::MAX, btx);
        let start = Instant::now();
        loop {
            match brx.recv_timeout(Duration::from_millis(200)) {
                Ok(_) => break,
                Err(_) => {
                    if !node_panics().is_empty() {
                        return Err("a node thread panicked".into());
                    }
                    if start.elapsed() > CB_TIMEOUT {
                        return Err("barrier callback did not fire".into());
                    }
                }
            }
        }
        if !node_panics().is_empty() {
            return Err("a node thread panicked".into());
        }
        // one more commit per round is the barrier's own insert
        let now = (node.chain().orphan_blocks_len(), node.tip_hash(), commit_count());
        if let Some(p) = &prev {
            if p.0 == now.0 && p.1 == now.1 && p.2 + 1 == now.2 {
                return Ok(());
            }
        }
        prev = Some(now);
    }
    Ok(())
}

fn child_recover(job: &Job) -> i32 {
    install_panic_recorder();
    let env = build_env(&variant_cfg(job.variant));
    let built = Interp::new(&env).run(&job.plan);
    let tree = &built.tree;
    let mut out = RecOut::default();
    let write_out = |o: &RecOut| {
        let _ = std::fs::write(&job.out, serde_json::to_vec(o).unwrap());
    };
    let open = match inspect_open(Path::new(&job.dir), &built) {
        Ok(o) => o,
        Err(e) => {
            out.error = Some(e);
            write_out(&out);
            return 3;
        }
    };
    out.open = Some(open.clone());
    write_out(&out);
    append_line(&job.progress, "R open");
    let started = std::panic::catch_unwind(std::panic::AssertUnwindSafe(|| {
        Node::start(&env, NodeCfg { dir: Some(PathBuf::from(&job.dir)), ..Default::default() })
    }));
    let node = match started {
        Ok(Ok(n)) => n,
        Ok(Err(e)) => {
            out.start_error = Some(e);
            write_out(&out);
            return 0;
        }
        Err(_) => {
            out.start_panic = Some(main_panic());
            write_out(&out);
            return 0;
        }
    };
    // start-up rescan
    let start = Instant::now();
    while node.chain().is_verifying_unverified_blocks_on_startup() {
        if !node_panics().is_empty() || start.elapsed() > CB_TIMEOUT {
            out.panics = panics_now();
            out.timeout = Some("is_verifying_unverified_blocks_on_startup stayed true".into());
            write_out(&out);
            return 0;
        }
        std::thread::sleep(Duration::from_millis(1));
    }
    let anchor = tree.get(&built.blocks[0]).block.clone();
    macro_rules! sync {
        ($what:expr) => {
            if let Err(e) = barrier(&node, &anchor) {
                out.panics = panics_now();
                out.timeout = Some(format!("{}: {e}", $what));
                write_out(&out);
                return 0;
            }
        };
    }
    sync!("after start-up");
    out.r = Some(dump_state(&node, &built));
    write_out(&out);
    // stage 1: the blocks of the history that were not stored when the directory was reopened
    let (tx, _rx) = mpsc::channel::<(usize, Result<bool, String>)>();
    for bi in &job.order {
        if open.facts[*bi].stored {
            continue;
        }
        append_line(&job.progress, &format!("S {bi}"));
        node.deliver_async(&tree.get(&built.blocks[*bi]).block, *bi, tx.clone());
        sync!(format!("stage 1 delivery of block {bi}"));
    }
    sync!("after stage 1");
    out.s1 = Some(dump_state(&node, &built));
    write_out(&out);
    // stage 2: every block once more, the way a peer would re-announce it (parents first)
    for bi in 0..built.blocks.len() {
        if !job.order.contains(&bi) {
            continue;
        }
        node.deliver_async(&tree.get(&built.blocks[bi]).block, bi, tx.clone());
        sync!(format!("stage 2 delivery of block {bi}"));
    }
    sync!("after stage 2");
    out.s2 = Some(dump_state(&node, &built));
    out.panics = panics_now();
    write_out(&out);
    node.stop();
    0
}

fn main_panic() -> Panicked {
    // the recorder keeps panics of every thread; `node_panics` filters the main thread out, so
    // look at the recorded list through a violation built from all of them
    let all = crate::common::all_panics();
    all.into_iter()
        .rev()
        .find(|p| p.thread == "main")
        .map(|p| Panicked { thread: p.thread, location: p.location, message: p.message })
        .unwrap_or_default()
}

fn child_main(job_path: &str) -> ! {
    let job: Job = match std::fs::read(job_path).ok().and_then(|b| serde_json::from_slice(&b).ok()) {
        Some(j) => j,
        None => {
            eprintln!("C08 child: cannot read job {job_path}");
            std::process::exit(5)
        }
    };
    let code = match job.phase.as_str() {
        "run" => child_run(&job),
        "recover" => child_recover(&job),
        _ => 5,
    };
    std::process::exit(code)
}

// ------------------------------------------------------------------------------------------
// worker side
// ------------------------------------------------------------------------------------------

struct ChildEnd {
    code: Option<i32>,
    signal: Option<i32>,
    log: String,
    timed_out: bool,
}

fn spawn_child(job: &Job, job_path: &Path, log_path: &Path, commit_log: Option<&Path>, crash_at: Option<&str>) -> Result<ChildEnd, Violation> {
    use std::os::unix::process::ExitStatusExt;
    std::fs::write(job_path, serde_json::to_vec(job).unwrap()).map_err(|e| Violation::new("harness:job-file", e.to_string()))?;
    let _ = std::fs::remove_file(&job.out);
    let exe = std::env::current_exe().map_err(|e| Violation::new("harness:current-exe", e.to_string()))?;
    let log = std::fs::File::create(log_path).map_err(|e| Violation::new("harness:child-log", e.to_string()))?;
    let mut cmd = Command::new(exe);
    cmd.arg("C08")
        .arg("--worker")
        .arg("0/1")
        .arg("--out")
        .arg("/dev/null")
        .env(ENV_JOB, job_path)
        .env_remove("VERIF_COMMIT_LOG")
        .env_remove("VERIF_CRASH_AT")
        .stdin(Stdio::null())
        .stdout(Stdio::from(log.try_clone().unwrap()))
        .stderr(Stdio::from(log));
    if let Some(p) = commit_log {
        cmd.env("VERIF_COMMIT_LOG", p);
    }
    if let Some(c) = crash_at {
        cmd.env("VERIF_CRASH_AT", c);
    }
    let mut child = cmd.spawn().map_err(|e| Violation::new("harness:spawn", e.to_string()))?;
    let start = Instant::now();
    let mut timed_out = false;
    let status = loop {
        match child.try_wait() {
            Ok(Some(s)) => break s,
            Ok(None) => {
                if start.elapsed() > Duration::from_secs(420) {
                    let _ = child.kill();
                    timed_out = true;
                    break child.wait().map_err(|e| Violation::new("harness:wait", e.to_string()))?;
                }
                std::thread::sleep(Duration::from_millis(3));
            }
            Err(e) => return Err(Violation::new("harness:wait", e.to_string())),
        }
    };
    let log = std::fs::read_to_string(log_path).unwrap_or_default();
    Ok(ChildEnd { code: status.code(), signal: status.signal(), log, timed_out })
}

fn read_json<T: serde::de::DeserializeOwned>(p: &str) -> Option<T> {
    std::fs::read(p).ok().and_then(|b| serde_json::from_slice(&b).ok())
}

/// "thread 'x' panicked at file:line" from a child log
fn panic_location_in_log(log: &str) -> Option<String> {
    for l in log.lines() {
        if let Some(i) = l.find("panicked at ") {
            let rest = &l[i + "panicked at ".len()..];
            let loc = rest.trim_end_matches(':').trim();
            let loc = loc.rsplit_once("/repo/").map(|x| x.1).unwrap_or(loc);
            // drop the column
            let mut parts: Vec<&str> = loc.split(':').collect();
            if parts.len() >= 3 {
                parts.truncate(2);
            }
            let thread = l.split('\'').nth(1).unwrap_or("?");
            return Some(format!("{}@{}", thread, parts.join(":")));
        }
    }
    None
}

fn log_tail(log: &str) -> String {
    let n = if std::env::var_os("VERIF_LOG").is_some() { 400 } else { 12 };
    let v: Vec<&str> = log.lines().rev().take(n).collect();
    v.into_iter().rev().collect::<Vec<_>>().join(" | ")
}

struct ModelView<'a> {
    built: &'a Built,
    by_hex: BTreeMap<String, usize>,
    genesis_hex: String,
}

impl<'a> ModelView<'a> {
    fn new(built: &'a Built) -> Self {
        let by_hex = built.blocks.iter().enumerate().map(|(i, h)| (hexh(h), i)).collect();
        ModelView { built, by_hex, genesis_hex: hexh(&built.tree.genesis) }
    }
    fn block(&self, i: usize) -> &MBlock {
        self.built.tree.get(&self.built.blocks[i])
    }
    fn idx_of(&self, h: &H) -> Option<usize> {
        self.by_hex.get(&hexh(h)).cloned()
    }
    /// TD of a tip given as hex (genesis included)
    fn td_of_hex(&self, hx: &str) -> Option<U256> {
        if hx == self.genesis_hex {
            return Some(self.built.tree.get(&self.built.tree.genesis).td.clone());
        }
        self.by_hex.get(hx).map(|i| self.block(*i).td.clone())
    }
    /// all strict ancestors (below the block, above genesis) satisfy `f`
    fn ancestors_all(&self, i: usize, f: &dyn Fn(usize) -> bool) -> bool {
        let mut cur = self.block(i);
        loop {
            let p = self.built.tree.get(&cur.parent);
            if p.number == 0 {
                return true;
            }
            match self.idx_of(&p.hash) {
                Some(pi) if f(pi) => {}
                _ => return false,
            }
            cur = p;
        }
    }
    /// max TD (and the blocks reaching it) over fully valid chains all of whose blocks satisfy `f`
    fn best_over(&self, f: &dyn Fn(usize) -> bool) -> (U256, Vec<String>) {
        let mut best = self.built.tree.get(&self.built.tree.genesis).td.clone();
        let mut who = vec![self.genesis_hex.clone()];
        for i in 0..self.built.blocks.len() {
            let b = self.block(i);
            if !f(i) || b.invalid.is_some() {
                continue;
            }
            if !self.ancestors_all(i, &|a| f(a) && self.block(a).invalid.is_none()) {
                continue;
            }
            if b.td > best {
                best = b.td.clone();
                who = vec![hexh(&b.hash)];
            } else if b.td == best {
                who.push(hexh(&b.hash));
            }
        }
        (best, who)
    }
    fn describe(&self, hx: &str) -> String {
        match self.by_hex.get(hx) {
            Some(i) => format!("block[{}] #{} {}", i, self.block(*i).number, &hx[..10]),
            None if hx == self.genesis_hex => "genesis".into(),
            None => format!("unknown {}", &hx[..hx.len().min(10)]),
        }
    }
}

#[derive(Default)]
struct PointInfo {
    unverified_at_open: bool,
    gap_shape: bool,
    orphan_above_stop: bool,
    tip_changed_in_recovery: bool,
}

struct Judge<'a> {
    mv: &'a ModelView<'a>,
    order: &'a [usize],
    dry_fin: &'a Dump,
    /// is the signature a listed known finding that may be tolerated (not in replay mode)?
    known: &'a dyn Fn(&str) -> bool,
    hits: Vec<String>,
}

const SIG_GAP: &str = "recovered:connectable-stored-unverified-block-not-picked-up:above-a-height-without-unverified-block";
const SIG_S1_GAP: &str = "after-remaining:not-converged:stored-unverified-block-above-a-height-without-one-was-never-resubmitted";

impl<'a> Judge<'a> {
    fn tolerated(&mut self, sig: &str) -> bool {
        if (self.known)(sig) {
            self.hits.push(sig.to_string());
            true
        } else {
            false
        }
    }

    /// `last_q`: tip recorded at the last quiescent point the crashed process reached (verified
    /// work that must not be lost); `offered`: blocks handed to the node before the crash
    fn judge(&mut self, wher: &str, rec: &RecOut, last_q: Option<&str>, offered: &BTreeSet<usize>) -> Result<PointInfo, Violation> {
        let mv = self.mv;
        let mut info = PointInfo::default();
        if let Some(e) = &rec.error {
            vfail!("harness:recovery-child", "{wher}: {e}");
        }
        let open = match &rec.open {
            Some(o) => o,
            None => vfail!("harness:recovery-child", "{wher}: no at-open facts"),
        };
        if let Some(e) = &rec.start_error {
            vfail!("reopen:node-start-failed", "{wher}: reopening the directory failed: {e}");
        }
        if let Some(p) = &rec.start_panic {
            vfail!(format!("reopen:panicked@{}", p.location), "{wher}: reopening the directory panicked at {}: {}", p.location, p.message);
        }
        if let Some(p) = rec.panics.first() {
            vfail!(
                format!("recovery:node-thread-panicked:{}@{}", p.thread, p.location),
                "{wher}: thread '{}' of the recovering node panicked at {}: {} (stage reached: {})",
                p.thread,
                p.location,
                p.message,
                if rec.s1.is_some() { "after S1" } else if rec.r.is_some() { "after R" } else { "start-up" }
            );
        }
        if let Some(t) = &rec.timeout {
            vfail!("harness:recovery-timeout", "{wher}: {t}");
        }
        let (r, s1, s2) = match (&rec.r, &rec.s1, &rec.s2) {
            (Some(r), Some(s1), Some(s2)) => (r, s1, s2),
            _ => vfail!("harness:recovery-child", "{wher}: incomplete output"),
        };
        // ---- state at open
        let stored_open = |i: usize| open.facts[i].stored;
        for i in 0..open.facts.len() {
            if open.facts[i].stored && !offered.contains(&i) {
                vfail!("harness:stored-block-never-offered", "{wher}: block[{i}] is stored but was not offered");
            }
        }
        let tip_open_td = match mv.td_of_hex(&open.tip) {
            Some(t) => t,
            None => vfail!("recovered:tip-at-open-not-a-block-of-the-history", "{wher}: META tip at open = {}", open.tip),
        };
        let tip_open_number = mv.by_hex.get(&open.tip).map(|i| mv.block(*i).number).unwrap_or(0);
        // stored, no ext, all ancestors stored
        let mut unverified_connectable: Vec<usize> = vec![];
        let mut unverified_any: Vec<usize> = vec![];
        for i in 0..open.facts.len() {
            if open.facts[i].stored && open.facts[i].ext.is_none() {
                unverified_any.push(i);
                if mv.ancestors_all(i, &stored_open) {
                    unverified_connectable.push(i);
                }
            }
        }
        info.unverified_at_open = !unverified_any.is_empty();
        // classification only: the height above the tip at which a scan over consecutive heights
        // with an unverified block would stop
        let heights: BTreeSet<u64> = unverified_any.iter().map(|i| mv.block(*i).number).collect();
        let mut stop = tip_open_number + 1;
        while heights.contains(&stop) {
            stop += 1;
        }
        let above_stop: Vec<usize> = unverified_any.iter().cloned().filter(|i| mv.block(*i).number > stop).collect();
        info.gap_shape = above_stop.iter().any(|i| unverified_connectable.contains(i));
        info.orphan_above_stop = above_stop.iter().any(|i| !unverified_connectable.contains(i));
        // ---- stage R
        if let Some((c, d)) = r.problems.first() {
            vfail!(format!("recovered:{c}"), "{wher}: after recovery (tip {}): {d}", mv.describe(&r.tip));
        }
        let td_r = match mv.td_of_hex(&r.tip) {
            Some(t) => t,
            None => vfail!("recovered:tip-not-a-model-block", "{wher}: tip {}", r.tip),
        };
        info.tip_changed_in_recovery = r.tip != open.tip;
        if td_r < tip_open_td {
            vfail!(
                "recovered:tip-went-back-during-recovery",
                "{wher}: tip at open {} (TD {:#x}), after recovery {} (TD {:#x})",
                mv.describe(&open.tip), tip_open_td, mv.describe(&r.tip), td_r
            );
        }
        if let Some(q) = last_q {
            if let Some(qtd) = mv.td_of_hex(q) {
                if td_r < qtd {
                    vfail!(
                        "recovered:verified-work-lost",
                        "{wher}: before the crash the node had reached tip {} (TD {:#x}) at a quiescent point; after recovery the tip is {} (TD {:#x})",
                        mv.describe(q), qtd, mv.describe(&r.tip), td_r
                    );
                }
            }
        }
        // strict clause
        let mut gap_tolerated = false;
        for i in &unverified_connectable {
            let f = &r.facts[*i];
            if f.stored && f.ext.is_none() {
                let b = mv.block(*i);
                let gap = b.number > stop;
                let sig = if gap { SIG_GAP.to_string() } else { "recovered:connectable-stored-unverified-block-not-picked-up".to_string() };
                let detail = format!(
                    "{wher}: block[{i}] #{} {} was stored without ext when the directory was reopened (tip at open {} #{}), all its ancestors were stored, and after InitLoadUnverified + barrier it is still stored without ext (neither verified nor rejected); heights with an unverified block at open: {:?}; first height above the tip without one: {}",
                    b.number, hexh(&b.hash), mv.describe(&open.tip), tip_open_number, heights, stop
                );
                if self.tolerated(&sig) {
                    gap_tolerated = true;
                    continue;
                }
                return Err(Violation::new(sig, detail));
            }
        }
        // TD after recovery = best fully valid chain among the blocks stored at open
        let (best_open, who) = mv.best_over(&stored_open);
        if td_r != best_open && !gap_tolerated {
            let sig = if td_r < best_open { "recovered:td-below-best-stored-valid-chain" } else { "recovered:td-above-best-stored-valid-chain" };
            vfail!(
                sig,
                "{wher}: after recovery tip {} TD {:#x}; the heaviest fully valid chain among the blocks stored at reopen ends at {} with TD {:#x}",
                mv.describe(&r.tip), td_r, who.iter().map(|h| mv.describe(h)).collect::<Vec<_>>().join("/"), best_open
            );
        }
        // ---- stage S1 / S2: convergence to the never-crashed run
        let dry_td = mv.td_of_hex(&self.dry_fin.tip).unwrap_or_default();
        let delivered = |i: usize| self.order.contains(&i) && !nc_invalid(mv.block(i));
        let (_, tie) = mv.best_over(&delivered);
        for (stage, d) in [("after-remaining", s1), ("after-reoffer", s2)] {
            if let Some((c, dd)) = d.problems.first() {
                vfail!(format!("{stage}:{c}"), "{wher}: {stage} (tip {}): {dd}", mv.describe(&d.tip));
            }
            let td = match mv.td_of_hex(&d.tip) {
                Some(t) => t,
                None => vfail!(format!("{stage}:tip-not-a-model-block"), "{wher}: tip {}", d.tip),
            };
            if td != dry_td {
                let unresub = !above_stop.is_empty();
                let sig = if stage == "after-remaining" && unresub {
                    SIG_S1_GAP.to_string()
                } else if td < dry_td {
                    format!("{stage}:not-converged:td-below-never-crashed-run")
                } else {
                    format!("{stage}:not-converged:td-above-never-crashed-run")
                };
                let detail = format!(
                    "{wher}: {stage} tip {} TD {:#x}; the never-crashed run of the same history ends at {} TD {:#x}; stored-unverified blocks at reopen: {:?} (connectable {:?}), tip at open #{}, first height above it without an unverified block {}",
                    mv.describe(&d.tip), td, mv.describe(&self.dry_fin.tip), dry_td,
                    unverified_any.iter().map(|i| (i, mv.block(*i).number)).collect::<Vec<_>>(),
                    unverified_connectable, tip_open_number, stop
                );
                if self.tolerated(&sig) {
                    continue;
                }
                return Err(Violation::new(sig, detail));
            }
            if d.tip != self.dry_fin.tip {
                if !(tie.contains(&d.tip) && tie.contains(&self.dry_fin.tip)) {
                    vfail!(
                        format!("{stage}:tip-differs-without-equal-td-tie"),
                        "{wher}: tip {} vs never-crashed {} (equal TD) but the model has no tie between them",
                        mv.describe(&d.tip), mv.describe(&self.dry_fin.tip)
                    );
                }
            } else if d.digest != self.dry_fin.digest {
                vfail!(
                    format!("{stage}:main-chain-columns-differ-from-never-crashed-run"),
                    "{wher}: same tip {} but the raw index/cell/cell-data/tx-info/uncle/MMR columns differ from the never-crashed run",
                    mv.describe(&d.tip)
                );
            }
        }
        Ok(info)
    }
}

fn parse_progress(path: &str) -> (BTreeSet<usize>, Option<String>) {
    let mut offered = BTreeSet::new();
    let mut last_q = None;
    for l in std::fs::read_to_string(path).unwrap_or_default().lines() {
        let mut it = l.split_whitespace();
        match it.next() {
            Some("S") => {
                if let Some(i) = it.next().and_then(|x| x.parse().ok()) {
                    offered.insert(i);
                }
            }
            Some("Q") => {
                let _pos = it.next();
                if let Some(t) = it.next() {
                    last_q = Some(t.to_string());
                }
            }
            _ => {}
        }
    }
    (offered, last_q)
}

fn copy_dir(from: &Path, to: &Path) -> std::io::Result<()> {
    std::fs::create_dir_all(to)?;
    for e in std::fs::read_dir(from)? {
        let e = e?;
        let p = e.path();
        let t = to.join(e.file_name());
        if e.file_type()?.is_dir() {
            copy_dir(&p, &t)?;
        } else {
            std::fs::copy(&p, &t)?;
        }
    }
    Ok(())
}

/// inconclusive cases are not saved by the driver: keep them next to the worker logs for diagnosis
fn keep_case(case: &Case, why: &str) {
    if let Some(w) = std::env::var_os("VERIF_WORK") {
        let body = json!({"property": "C08", "sub": "history-x-crash-points", "signature": format!("harness:{why}"), "case": case});
        let h = fxhash64(&serde_json::to_string(case).unwrap_or_default());
        let _ = std::fs::write(PathBuf::from(w).join(format!("inconclusive-{why}-{h:016x}.json")), serde_json::to_vec_pretty(&body).unwrap());
    }
}

fn trace_rec(mv: &ModelView, wher: &str, rec: &RecOut) {
    let unv = |fs: &Vec<BlockFact>| {
        fs.iter().enumerate().filter(|(_, f)| f.stored && f.ext.is_none()).map(|(i, _)| format!("[{}]#{}", i, mv.block(i).number)).collect::<Vec<_>>().join(",")
    };
    eprintln!(
        "TRACE {wher}: open tip {} unverified {{{}}} | R tip {} unverified {{{}}} | S1 tip {} | S2 tip {}",
        rec.open.as_ref().map(|o| mv.describe(&o.tip)).unwrap_or_default(),
        rec.open.as_ref().map(|o| unv(&o.facts)).unwrap_or_default(),
        rec.r.as_ref().map(|d| mv.describe(&d.tip)).unwrap_or_default(),
        rec.r.as_ref().map(|d| unv(&d.facts)).unwrap_or_default(),
        rec.s1.as_ref().map(|d| mv.describe(&d.tip)).unwrap_or_default(),
        rec.s2.as_ref().map(|d| mv.describe(&d.tip)).unwrap_or_default()
    );
}

thread_local! {
    /// crash point of the first failure: shrinking re-runs look at its neighbourhood only
    static FOCUS: std::cell::Cell<Option<(u64, bool)>> = const { std::cell::Cell::new(None) };
}

pub struct Budget {
    /// crash points evaluated per history at most
    pub max_points: usize,
    /// every n-th crash point is followed by a second crash during recovery (0 = never)
    pub recrash_every: usize,
}

fn prop(ctx: &Ctx, budget: &Budget, case: &Case, st: &mut Stats) -> Verdict {
    let env = build_env(&variant_cfg(case.variant));
    let built = Interp::new(&env).run(&case.plan);
    for (k, v) in &built.labels {
        st.label_n(k, *v);
    }
    let order = delivery_order(&built, &case.sched);
    if order.len() < 3 {
        st.label("history:too-short");
        return Ok(());
    }
    let mv = ModelView::new(&built);
    let work = scratch("c08-");
    let wp = work.path();
    let pstr = |p: PathBuf| p.to_string_lossy().to_string();
    let base_job = |phase: &str, dir: &Path, tag: &str| Job {
        phase: phase.to_string(),
        variant: case.variant,
        plan: case.plan.clone(),
        order: order.clone(),
        bursts: case.sched.bursts.clone(),
        dir: pstr(dir.to_path_buf()),
        progress: pstr(wp.join(format!("{tag}.progress"))),
        out: pstr(wp.join(format!("{tag}.out"))),
    };

    if std::env::var_os("VERIF_C08_TRACE").is_some() {
        for (pos, bi) in order.iter().enumerate() {
            let b = mv.block(*bi);
            eprintln!(
                "TRACE delivery {pos}: block[{bi}] #{} {} parent #{} {} td {:#x} invalid {:?}",
                b.number, &hexh(&b.hash)[..10], built.tree.get(&b.parent).number, &hexh(&b.parent)[..10], b.td, b.invalid
            );
        }
    }
    // ---- dry run = the never-crashed reference, and the enumeration of the commits
    let dry_dir = wp.join("dry");
    let dry_log = wp.join("dry.commits");
    let job = base_job("run", &dry_dir, "dry");
    let end = spawn_child(&job, &wp.join("dry.job"), &wp.join("dry.log"), Some(&dry_log), None)?;
    let dry: RunOut = read_json(&job.out).unwrap_or_default();
    if let Some(p) = dry.panics.first() {
        vfail!(
            format!("uncrashed-run:node-thread-panicked:{}@{}", p.thread, p.location),
            "thread '{}' panicked at {} in the never-crashed run: {}",
            p.thread,
            p.location,
            p.message
        );
    }
    if end.timed_out || end.code != Some(0) || dry.fin.is_none() {
        if let Some(loc) = panic_location_in_log(&end.log) {
            vfail!(format!("uncrashed-run:panicked:{loc}"), "the never-crashed run died: {}", log_tail(&end.log));
        }
        keep_case(case, "dry-run-failed");
        vfail!(
            "harness:dry-run-failed",
            "dry run exit {:?} signal {:?} timeout {:?} error {:?}: {}",
            end.code,
            end.signal,
            dry.timeout,
            dry.error,
            log_tail(&end.log)
        );
    }
    let dry_fin = dry.fin.clone().unwrap();
    st.label_n("dry-run:nudged-stalled-orphan-release", dry.nudges);
    if !dry_fin.stale_headers.is_empty() {
        st.label("observed:store-cache-answers-header-of-deleted-block");
    }
    if let Some((c, d)) = dry_fin.problems.first() {
        vfail!(format!("uncrashed-run:{c}"), "never-crashed run, final state: {d}");
    }
    let delivered = |i: usize| order.contains(&i) && !nc_invalid(mv.block(i));
    let (model_best, _) = mv.best_over(&delivered);
    if mv.td_of_hex(&dry_fin.tip) != Some(model_best.clone()) {
        vfail!(
            "uncrashed-run:td-not-max-over-valid-chains",
            "never-crashed run ends at {} TD {}; model expects TD {:#x}",
            mv.describe(&dry_fin.tip),
            dry_fin.td,
            model_best
        );
    }
    let _ = std::fs::remove_dir_all(&dry_dir);
    // commit log: "<n> <kind> <thread>" (lines of two threads committing at the same moment may be
    // merged: malformed lines are ignored, the count comes from the hook's counter)
    let mut commit_threads: BTreeMap<u64, String> = BTreeMap::new();
    let mut log_lines = 0u64;
    for l in std::fs::read_to_string(&dry_log).unwrap_or_default().lines() {
        log_lines += 1;
        let toks: Vec<&str> = l.split_whitespace().collect();
        if toks.len() == 3 {
            if let Ok(n) = toks[0].parse::<u64>() {
                commit_threads.insert(n, toks[2].to_string());
            }
        }
    }
    let first = match dry.quiescent.first() {
        Some((0, _, c)) => *c + 1,
        _ => vfail!("harness:dry-run-failed", "no quiescent point after the anchor"),
    };
    // a deletion of a descendant of a refused block is not waited for: the log may hold a commit
    // more than the counter read at the final dump
    let last = dry_fin.commits.max(commit_threads.keys().next_back().cloned().unwrap_or(0)).max(log_lines.min(dry_fin.commits + 2));
    if last < first {
        vfail!("harness:commit-log", "commit log has {} lines, counter says {}, first enumerated {}", log_lines, dry_fin.commits, first);
    }
    // spans between quiescent points in which the never-crashed run reorganised >= 2 blocks
    let mut reorg_spans: Vec<(u64, u64)> = vec![];
    for w in dry.quiescent.windows(2) {
        let (a, b) = (&w[0], &w[1]);
        if a.1 != b.1 {
            if let (Some(ia), Some(ib)) = (mv.by_hex.get(&a.1), mv.by_hex.get(&b.1)) {
                let (ha, hb) = (&built.blocks[*ia], &built.blocks[*ib]);
                let mut cur = built.tree.get(ha);
                let mut depth = 0;
                while !built.tree.is_ancestor(&cur.hash, hb) {
                    depth += 1;
                    cur = built.tree.get(&cur.parent);
                }
                if depth >= 2 {
                    reorg_spans.push((a.2 + 1, b.2));
                    st.label("history:has-reorg-depth>=2");
                }
            }
        }
    }
    // ---- crash points: every commit x {before, after}
    let mut points: Vec<(u64, bool)> = vec![];
    for n in first..=last {
        points.push((n, true));
        points.push((n, false));
    }
    let total_points = points.len();
    let shrinking = st.is_frozen();
    let trace = std::env::var_os("VERIF_C08_TRACE").is_some();
    if trace {
        for (n, t) in &commit_threads {
            eprintln!("TRACE commit {n} {t}");
        }
        for q in &dry.quiescent {
            eprintln!("TRACE quiescent after delivery {}: tip {} commits {}", q.0, mv.describe(&q.1), q.2);
        }
    }
    if !case.only.is_empty() {
        points = case.only.clone();
        st.label("history:selected-points-only");
    } else if shrinking {
        if let Some((fnn, fb)) = FOCUS.with(|f| f.get()) {
            points.sort_by_key(|(n, b)| ((*n as i64 - fnn as i64).abs(), *b != fb));
            points.truncate(6);
        }
    } else if points.len() > budget.max_points {
        // fixed budget.  `n:after` and `n+1:before` leave the same database behind unless two
        // threads commit at the same time, so the `before` points and the last `after` go first;
        // the rest of the budget is a window (offset from the case) of the other `after` points
        let mut prio: Vec<(u64, bool)> = (first..=last).map(|n| (n, true)).collect();
        prio.push((last, false));
        let rest: Vec<(u64, bool)> = (first..last).map(|n| (n, false)).collect();
        if prio.len() >= budget.max_points {
            let off = pick_idx(case.cap_off as u32, prio.len() - budget.max_points + 1);
            points = prio[off..off + budget.max_points].to_vec();
            st.label("history:capped:window-of-before-points");
        } else {
            let room = budget.max_points - prio.len();
            let off = pick_idx(case.cap_off as u32, rest.len() - room + 1);
            prio.extend_from_slice(&rest[off..off + room]);
            prio.sort_by_key(|(n, b)| (*n, !*b));
            points = prio;
            st.label("history:capped:all-before-points+window-of-after-points");
        }
    } else {
        st.label("history:exhaustive");
    }
    st.label_n("commits:enumerated", last - first + 1);
    st.label(&format!("deliveries:{}", match order.len() { 0..=9 => "<10", 10..=19 => "10-19", 20..=29 => "20-29", _ => "30+" }));
    let known = |sig: &str| !ctx.strict && ctx.is_known(sig);
    let thread_of = |n: u64| commit_threads.get(&n).cloned().unwrap_or_else(|| "?".to_string());

    for (pi, (n, before)) in points.iter().enumerate() {
        let phase = if *before { "before" } else { "after" };
        let wher = format!("crash at commit {n}:{phase} ({} of {}..={}, thread {})", pi, first, last, thread_of(*n));
        let tag = format!("p{n}{}", if *before { "b" } else { "a" });
        let dir = wp.join(&tag);
        let fail = |v: Violation| {
            FOCUS.with(|f| f.set(Some((*n, *before))));
            v
        };
        // crash run
        let cjob = base_job("run", &dir, &tag);
        let _ = std::fs::remove_file(&cjob.progress);
        let end = spawn_child(&cjob, &wp.join(format!("{tag}.job")), &wp.join(format!("{tag}.log")), None, Some(&format!("{n}:{phase}")))?;
        st.eval("crash-point");
        let injected = end.signal == Some(6) && end.log.contains(ABORT_MARKER);
        if !injected {
            if end.code == Some(0) {
                // fewer commits than in the dry run (scheduling inside a burst): nothing to recover from
                st.label("crash-point:not-reached");
                let _ = std::fs::remove_dir_all(&dir);
                continue;
            }
            let ro: RunOut = read_json(&cjob.out).unwrap_or_default();
            if let Some(p) = ro.panics.first() {
                return Err(fail(Violation::new(
                    format!("crash-run:node-thread-panicked:{}@{}", p.thread, p.location),
                    format!("{wher}: before the injected crash thread '{}' panicked at {}: {}", p.thread, p.location, p.message),
                )));
            }
            if let Some(loc) = panic_location_in_log(&end.log) {
                return Err(fail(Violation::new(
                    format!("crash-run:died-without-injected-abort:{loc}"),
                    format!("{wher}: exit {:?} signal {:?}: {}", end.code, end.signal, log_tail(&end.log)),
                )));
            }
            vfail!("harness:crash-run", "{wher}: exit {:?} signal {:?} timeout {:?}: {}", end.code, end.signal, ro.timeout, log_tail(&end.log));
        }
        let (offered, last_q) = parse_progress(&cjob.progress);
        // optional second crash during recovery: needs an untouched copy of the crashed directory
        let do_recrash = budget.recrash_every > 0 && !shrinking && (pi + case.recrash_off as usize) % budget.recrash_every == 0;
        let dir2 = wp.join(format!("{tag}x"));
        if do_recrash {
            copy_dir(&dir, &dir2).map_err(|e| Violation::new("harness:copy-dir", e.to_string()))?;
        }
        // recovery
        let rjob = base_job("recover", &dir, &format!("{tag}r"));
        let rlog = wp.join(format!("{tag}r.commits"));
        let rend = spawn_child(&rjob, &wp.join(format!("{tag}r.job")), &wp.join(format!("{tag}r.log")), Some(&rlog), None)?;
        let rec: RecOut = read_json(&rjob.out).unwrap_or_default();
        if rend.timed_out {
            vfail!("harness:recovery-timeout", "{wher}: recovery child killed after time-out: {}", log_tail(&rend.log));
        }
        if rend.code != Some(0) {
            // died: abort / panic outside catch_unwind
            let loc = panic_location_in_log(&rend.log).unwrap_or_else(|| "unknown".into());
            if rend.code == Some(3) {
                vfail!("harness:recovery-child", "{wher}: {:?} {}", rec.error, log_tail(&rend.log));
            }
            return Err(fail(Violation::new(
                format!("recovery:process-died:{loc}"),
                format!("{wher}: the recovering process died (exit {:?} signal {:?}): {}", rend.code, rend.signal, log_tail(&rend.log)),
            )));
        }
        if trace {
            trace_rec(&mv, &wher, &rec);
        }
        let mut judge = Judge { mv: &mv, order: &order, dry_fin: &dry_fin, known: &known, hits: vec![] };
        let info = judge.judge(&wher, &rec, last_q.as_deref(), &offered).map_err(fail)?;
        for h in &judge.hits {
            *st.known_hits.entry(h.clone()).or_insert(0) += if st.is_frozen() { 0 } else { 1 };
        }
        // labels + non-trivial rule
        let in_reorg = reorg_spans.iter().any(|(a, b)| n >= a && n <= b) && thread_of(*n) == "verify_blocks";
        st.label(&format!("crash-thread:{}", thread_of(*n)));
        if info.unverified_at_open {
            st.label("crash:between-insert-and-verification-commit");
        }
        if in_reorg {
            st.label("crash:at-verification-commit-of-reorg-depth>=2");
        }
        if info.gap_shape {
            st.label("open:connectable-unverified-block-above-height-without-one");
        }
        if info.orphan_above_stop {
            st.label("open:stored-orphan-above-height-without-unverified-block");
        }
        if info.tip_changed_in_recovery {
            st.label("recovery:tip-advanced-by-reverification");
        }
        for d in [&rec.r, &rec.s1, &rec.s2].into_iter().flatten() {
            if !d.stale_headers.is_empty() {
                // not a clause of this property (the stored state is right): evidence for C14
                st.label("observed:store-cache-answers-header-of-deleted-block");
                break;
            }
        }
        if let (Some(o), Some(r)) = (&rec.open, &rec.r) {
            let rejected = (0..o.facts.len()).any(|i| o.facts[i].stored && o.facts[i].ext.is_none() && !r.facts[i].stored);
            if rejected {
                st.label("recovery:unverified-block-rejected-and-deleted");
            }
            if let Some(s1) = &rec.s1 {
                if s1.tip != r.tip {
                    st.label("stage1:tip-advanced");
                }
            }
        }
        if info.unverified_at_open || in_reorg {
            st.nontrivial(&(serde_json::to_string(case).unwrap_or_default(), *n, *before));
            if st.want_sample() && (pi % 7 == 3) {
                st.sample(|| {
                    json!({"variant": case.variant, "deliveries": order.len(), "bursts": case.sched.bursts, "mode": case.sched.mode,
                        "commits": [first, last], "crash_at": format!("{n}:{phase}"), "thread": thread_of(*n),
                        "tip_at_open": mv.describe(&rec.open.as_ref().unwrap().tip),
                        "unverified_at_open": rec.open.as_ref().unwrap().facts.iter().enumerate().filter(|(_, f)| f.stored && f.ext.is_none()).map(|(i, _)| mv.block(i).number).collect::<Vec<_>>(),
                        "tip_after_recovery": mv.describe(&rec.r.as_ref().unwrap().tip),
                        "tip_final": mv.describe(&rec.s2.as_ref().unwrap().tip), "reorg_span": in_reorg})
                });
            }
        }
        let _ = std::fs::remove_dir_all(&dir);
        // ---- repeated crash: crash again during recovery, then recover
        if do_recrash {
            let rcommits = std::fs::read_to_string(&rlog).unwrap_or_default().lines().count() as u64;
            // commits of the recovery up to the end of stage 1 are the interesting ones
            let upto = rec.s1.as_ref().map(|d| d.commits).unwrap_or(rcommits).min(rcommits);
            if upto >= 1 {
                let sel = case.recrash_sel.get(pi % case.recrash_sel.len().max(1)).cloned().unwrap_or(0);
                let m = 1 + pick_idx(sel as u32, upto as usize) as u64;
                let ph2 = if sel & 1 == 0 { "before" } else { "after" };
                let wher2 = format!("{wher}, then crash of the recovering node at its commit {m}:{ph2} (of {upto})");
                let tag2 = format!("{tag}x");
                let mut xjob = base_job("recover", &dir2, &tag2);
                xjob.progress = cjob.progress.clone(); // offered blocks accumulate
                let xend = spawn_child(&xjob, &wp.join(format!("{tag2}.job")), &wp.join(format!("{tag2}.log")), None, Some(&format!("{m}:{ph2}")))?;
                st.eval("crash-during-recovery");
                let injected2 = xend.signal == Some(6) && xend.log.contains(ABORT_MARKER);
                if !injected2 && xend.code != Some(0) {
                    let loc = panic_location_in_log(&xend.log).unwrap_or_else(|| "unknown".into());
                    return Err(fail(Violation::new(
                        format!("recovery:process-died:{loc}"),
                        format!("{wher2}: the recovering process died (exit {:?} signal {:?}): {}", xend.code, xend.signal, log_tail(&xend.log)),
                    )));
                }
                if injected2 {
                    st.label("recrash:injected");
                } else {
                    st.label("recrash:not-reached");
                }
                let (offered2, _) = parse_progress(&cjob.progress);
                let mut yjob = base_job("recover", &dir2, &format!("{tag}y"));
                yjob.progress = cjob.progress.clone();
                let yend = spawn_child(&yjob, &wp.join(format!("{tag}y.job")), &wp.join(format!("{tag}y.log")), None, None)?;
                let rec2: RecOut = read_json(&yjob.out).unwrap_or_default();
                if yend.timed_out {
                    vfail!("harness:recovery-timeout", "{wher2}: second recovery killed after time-out");
                }
                if yend.code != Some(0) {
                    let loc = panic_location_in_log(&yend.log).unwrap_or_else(|| "unknown".into());
                    if yend.code == Some(3) {
                        vfail!("harness:recovery-child", "{wher2}: {:?} {}", rec2.error, log_tail(&yend.log));
                    }
                    return Err(fail(Violation::new(
                        format!("recovery:process-died:{loc}"),
                        format!("{wher2}: the second recovering process died (exit {:?} signal {:?}): {}", yend.code, yend.signal, log_tail(&yend.log)),
                    )));
                }
                if trace {
                    trace_rec(&mv, &wher2, &rec2);
                }
                let mut judge2 = Judge { mv: &mv, order: &order, dry_fin: &dry_fin, known: &known, hits: vec![] };
                // verified work that must survive: what the first crash run had reached
                let info2 = judge2.judge(&wher2, &rec2, last_q.as_deref(), &offered2).map_err(fail)?;
                for h in &judge2.hits {
                    *st.known_hits.entry(h.clone()).or_insert(0) += if st.is_frozen() { 0 } else { 1 };
                }
                if info2.unverified_at_open {
                    st.label("recrash:unverified-block-at-second-reopen");
                    st.nontrivial(&(serde_json::to_string(case).unwrap_or_default(), *n, *before, m, ph2));
                }
            }
            let _ = std::fs::remove_dir_all(&dir2);
        }
    }
    st.label_n("crash-points:of-histories-total", total_points as u64);
    Ok(())
}

fn run(ctx: &Ctx) {
    if let Ok(job) = std::env::var(ENV_JOB) {
        child_main(&job);
    }
    ctx.shrink_iters.set(ctx.tier.pick(10, 30));
    let budget = Budget {
        max_points: ctx.tier.pick(44, 160),
        recrash_every: ctx.tier.pick(6, 4),
    };
    let cases = ctx.cases(16, 120);
    let (lo, hi) = ctx.tier.pick((9, 22), (9, 39));
    ctx.run_prop("history-x-crash-points", cases, case_strategy(lo, hi), |c, st| prop(ctx, &budget, c, st));
    let cases = ctx.cases(8, 48);
    ctx.run_prop("fork-race-histories", cases, gap_case_strategy(), |c, st| prop(ctx, &budget, c, st));
}

fn replay(ctx: &Ctx, _sub: &str, v: &Value) -> Verdict {
    if let Ok(job) = std::env::var(ENV_JOB) {
        child_main(&job);
    }
    let c: Case = from_case(v)?;
    let budget = Budget { max_points: usize::MAX, recrash_every: 4 };
    let mut st = Stats::default();
    prop(ctx, &budget, &c, &mut st)
}
