//! C16 — bytes from peers can be rejected but never crash the node or forge a block.
//!
//! Sub-properties
//!   * `frame`    : `c16_bytes::target_frame` on generated frames (random bytes, valid / mutated /
//!                  mis-declared snappy, streams of length-delimited frames, frames around the 8 MiB
//!                  decompression bound).
//!   * `message`  : `c16_bytes::target_message` on random bytes, valid protocol messages built with
//!                  the packed builders, and structure-aware mutations of them.
//!   * `reconstruct` : `Relayer::reconstruct_block` on a real node, driven through the same
//!                  pre-checks as `CompactBlockProcess` / `BlockTransactionsProcess`
//!                  (`c16_recon`).
//!   * `relay-session` : the compact-block relay end to end through `CKBProtocolHandler::received` of
//!                  a real `Relayer` with a recording protocol context; valid blocks of the reference
//!                  model, honest and dishonest peers, availability changes between the rounds
//!                  (`c16_session`).
//!   * `sync-session` : the Sync protocol end to end through `CKBProtocolHandler::received` /
//!                  `notify` / `connected` / `disconnected` of a real `Synchronizer` with a recording
//!                  protocol context; model-built block tree, several fake peers, well-formed and
//!                  malformed messages, a fresh honest peer at the end (`c16_sync`).
//!   * `fuzz-artifact` : replay of a libFuzzer crash artifact (raw bytes) through the same target
//!                  functions; produced by the thorough tier's `cargo +nightly fuzz run` campaign
//!                  (see `/verif/check` and `/verif/fuzz`).
//!
//! Tiers: the quick tier is pure proptest on the stable toolchain (the cargo-fuzz build is a
//! second cold build of the whole dependency graph with the nightly compiler, > 2 min, so it is
//! kept out of the quick tier); it also writes a seed corpus for the fuzz targets under the work
//! directory.  The thorough tier additionally runs the two libFuzzer targets for a fixed number
//! of runs with `-seed=VERIF_SEED` (driver in `/verif/check`).
use crate::c16_bytes::{self, TYPES};
use crate::c16_gen::{self, ByteCase};
use crate::c16_recon;
use crate::c16_session;
use crate::c16_sync;
use crate::common::*;
use serde_json::{Value, json};

pub fn spec() -> CheckSpec {
    CheckSpec {
        id: "C16",
        level: "exploration",
        rule: "byte level: a case is one byte string given to target_frame or target_message; non-trivial = the bytes decode successfully for >=1 protocol type (message) / yield >=1 decoded or decompressed frame (frame); distinct = hash of the bytes. reconstruction: a case is one (block, compact block, pool content, uncle states, peer replies) scenario run through CompactBlockVerifier -> reconstruct_block -> BlockTransactionsVerifier/BlockUnclesVerifier -> reconstruct_block; non-trivial = >=1 same-hash-different-witness twin among the candidates or >=1 missing position; distinct = hash of the scenario. relay-session: a case is a model-built chain whose blocks from #3 on are relayed to a real node through Relayer::received (compact block, GetBlockTransactions/BlockTransactions rounds, several peers, honest / lying replies, tx-pool and uncle availability changing between rounds); a session = the relay of one block; non-trivial = the node had to send >=1 GetBlockTransactions; distinct = hash of (case, block index). sync-session: a case is a model-built block tree (main chain, lighter side branches, one block with a valid header and a wrong DAO field, one stored never-verified sibling), a real node holding the first 1-3 main blocks and a script of Sync protocol messages from 2-3 fake peers fed to Synchronizer::received / notify / connected / disconnected (GetHeaders, SendHeaders, GetBlocks, answers to the node's own GetBlocks, SendBlock, InIBD, raw / truncated / bit-flipped bytes), followed by a fresh honest peer that must bring the node to the main tip; non-trivial = >=2 peers, >=1 message drew a ban and later valid data moved the node's chain; distinct = hash of the case",
        assumptions: &[
            "handler pre-checks are mirrored, not re-verified: SendBlock/CompactBlock with more than one extra field, messages failing check_data(), alerts failing the utf-8 checks are dropped before the deeper accessors exactly as the handlers do; JSON conversions run only on values that satisfy the check_data() rules (their documented 'checked data' precondition)",
            "BlockTransactionsVerifier/BlockUnclesVerifier receive only in-range indexes (the node computes them itself)",
            "real 80-bit short-id collisions between different transactions cannot be generated; the collision class exercised is the same-hash-different-witness twin",
            "reconstruction runs on one node per worker process: tx-pool is cleared and uncle statuses are set explicitly at the start of every case; uncles use hashes derived from the case so earlier cases cannot interfere",
            "relay-session: local availability of a transaction = what TxPoolController::fetch_txs returns at the quiescent point right before the message (pool, conflict cache and recently committed cache are the pool's business); of an uncle = the check imported it (stored) or saw it enter the orphan pool; an uncle released from the orphan pool while the verify thread is held busy by a blocking verify callback counts as neither available nor unavailable; positions already requested from a peer may be requested again (documented merge of the previous miss); in a session in which a liar announced the genuine header with a tampered body every violation is attributed to that announcement (one signature per kind of change, five known findings) and the case ends there",
            "sync-session: all fake peers are inbound, non-whitelisted (get_peer() of the recording context returns None); the clock is frozen (faketime) right after the newest model block, so the node is out of IBD and no request times out; replies are collected after a rendezvous of all workers of the node's runtime (the handlers send from spawned tasks that never wait), repeated until a round logs nothing; a block counts as taken by the node iff it was sent while some connected peer had an open GetBlocks for it (unsolicited blocks are documented as ignored); which peers may be banned follows the handlers' own status codes (4xx: empty / oversized / genesis-less locator, non-continuous / oversized / unknown-parent / rule-breaking headers, GetBlocks with > MAX_HEADERS_LEN hashes, the genesis hash or a repeated hash, malformed bytes, extra fields, the invalid block), a too-new header timestamp and unsolicited / already stored / re-hashed (body changed, header re-derived) blocks are not punishable; GetBlocks must be answered for blocks that were ancestors of an observed tip, may be answered for delivered ancestors of the delivered invalid block (verified during the failed switch), never for anything else; the stop hash of GetHeaders may be included or not",
            "MAX_UNCOMPRESSED_LEN = 1<<23 and COMPRESSION_SIZE_THRESHOLD = 1024 are private constants of network/src/compress.rs, copied by value",
        ],
        workers: |_| 8,
        watchdog_s: |t| t.pick(900, 5400),
        run,
        replay,
    }
}

fn byte_prop(target: &'static str) -> impl Fn(&ByteCase, &mut Stats) -> Verdict {
    move |case: &ByteCase, st: &mut Stats| {
        let data = case.bytes();
        let origin = case.origin();
        st.label(&format!("{target}:origin:{}", origin_class(&origin)));
        match target {
            "frame" => {
                let fs = c16_bytes::target_frame(&data)?;
                if fs.decompress_ok {
                    st.label("frame:decompress-ok");
                }
                if fs.decompress_compressed_ok {
                    st.label("frame:decompress-ok:snappy");
                }
                if fs.frames_decoded > 0 {
                    st.label("frame:codec-yielded-frame");
                }
                if fs.compressed_frames_decoded > 0 {
                    st.label("frame:codec-yielded-frame:snappy");
                }
                if fs.codec_errors > 0 {
                    st.label("frame:codec-error");
                }
                if fs.over_bound_rejected {
                    st.label("frame:declared-above-bound-rejected");
                }
                if fs.decompress_ok || fs.frames_decoded > 0 {
                    st.nontrivial(&data);
                }
                // the decoded payloads are messages: feed them on
                Ok(())
            }
            _ => {
                let ms = c16_bytes::target_message(&data)?;
                for (i, t) in TYPES.iter().enumerate() {
                    if ms.decoded >> i & 1 == 1 {
                        st.label(&format!("message:decoded:{t}"));
                    }
                }
                for it in &ms.items {
                    st.label(&format!("message:item:{it}"));
                }
                for n in &ms.notes {
                    st.label(&format!("message:note:{n}"));
                }
                if ms.any() {
                    st.nontrivial(&data);
                    if origin.starts_with("mutated") {
                        st.label("message:mutated-still-decodes");
                    }
                    if st.samples.len() < 2 && st.want_sample() && origin.starts_with("mutated") {
                        st.sample(|| json!({"origin": origin, "len": data.len(), "decoded_as": ms.items, "hex": hex(&data[..data.len().min(96)])}));
                    }
                } else {
                    st.label("message:decodes-as-nothing");
                }
                Ok(())
            }
        }
    }
}

fn origin_class(o: &str) -> String {
    // keep the label table readable: first two components
    let mut it = o.split(':');
    let a = it.next().unwrap_or("");
    let b = it.next().unwrap_or("");
    let c = it.next().unwrap_or("");
    if a == "frame" || a == "sync" && b == "SendBlock" || a == "relay" && b == "CompactBlock" || a == "bundle" {
        format!("{a}:{b}:{c}")
    } else {
        format!("{a}:{b}")
    }
}

fn run(ctx: &Ctx) {
    c16_bytes::install_panic_capture();
    if ctx.worker == 0 {
        write_seed_corpus(ctx);
    }
    // development aid: VERIF_C16_SUB=<sub-check> runs that sub-check only
    let only = std::env::var("VERIF_C16_SUB").ok();
    let want = |sub: &str| only.as_deref().map(|o| o == sub).unwrap_or(true);
    if want("message") {
        let cases = ctx.cases(1_200_000, 8_000_000);
        ctx.run_prop("message", cases, c16_gen::message_case(), byte_prop("message"));
    }
    if want("frame") {
        let cases = ctx.cases(320_000, 2_400_000);
        ctx.run_prop("frame", cases, c16_gen::frame_case(), byte_prop("frame"));
    }
    if want("reconstruct") {
        let cases = ctx.cases(64_000, 400_000);
        c16_recon::run(ctx, cases);
    }
    if want("relay-session") {
        // relay sessions through the real protocol handler: one node per case, 1-5 relayed blocks each
        let cases = ctx.cases(800, 8000);
        c16_session::run(ctx, cases);
    }
    if want("sync-session") {
        // sync protocol sessions through the real Synchronizer: one node per case
        let cases = ctx.cases(320, 4000);
        c16_sync::run(ctx, cases);
    }
}

/// seed corpus for the libFuzzer targets, written under `$VERIF_WORK/../fuzz-corpus/<target>`
/// (scratch, git-ignored); `./check C16 thorough` passes these directories to `cargo fuzz run`.
fn write_seed_corpus(ctx: &Ctx) {
    let dir = match std::env::var_os("VERIF_FUZZ_CORPUS") {
        Some(d) => std::path::PathBuf::from(d),
        None => return,
    };
    for (target, name, bytes) in c16_gen::seed_corpus(ctx.seed, 160) {
        let d = dir.join(target);
        let _ = std::fs::create_dir_all(&d);
        let _ = std::fs::write(d.join(name), bytes);
    }
}

fn replay(ctx: &Ctx, sub: &str, v: &Value) -> Verdict {
    c16_bytes::install_panic_capture();
    let mut st = ctx.stats.borrow_mut();
    match sub {
        "frame" => {
            let c: ByteCase = from_case(v)?;
            byte_prop("frame")(&c, &mut st)
        }
        "message" => {
            let c: ByteCase = from_case(v)?;
            byte_prop("message")(&c, &mut st)
        }
        // a libFuzzer artifact: {"target": "frame"|"message", "hex": ".."} or {"target":..,"file": path}
        "fuzz-artifact" => {
            let target = v.get("target").and_then(|t| t.as_str()).unwrap_or("message");
            let data = if let Some(h) = v.get("hex").and_then(|h| h.as_str()) {
                let c: ByteCase = from_case(&json!({"Raw": {"origin": "fuzz", "data": h}}))?;
                c.bytes()
            } else if let Some(f) = v.get("file").and_then(|h| h.as_str()) {
                let p = std::path::Path::new(f);
                let p = if p.is_absolute() { p.to_path_buf() } else { verif_dir().join(p) };
                std::fs::read(&p).map_err(|e| Violation::new("replay-format", format!("{}: {e}", p.display())))?
            } else {
                return Err(Violation::new("replay-format", "fuzz-artifact needs hex or file"));
            };
            if target == "frame" {
                c16_bytes::target_frame(&data).map(|_| ())
            } else {
                c16_bytes::target_message(&data).map(|_| ())
            }
        }
        "relay-session" => c16_session::replay(v, &mut st),
        "sync-session" => c16_sync::replay(v, &mut st),
        _ => c16_recon::replay(v, &mut st),
    }
}
