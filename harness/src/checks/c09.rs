//! C09 — the freezer never loses or corrupts a frozen block, whatever crash interrupts it.
//!
//! Generator: operation histories over `FreezerFilesBuilder` (tiny file-size limits so roll-overs
//! are frequent) followed by a crash that cuts the head data file and the index file.
//! Oracle: a `Vec<Vec<u8>>` model of the item sequence.
//! Crash states: head data file and index file independently cut to lengths between their last
//! synced and final sizes (exhaustive product when small, boundaries ±1 otherwise), including a
//! missing / empty new head file.
use crate::common::*;
use crate::vfail;
use ckb_freezer::FreezerFilesBuilder;
use proptest::prelude::*;
use serde::{Deserialize, Serialize};
use serde_json::{Value, json};
use std::collections::BTreeMap;
use std::path::{Path, PathBuf};

pub fn spec() -> CheckSpec {
    CheckSpec {
        id: "C09",
        level: "fault_enumeration",
        rule: "proptest histories of append/truncate/retrieve/sync/reopen over FreezerFiles with max_file_size 24..200, then every crash state of the tail (head data file x index file cut independently to each length in [last synced, final], missing/empty head file; exhaustive product when <= 600 pairs, else all entry/item boundaries +-1 and a random sample) re-opened and compared with a Vec<Vec<u8>> model; a case is one (history, crash state); a creation family re-opens directories left by a crash during the freezer's creation (INDEX cut to every length 0..12, first data file absent or empty) and then appends / retrieves / re-opens; non-trivial = the cut lies strictly inside the un-synced tail (something must be repaired) ; distinct = hash of (config, ops, cut pair)",
        assumptions: &[
            "crash model of the property statement: process death leaves each of the two files written since the last sync at some byte prefix; no torn/garbage sectors, truncations are durable",
            "index entry layout (u32 LE file id, u64 LE end offset, 12 bytes) is read by the harness to locate the head file and to count fully written items",
        ],
        workers: |_| 8,
        watchdog_s: |t| t.pick(900, 3600),
        run,
        replay,
    }
}

#[derive(Clone, Debug, Serialize, Deserialize)]
pub enum Op {
    /// append the next item (size, fill byte seed)
    Append(u16, u8),
    /// append with a wrong number (must fail, no effect)
    AppendWrong(i8),
    Truncate(u16),
    Retrieve(u16),
    Sync,
    Reopen,
}

#[derive(Clone, Debug, Serialize, Deserialize)]
pub struct Case {
    pub max_file_size: u16,
    pub compression: bool,
    pub open_files_limit: u8,
    pub ops: Vec<Op>,
    /// random extra cut selectors (data, index) in 0..65536, used in addition to enumeration
    pub cuts: Vec<(u16, u16)>,
    /// ops to run after recovery
    pub after: Vec<Op>,
}

#[derive(Clone, Debug, Serialize, Deserialize)]
pub struct ReplayCase {
    pub case: Case,
    /// explicit crash state: None = head file removed
    pub data_len: Option<u64>,
    pub index_len: u64,
}

fn item_bytes(size: u16, seed: u8, n: usize) -> Vec<u8> {
    // mildly compressible but position-dependent content
    (0..size as usize)
        .map(|i| seed.wrapping_add((i / 3) as u8).wrapping_mul(31) ^ (n as u8))
        .collect()
}

fn op_strategy(max: u16) -> impl Strategy<Value = Op> {
    let big = max.saturating_mul(3).max(8);
    prop_oneof![
        6 => (0..=big, any::<u8>()).prop_map(|(s, b)| Op::Append(s, b)),
        3 => (0..=max / 2 + 1, any::<u8>()).prop_map(|(s, b)| Op::Append(s, b)),
        1 => (-2i8..=2).prop_map(Op::AppendWrong),
        1 => (0u16..40).prop_map(Op::Truncate),
        2 => (0u16..40).prop_map(Op::Retrieve),
        2 => Just(Op::Sync),
        1 => Just(Op::Reopen),
    ]
}

pub fn case_strategy() -> impl Strategy<Value = Case> {
    (24u16..200, any::<bool>(), 2u8..5).prop_flat_map(|(max, comp, lim)| {
        (
            proptest::collection::vec(op_strategy(max), 1..28),
            proptest::collection::vec((any::<u16>(), any::<u16>()), 0..4),
            proptest::collection::vec(op_strategy(max), 0..6),
        )
            .prop_map(move |(ops, cuts, after)| Case {
                max_file_size: max,
                compression: comp,
                open_files_limit: lim,
                ops,
                cuts,
                after,
            })
    })
}

fn file_name(id: u32) -> String {
    format!("blk{id:06}")
}

fn dir_sizes(dir: &Path) -> BTreeMap<String, u64> {
    let mut m = BTreeMap::new();
    if let Ok(rd) = std::fs::read_dir(dir) {
        for e in rd.flatten() {
            if let Ok(md) = e.metadata() {
                if md.is_file() {
                    m.insert(e.file_name().to_string_lossy().to_string(), md.len());
                }
            }
        }
    }
    m
}

fn read_index(dir: &Path) -> Vec<(u32, u64)> {
    let raw = std::fs::read(dir.join("INDEX")).unwrap_or_default();
    raw.chunks_exact(12)
        .map(|c| {
            (
                u32::from_le_bytes(c[0..4].try_into().unwrap()),
                u64::from_le_bytes(c[4..12].try_into().unwrap()),
            )
        })
        .collect()
}

fn copy_dir(from: &Path, to: &Path) {
    std::fs::create_dir_all(to).unwrap();
    for e in std::fs::read_dir(from).unwrap().flatten() {
        if e.metadata().map(|m| m.is_file()).unwrap_or(false) {
            std::fs::copy(e.path(), to.join(e.file_name())).unwrap();
        }
    }
}

fn set_len(p: &Path, len: u64) {
    let f = std::fs::OpenOptions::new().write(true).open(p).unwrap();
    f.set_len(len).unwrap();
}

macro_rules! open_files {
    ($case:expr, $dir:expr) => {{
        FreezerFilesBuilder::new($dir.to_path_buf())
            .max_file_size($case.max_file_size as u64)
            .enable_compression($case.compression)
            .open_files_limit($case.open_files_limit as usize)
            .build()
            .and_then(|mut f| f.preopen().map(|_| f))
    }};
}

/// Applies ops to the freezer and the model, comparing as it goes. `model[k-1]` is item k.
macro_rules! apply_ops {
    ($case:expr, $dir:expr, $fz:ident, $model:ident, $ops:expr, $synced:ident, $phase:expr) => {
        for (opi, op) in $ops.iter().enumerate() {
            match op {
                Op::Append(size, seed) => {
                    let n = $model.len() + 1;
                    let data = item_bytes(*size, *seed, n);
                    if let Err(e) = $fz.append(n as u64, &data) {
                        vfail!(
                            format!("{}:append-failed", $phase),
                            "op {opi}: append({n}, {} bytes) failed: {e}",
                            data.len()
                        );
                    }
                    $model.push(data);
                }
                Op::AppendWrong(d) => {
                    let n = ($model.len() as i64 + 1 + if *d == 0 { 7 } else { *d as i64 }).max(0) as u64;
                    if n as usize == $model.len() + 1 {
                        continue;
                    }
                    if $fz.append(n, b"x").is_ok() {
                        vfail!(
                            format!("{}:append-wrong-number-accepted", $phase),
                            "op {opi}: append({n}) accepted with {} items stored",
                            $model.len()
                        );
                    }
                }
                Op::Truncate(k) => {
                    let k = *k as u64;
                    if let Err(e) = $fz.truncate(k) {
                        vfail!(format!("{}:truncate-failed", $phase), "op {opi}: truncate({k}): {e}");
                    }
                    if k >= 1 && k + 1 < ($model.len() as u64 + 1) {
                        $model.truncate(k as usize);
                    }
                    // truncation is treated as durable (see assumptions)
                    $synced = clamp_synced(&$synced, &dir_sizes($dir));
                }
                Op::Retrieve(k) => {
                    let k = *k as u64;
                    let got = match $fz.retrieve(k) {
                        Ok(g) => g,
                        Err(e) => {
                            vfail!(format!("{}:retrieve-error", $phase), "op {opi}: retrieve({k}): {e}")
                        }
                    };
                    let want = if k >= 1 && (k as usize) <= $model.len() {
                        Some($model[k as usize - 1].clone())
                    } else {
                        None
                    };
                    if got != want {
                        vfail!(
                            format!("{}:retrieve-mismatch", $phase),
                            "op {opi}: retrieve({k}) = {:?}, model {:?} (items {})",
                            got.as_ref().map(|g| hex(&g[..g.len().min(16)])),
                            want.as_ref().map(|g| hex(&g[..g.len().min(16)])),
                            $model.len()
                        );
                    }
                }
                Op::Sync => {
                    if let Err(e) = $fz.sync_all() {
                        vfail!(format!("{}:sync-failed", $phase), "op {opi}: {e}");
                    }
                    $synced = dir_sizes($dir);
                }
                Op::Reopen => {
                    drop($fz);
                    $fz = match open_files!($case, $dir) {
                        Ok(f) => f,
                        Err(e) => vfail!(format!("{}:reopen-failed", $phase), "op {opi}: clean reopen: {e}"),
                    };
                    $synced = dir_sizes($dir);
                    if $fz.number() != $model.len() as u64 + 1 {
                        vfail!(
                            format!("{}:reopen-number", $phase),
                            "op {opi}: after clean reopen number()={} model items={}",
                            $fz.number(),
                            $model.len()
                        );
                    }
                }
            }
            if $fz.number() != $model.len() as u64 + 1 {
                vfail!(
                    format!("{}:number-mismatch", $phase),
                    "op {opi} {:?}: number()={} model items={}",
                    op,
                    $fz.number(),
                    $model.len()
                );
            }
        }
    };
}

fn clamp_synced(synced: &BTreeMap<String, u64>, now: &BTreeMap<String, u64>) -> BTreeMap<String, u64> {
    let mut m = BTreeMap::new();
    for (k, v) in synced {
        if let Some(n) = now.get(k) {
            m.insert(k.clone(), (*v).min(*n));
        }
    }
    m
}

struct Prepared {
    dir: tempfile::TempDir,
    model: Vec<Vec<u8>>,
    synced: BTreeMap<String, u64>,
}

/// Runs the pre-crash history (checking the model along the way).
fn prepare(case: &Case) -> Result<Prepared, Violation> {
    let tmp = scratch("vc09-");
    let dir = tmp.path().join("fz");
    let dirp: &Path = &dir;
    let mut model: Vec<Vec<u8>> = vec![];
    let mut fz = match open_files!(case, dirp) {
        Ok(f) => f,
        Err(e) => vfail!("pre:open-failed", "initial open: {e}"),
    };
    let mut synced = dir_sizes(dirp);
    apply_ops!(case, dirp, fz, model, case.ops, synced, "pre");
    drop(fz);
    Ok(Prepared {
        dir: tmp,
        model,
        synced,
    })
}

struct Tail {
    head_name: String,
    head_final: u64,
    /// None = head file did not exist at the last sync
    head_synced: Option<u64>,
    index_final: u64,
    index_synced: u64,
    entries: Vec<(u32, u64)>,
}

fn tail_of(p: &Prepared) -> Tail {
    let dir = p.dir.path().join("fz");
    let entries = read_index(&dir);
    let sizes = dir_sizes(&dir);
    let head_id = entries.last().map(|e| e.0).unwrap_or(0);
    let head_name = file_name(head_id);
    let head_final = *sizes.get(&head_name).unwrap_or(&0);
    let head_synced = p.synced.get(&head_name).copied().map(|s| s.min(head_final));
    let index_final = *sizes.get("INDEX").unwrap_or(&0);
    let index_synced = p
        .synced
        .get("INDEX")
        .copied()
        .unwrap_or(12)
        .min(index_final)
        .max(12.min(index_final));
    Tail {
        head_name,
        head_final,
        head_synced,
        index_final,
        index_synced,
        entries,
    }
}

/// items 1..=k fully written in a crash state
fn fully_written(t: &Tail, data_len: Option<u64>, index_len: u64) -> usize {
    let head_id = t.entries.last().map(|e| e.0).unwrap_or(0);
    let avail_entries = (index_len / 12) as usize; // includes entry 0
    let mut k = 0;
    for i in 1..t.entries.len() {
        if i >= avail_entries {
            break;
        }
        let (fid, off) = t.entries[i];
        let ok = if fid == head_id {
            data_len.map(|d| d >= off).unwrap_or(off == 0 && false)
        } else {
            true
        };
        if !ok {
            break;
        }
        k = i;
    }
    k
}

fn check_crash_state(
    case: &Case,
    p: &Prepared,
    t: &Tail,
    data_len: Option<u64>,
    index_len: u64,
    st: &mut Stats,
) -> Verdict {
    let src = p.dir.path().join("fz");
    let crash = p.dir.path().join("crash");
    let _ = std::fs::remove_dir_all(&crash);
    copy_dir(&src, &crash);
    match data_len {
        Some(l) => set_len(&crash.join(&t.head_name), l),
        None => {
            let _ = std::fs::remove_file(crash.join(&t.head_name));
        }
    }
    set_len(&crash.join("INDEX"), index_len);
    let must_keep = fully_written(t, data_len, index_len);
    let rollover_tail = t.head_synced.is_none();
    let needs_repair = data_len != Some(t.head_final) || index_len != t.index_final;
    if needs_repair {
        st.label("crash:needs-repair");
    }
    if rollover_tail {
        st.label("crash:head-file-created-after-last-sync");
    }
    if data_len.is_none() {
        st.label("crash:head-file-missing");
    } else if data_len == Some(0) && t.head_final > 0 {
        st.label("crash:head-file-empty");
    }
    if index_len % 12 != 0 {
        st.label("crash:index-cut-inside-entry");
    }
    // does the repair have to walk back across a data-file boundary?
    let head_id = t.entries.last().map(|e| e.0).unwrap_or(0);
    if must_keep >= 1 && must_keep < t.entries.len() && t.entries[must_keep].0 != head_id {
        st.label("crash:repair-crosses-file-boundary");
    }
    let dirp: &Path = &crash;
    let mut fz = match std::panic::catch_unwind(std::panic::AssertUnwindSafe(|| open_files!(case, dirp))) {
        Ok(Ok(f)) => f,
        Ok(Err(e)) => vfail!(
            "crash:reopen-failed",
            "reopen after crash state data={data_len:?} index={index_len}: {e}"
        ),
        Err(_) => vfail!(
            "crash:reopen-panicked",
            "reopen after crash state data={data_len:?} index={index_len} panicked"
        ),
    };
    let n = fz.number().saturating_sub(1) as usize;
    if n > p.model.len() {
        vfail!(
            "crash:invented-items",
            "recovered {n} items but only {} were ever appended",
            p.model.len()
        );
    }
    if n < must_keep {
        let crossed = must_keep < t.entries.len() && t.entries[must_keep].0 != head_id;
        let sig = if crossed {
            "crash:lost-fully-written-items:repair-crosses-file-boundary"
        } else {
            "crash:lost-fully-written-items"
        };
        vfail!(
            sig,
            "crash state data={data_len:?}/{} index={index_len}/{}: {must_keep} items were fully written but only {n} survive (head file {}, entries {:?})",
            t.head_final,
            t.index_final,
            t.head_name,
            &t.entries[t.entries.len().saturating_sub(4)..]
        );
    }
    for k in 1..=n {
        match fz.retrieve(k as u64) {
            Ok(Some(d)) if d == p.model[k - 1] => {}
            Ok(other) => vfail!(
                "crash:item-corrupted",
                "after recovery item {k}/{n} = {:?}, want {} bytes {}",
                other.as_ref().map(|g| (g.len(), hex(&g[..g.len().min(12)]))),
                p.model[k - 1].len(),
                hex(&p.model[k - 1][..p.model[k - 1].len().min(12)])
            ),
            Err(e) => vfail!("crash:item-unreadable", "after recovery retrieve({k}) of {n}: {e}"),
        }
    }
    match fz.retrieve(n as u64 + 1) {
        Ok(None) => {}
        other => vfail!(
            "crash:phantom-item",
            "retrieve(n+1={}) = {:?}",
            n + 1,
            other.map(|o| o.map(|v| v.len()))
        ),
    }
    // the prefix stays usable: further ops behave per the model
    let mut model: Vec<Vec<u8>> = p.model[..n].to_vec();
    let mut synced = dir_sizes(dirp);
    // always append at least two items that force a roll-over after recovery
    let mut after = case.after.clone();
    after.push(Op::Append(case.max_file_size / 2 + 1, 0xa5));
    after.push(Op::Append(case.max_file_size / 2 + 1, 0x5a));
    after.push(Op::Append(3, 0x11));
    apply_ops!(case, dirp, fz, model, after, synced, "post");
    let _ = &synced;
    drop(fz);
    // repair is idempotent / second reopen sees everything
    let mut fz = match open_files!(case, dirp) {
        Ok(f) => f,
        Err(e) => vfail!("post:second-reopen-failed", "{e}"),
    };
    if fz.number() != model.len() as u64 + 1 {
        vfail!(
            "post:second-reopen-number",
            "number()={} model={}",
            fz.number(),
            model.len()
        );
    }
    for k in 1..=model.len() {
        match fz.retrieve(k as u64) {
            Ok(Some(d)) if d == model[k - 1] => {}
            Ok(other) => vfail!(
                "post:item-mismatch",
                "after recovery+appends+reopen item {k}/{} = {:?} want len {}",
                model.len(),
                other.as_ref().map(|g| g.len()),
                model[k - 1].len()
            ),
            Err(e) => vfail!("post:item-unreadable", "retrieve({k}): {e}"),
        }
    }
    Ok(())
}

// ------------------------------------------------------------------------------------------------
// crash while the freezer is being created: the very first write (the 12-byte zero entry of the
// index) is cut short, the first data file may or may not exist yet

#[derive(Clone, Debug, Serialize, Deserialize)]
pub struct CreationCase {
    pub case: Case,
    /// length the index file was left with (0..=12; 12 = creation completed)
    pub index_len: u8,
    /// 0 = no data file yet, 1 = empty first data file
    pub head_state: u8,
}

fn creation_strategy() -> impl Strategy<Value = CreationCase> {
    (case_strategy(), 0u8..=12, 0u8..2).prop_map(|(mut case, index_len, head_state)| {
        case.ops.clear();
        case.cuts.clear();
        CreationCase { case, index_len, head_state }
    })
}

fn creation_prop(c: &CreationCase, st: &mut Stats) -> Verdict {
    let case = &c.case;
    let tmp = scratch("vc09c-");
    let dir = tmp.path().join("fz");
    let dirp: &Path = &dir;
    std::fs::create_dir_all(dirp).unwrap();
    // a partial write of the all-zero first entry
    std::fs::write(dirp.join("INDEX"), vec![0u8; c.index_len as usize]).unwrap();
    if c.head_state == 1 {
        std::fs::write(dirp.join(file_name(0)), b"").unwrap();
    }
    st.label(&format!("creation:index-len-{}", if c.index_len == 0 { "0" } else if c.index_len < 12 { "1..11" } else { "12" }));
    if c.index_len > 0 && c.index_len < 12 {
        st.nontrivial(&serde_json::to_string(c).unwrap_or_default());
    }
    if st.want_sample() {
        st.sample(|| json!({"creation": {"index_len": c.index_len, "head_state": c.head_state, "after": case.after}}));
    }
    let mut fz = match open_files!(case, dirp) {
        Ok(f) => f,
        Err(e) => vfail!(
            "creation:reopen-failed",
            "freezer directory left by a crash during creation (INDEX {} bytes, first data file {}) cannot be opened: {e}",
            c.index_len,
            if c.head_state == 1 { "empty" } else { "absent" }
        ),
    };
    if fz.number() != 1 {
        vfail!("creation:number", "number()={} for a freezer that never stored an item", fz.number());
    }
    let mut model: Vec<Vec<u8>> = vec![];
    let mut synced = dir_sizes(dirp);
    let mut after = case.after.clone();
    after.push(Op::Append(case.max_file_size / 2 + 1, 0xa5));
    after.push(Op::Append(case.max_file_size / 2 + 1, 0x5a));
    after.push(Op::Retrieve(1));
    after.push(Op::Reopen);
    after.push(Op::Retrieve(2));
    apply_ops!(case, dirp, fz, model, after, synced, "creation");
    let _ = &synced;
    Ok(())
}

/// enumerate the crash states for a prepared history
fn crash_states(t: &Tail, cuts: &[(u16, u16)]) -> (Vec<(Option<u64>, u64)>, bool) {
    let d_lo = t.head_synced.unwrap_or(0);
    let d_hi = t.head_final;
    let i_lo = t.index_synced;
    let i_hi = t.index_final;
    let dn = d_hi - d_lo + 1;
    let inn = i_hi - i_lo + 1;
    let mut datas: Vec<Option<u64>> = vec![];
    let mut idxs: Vec<u64> = vec![];
    let exhaustive = dn * inn <= 600;
    if exhaustive {
        datas.extend((d_lo..=d_hi).map(Some));
        idxs.extend(i_lo..=i_hi);
    } else {
        // boundaries: every item end offset in the head file +-1, synced, final
        let head_id = t.entries.last().map(|e| e.0).unwrap_or(0);
        let mut ds = vec![d_lo, d_lo + 1, d_hi, d_hi.saturating_sub(1)];
        for (fid, off) in &t.entries {
            if *fid == head_id {
                ds.extend([off.saturating_sub(1), *off, off + 1]);
            }
        }
        for (a, _) in cuts {
            ds.push(d_lo + ((*a as u64 * dn) >> 16));
        }
        ds.retain(|d| *d >= d_lo && *d <= d_hi);
        ds.sort();
        ds.dedup();
        datas.extend(ds.into_iter().map(Some));
        let mut is = vec![i_lo, i_hi];
        let mut e = i_lo - i_lo % 12;
        while e <= i_hi {
            is.extend([e.saturating_sub(1), e, e + 1, e + 5]);
            e += 12;
        }
        for (_, b) in cuts {
            is.push(i_lo + ((*b as u64 * inn) >> 16));
        }
        is.retain(|i| *i >= i_lo && *i <= i_hi);
        is.sort();
        is.dedup();
        // keep it bounded
        if is.len() > 40 {
            let keep_tail = is.split_off(is.len() - 30);
            is.truncate(10);
            is.extend(keep_tail);
        }
        idxs = is;
    }
    if t.head_synced.is_none() {
        datas.insert(0, None);
    }
    let mut v = vec![];
    for d in &datas {
        for i in &idxs {
            v.push((*d, *i));
        }
    }
    (v, exhaustive)
}

fn prop(case: &Case, st: &mut Stats) -> Verdict {
    let p = prepare(case)?;
    let t = tail_of(&p);
    let (states, exhaustive) = crash_states(&t, &case.cuts);
    if exhaustive {
        st.label("history:crash-states-exhaustive");
    } else {
        st.label("history:crash-states-boundary+random");
    }
    let files = dir_sizes(&p.dir.path().join("fz")).len();
    if files > 2 {
        st.label("history:multi-file");
    }
    if case.ops.iter().any(|o| matches!(o, Op::Truncate(_))) {
        st.label("history:has-truncate");
    }
    st.label_n("crash-states", states.len() as u64);
    // one history counts as one evaluation already (run_prop); each crash state is a further one
    st.eval_n("crash-state", states.len() as u64);
    for (d, i) in states {
        let inside = d != Some(t.head_final) || i != t.index_final;
        if inside {
            st.nontrivial(&(
                case.max_file_size,
                case.compression,
                serde_json::to_string(&case.ops).unwrap(),
                d,
                i,
            ));
        }
        if st.want_sample() && inside && files > 2 {
            let ops = case.ops.clone();
            st.sample(|| {
                json!({"max_file_size": case.max_file_size, "compression": case.compression,
                   "ops": ops, "head_file": t.head_name, "head_final": t.head_final, "head_synced": t.head_synced,
                   "index_final": t.index_final, "index_synced": t.index_synced,
                   "crash_state": {"data_len": d, "index_len": i}})
            });
        }
        if let Err(mut v) = check_crash_state(case, &p, &t, d, i, st) {
            v.detail = format!("[crash state data_len={d:?} index_len={i}] {}", v.detail);
            return Err(v);
        }
    }
    Ok(())
}

fn replay_case(rc: &ReplayCase, st: &mut Stats) -> Verdict {
    let p = prepare(&rc.case)?;
    let t = tail_of(&p);
    check_crash_state(&rc.case, &p, &t, rc.data_len, rc.index_len, st)
}

fn run(ctx: &Ctx) {
    let cases = ctx.cases(1600, 48000);
    ctx.run_prop("history", cases, case_strategy(), prop);
    // directed family: a roll-over right before the crash (the shape the repair loop's
    // "slipped back into an earlier head-file" branch exists for), all sizes
    let cases = ctx.cases(400, 12000);
    ctx.run_prop("rollover", cases, rollover_strategy(), prop);
    // crash during creation: every length of the cut first index entry
    let cases = ctx.cases(640, 6400);
    ctx.run_prop("creation", cases, creation_strategy(), creation_prop);
}

/// histories that end with un-synced appends crossing a roll-over
fn rollover_strategy() -> impl Strategy<Value = Case> {
    (24u16..120, any::<bool>(), 2u8..5).prop_flat_map(|(max, comp, lim)| {
        (
            proptest::collection::vec((1..=max, any::<u8>()), 1..8),
            proptest::collection::vec((1..=max, any::<u8>()), 1..4),
            any::<bool>(),
            proptest::collection::vec(op_strategy(max), 0..4),
        )
            .prop_map(move |(pre, post, reopen, after)| {
                let mut ops: Vec<Op> = pre.into_iter().map(|(s, b)| Op::Append(s, b)).collect();
                ops.push(if reopen { Op::Reopen } else { Op::Sync });
                // fill the file so the next append rolls over
                ops.push(Op::Append(max, 0x77));
                ops.extend(post.into_iter().map(|(s, b)| Op::Append(s, b)));
                Case {
                    max_file_size: max,
                    compression: comp,
                    open_files_limit: lim,
                    ops,
                    cuts: vec![],
                    after,
                }
            })
    })
}

fn replay(ctx: &Ctx, sub: &str, v: &Value) -> Verdict {
    let mut st = ctx.stats.borrow_mut();
    match sub {
        "creation" => {
            let c: CreationCase = from_case(v)?;
            creation_prop(&c, &mut st)
        }
        "crash-state" => {
            let rc: ReplayCase = from_case(v)?;
            replay_case(&rc, &mut st)
        }
        _ => {
            let c: Case = from_case(v)?;
            prop(&c, &mut st)
        }
    }
}

#[allow(dead_code)]
fn _unused(_: PathBuf) {}
