//! C17 part 6 (`fetch`): the in-flight table as the node uses it.
//!
//! A real node (temp DB, chain service with full verification, `SyncShared`, `Synchronizer`) and a
//! few fake peers.  The block tree (several branches, model-built valid blocks) is generated; the
//! schedule announces headers (real `SendHeaders` handler), asks `BlockFetcher::fetch` what to
//! request from a peer (`Synchronizer::get_blocks_to_fetch`, both modes), delivers requested blocks
//! (real `SendBlock` handler -> chain service), disconnects peers, moves the clock, prunes
//! (`InflightBlocks::prune`, as `find_blocks_to_fetch` does first) and spills the header map.
//!
//! Oracle: plain sets over the harness's own tree (announced / received / stored / in flight from
//! whom since when / best header of each peer) and parent walks.
use crate::c16_session::Net;
use crate::common::*;
use crate::model::*;
use crate::node::{Env, SpecCfg, build_env};
use crate::{vensure, vfail};
use ckb_app_config::SyncConfig;
use ckb_chain::{ChainController, ChainServiceScope, LonelyBlock};
use ckb_constant::sync::{BLOCK_DOWNLOAD_TIMEOUT, INIT_BLOCKS_IN_TRANSIT_PER_PEER, MAX_BLOCKS_IN_TRANSIT_PER_PEER};
use ckb_network::{CKBProtocolContext, CKBProtocolHandler, PeerIndex};
use ckb_shared::block_status::BlockStatus;
use ckb_shared::{Shared, SharedBuilder};
use ckb_sync::verif as sync_verif;
use ckb_sync::{SyncShared, Synchronizer};
use ckb_types::packed::{self, Byte32};
use ckb_types::prelude::*;
use ckb_types::{BlockNumberAndHash, U256};
use proptest::prelude::*;
use serde::{Deserialize, Serialize};
use serde_json::{Value, json};
use std::collections::{BTreeMap, BTreeSet, HashMap};
use std::panic::{AssertUnwindSafe, catch_unwind};
use std::sync::{Arc, mpsc};
use std::time::Duration;

#[derive(Clone, Debug, Serialize, Deserialize, PartialEq, Eq, Hash)]
pub enum FOp {
    /// the peer sends the headers of the path to tree node `node` (connects first if needed)
    Announce { peer: u8, node: u16 },
    /// `get_blocks_to_fetch(peer, ibd)`
    Fetch { peer: u8, ibd: bool },
    /// up to `count` blocks in flight from `peer` arrive (SendBlock), from the `sel`-th lowest on,
    /// lowest first or highest first; `by` = the peer that sends them (None: the asked peer)
    Deliver { peer: u8, sel: u16, count: u8, highest_first: bool, by: Option<u8> },
    /// SendBlock for an arbitrary tree node (requested or not)
    Unrequested { peer: u8, node: u16 },
    Disconnect { peer: u8 },
    /// advance the fake clock (ms)
    Advance(u32),
    /// `prune(unverified tip)`; peers it reports are disconnected
    Prune,
    /// header map `limit_memory` now
    Spill,
}

#[derive(Clone, Debug, Serialize, Deserialize, Hash)]
pub struct FetchCase {
    /// parent of tree node i+1 (node 0 = genesis); parents[i] <= i
    pub parents: Vec<u16>,
    /// nodes 1..=pre_stored are imported before the schedule starts (if their parent is stored)
    pub pre_stored: u16,
    pub peers: u8,
    /// header map memory limit in items (0 = default 256 MB)
    pub hm_limit: u8,
    pub ops: Vec<FOp>,
}

const T0_SLACK: u64 = 10_000;

fn env() -> &'static Env {
    static E: std::sync::OnceLock<Env> = std::sync::OnceLock::new();
    E.get_or_init(|| build_env(&SpecCfg { genesis_epoch_length: 400, ..Default::default() }))
}

fn runtime() -> &'static tokio::runtime::Runtime {
    // multi-thread flavour: the SendHeaders handler uses block_in_place
    static RT: std::sync::OnceLock<tokio::runtime::Runtime> = std::sync::OnceLock::new();
    RT.get_or_init(|| {
        tokio::runtime::Builder::new_multi_thread()
            .worker_threads(1)
            .enable_all()
            .build()
            .expect("tokio runtime")
    })
}

struct TempDbGuard(std::path::PathBuf);

impl Drop for TempDbGuard {
    fn drop(&mut self) {
        let _ = std::fs::remove_dir_all(&self.0);
    }
}

/// the harness's own view
struct M {
    parent: Vec<usize>,
    number: Vec<u64>,
    td: Vec<U256>,
    hash: Vec<Byte32>,
    index_of: HashMap<Byte32, usize>,
    announced: Vec<bool>,
    received: Vec<bool>,
    stored: Vec<bool>,
    /// node -> (peer, request time)
    inflight: BTreeMap<usize, (u8, u64)>,
    best: Vec<Option<usize>>,
    connected: Vec<bool>,
}

impl M {
    fn path(&self, mut i: usize) -> Vec<usize> {
        let mut p = vec![];
        while i != 0 {
            p.push(i);
            i = self.parent[i];
        }
        p.reverse();
        p
    }
    fn is_anc(&self, a: usize, mut b: usize) -> bool {
        while self.number[b] > self.number[a] {
            b = self.parent[b];
        }
        a == b
    }
    fn key(&self, i: usize) -> BlockNumberAndHash {
        BlockNumberAndHash::new(self.number[i], self.hash[i].clone())
    }
    /// blocks the node lacks and has not asked anybody for
    fn missing(&self, i: usize) -> bool {
        !self.stored[i] && !self.received[i] && !self.inflight.contains_key(&i)
    }
    fn close_stored(&mut self) -> usize {
        // a received block is stored as soon as its parent is
        let mut newly = 0;
        for i in 1..self.parent.len() {
            if self.received[i] && !self.stored[i] && self.stored[self.parent[i]] {
                self.stored[i] = true;
                newly += 1;
            }
        }
        newly
    }
}

struct World<'a> {
    shared: &'a Shared,
    sync_shared: &'a Arc<SyncShared>,
    chain: &'a ChainController,
    net: &'a Arc<Net>,
    blocks: &'a [ckb_types::core::BlockView],
}

impl World<'_> {
    fn nc(&self) -> Arc<dyn CKBProtocolContext + Sync> {
        self.net.clone()
    }

    /// FIFO barrier through the chain service threads: re-deliver a verified block, twice
    fn barrier(&self) -> Verdict {
        for _ in 0..2 {
            let (tx, rx) = mpsc::channel();
            self.chain.asynchronous_process_lonely_block(LonelyBlock {
                block: Arc::new(self.blocks[1].clone()),
                switch: None,
                verify_callback: Some(Box::new(move |_| {
                    let _ = tx.send(());
                })),
            });
            if rx.recv_timeout(Duration::from_secs(60)).is_err() {
                node_panic_violation()?;
                return Err(Violation::new("harness:barrier-timeout", "barrier block callback did not fire in 60 s"));
            }
        }
        Ok(())
    }

    /// the in-flight table against the model, plus the table's own invariants
    fn check_table(&self, m: &M, op: &str, k: usize) -> Verdict {
        let real = self.sync_shared.state().read_inflight_blocks();
        let mut owner: BTreeMap<usize, u8> = BTreeMap::new();
        for (peer, set) in real.blocks_iter() {
            let p = peer.value() as u8;
            if set.len() > MAX_BLOCKS_IN_TRANSIT_PER_PEER {
                vfail!(
                    format!("fetch:{op}:per-peer-limit-exceeded"),
                    "after op {k}: peer {p} has {} blocks in flight (MAX_BLOCKS_IN_TRANSIT_PER_PEER = {MAX_BLOCKS_IN_TRANSIT_PER_PEER})",
                    set.len()
                );
            }
            for b in set {
                let Some(&i) = m.index_of.get(&b.hash()) else {
                    vfail!(format!("fetch:{op}:listed-unknown-block"), "after op {k}: peer {p} lists a block outside the tree");
                };
                if let Some(q) = owner.insert(i, p) {
                    vfail!(format!("fetch:{op}:two-peers"), "after op {k}: node {i} is listed under peers {q} and {p}");
                }
                match real.inflight_state_by_block(b) {
                    None => vfail!(
                        format!("fetch:{op}:listed-not-in-flight"),
                        "after op {k}: node {i} is listed under peer {p} but has no in-flight state"
                    ),
                    Some(s) => {
                        let sp = sync_verif::inflight_state_peer(s).value() as u8;
                        if sp != p {
                            vfail!(
                                format!("fetch:{op}:listed-under-wrong-peer"),
                                "after op {k}: node {i} is listed under peer {p} but in flight from {sp}"
                            );
                        }
                    }
                }
            }
        }
        for i in 1..m.parent.len() {
            let got = real
                .inflight_state_by_block(&m.key(i))
                .map(|s| (sync_verif::inflight_state_peer(s).value() as u8, sync_verif::inflight_state_timestamp(s)));
            let want = m.inflight.get(&i).copied();
            if got != want {
                let kind = match (got, want) {
                    (None, Some(_)) => "released-unaffected-entry",
                    (Some(_), None) => "kept-affected-entry",
                    _ => "entry-changed",
                };
                vfail!(
                    format!("fetch:{op}:{kind}"),
                    "after op {k}: node {i} (number {}): table has (peer, since) {got:?}, model {want:?}",
                    m.number[i]
                );
            }
        }
        if real.total_inflight_count() != m.inflight.len() {
            vfail!(
                format!("fetch:{op}:total-count"),
                "after op {k}: total_inflight_count {} but {} tree blocks are in flight",
                real.total_inflight_count(),
                m.inflight.len()
            );
        }
        for (b, (p, _)) in &m.inflight {
            if owner.get(b) != Some(p) {
                vfail!(
                    format!("fetch:{op}:entry-not-listed-under-its-peer"),
                    "after op {k}: node {b} is in flight from peer {p} but listed under {:?}",
                    owner.get(b)
                );
            }
        }
        Ok(())
    }

    /// block status of every tree node against announced / received / stored
    fn check_status(&self, m: &M, op: &str, k: usize) -> Verdict {
        for i in 1..m.parent.len() {
            let s = self.shared.get_block_status(&m.hash[i]);
            let (ok, want) = if m.stored[i] {
                (s.contains(BlockStatus::BLOCK_STORED) && !s.contains(BlockStatus::BLOCK_INVALID), "stored")
            } else if m.received[i] {
                (s == BlockStatus::BLOCK_RECEIVED, "received, waiting for its parent")
            } else if m.announced[i] {
                (s == BlockStatus::HEADER_VALID, "header known")
            } else {
                (s == BlockStatus::UNKNOWN, "unknown")
            };
            if !ok {
                vfail!(
                    format!("fetch:status:{op}:{}", want.split(',').next().unwrap().replace(' ', "-")),
                    "after op {k}: node {i} (number {}) has status {s:?}, model says {want}",
                    m.number[i]
                );
            }
        }
        Ok(())
    }
}

fn sync_config(hm_limit: u8) -> Result<SyncConfig, Violation> {
    if hm_limit == 0 {
        return Ok(SyncConfig::default());
    }
    let bytes = hm_limit as usize * std::mem::size_of::<ckb_shared::types::HeaderIndexView>();
    serde_json::from_value::<SyncConfig>(json!({"header_map": {"memory_limit": bytes}}))
        .map_err(|e| Violation::new("harness:sync-config", format!("{e}")))
}

fn exec(case: &FetchCase, st: &mut Stats) -> Verdict {
    let env = env();
    let n = case.parents.len() + 1;
    vensure!(n >= 3 && n <= 400, "replay-format", "tree size out of range");
    vensure!(case.peers >= 1 && case.peers <= 8, "replay-format", "peers out of range");
    for (i, p) in case.parents.iter().enumerate() {
        vensure!(*p as usize <= i, "replay-format", "parent of node {} must precede it", i + 1);
    }
    // ---- the tree (model-built valid blocks)
    let mut tree = Tree::new(env.consensus.clone());
    let mut m = M {
        parent: vec![0],
        number: vec![0],
        td: vec![tree.get(&tree.genesis.clone()).td.clone()],
        hash: vec![tree.genesis.clone()],
        index_of: HashMap::new(),
        announced: vec![true; n],
        received: vec![false; n],
        stored: vec![false; n],
        inflight: BTreeMap::new(),
        best: vec![None; case.peers as usize],
        connected: vec![false; case.peers as usize],
    };
    m.announced.iter_mut().skip(1).for_each(|a| *a = false);
    m.stored[0] = true;
    let mut blocks = vec![tree.get(&tree.genesis.clone()).block.clone()];
    let mut max_ts = blocks[0].timestamp();
    for i in 1..n {
        let p = case.parents[i - 1] as usize;
        let ph = m.hash[p].clone();
        let spec = BlockSpec {
            timestamp: tree.get(&ph).block.timestamp() + 1 + (i as u64 % 3),
            miner_lock: Some(env.always_success_lock.clone()),
            message: (i as u32).to_le_bytes().to_vec(),
            nonce: i as u128,
            ..Default::default()
        };
        let mb = tree
            .build(&ph, &spec, &BuildOpts { use_node_reward_quirk: true, ..Default::default() })
            .map_err(|e| Violation::new("harness:model-build", e))?;
        max_ts = max_ts.max(mb.block.timestamp());
        m.parent.push(p);
        m.number.push(mb.number);
        m.td.push(mb.td.clone());
        m.hash.push(mb.hash.clone());
        blocks.push(mb.block.clone());
        tree.insert(mb);
    }
    m.index_of = m.hash.iter().enumerate().map(|(i, h)| (h.clone(), i)).collect();
    vensure!(m.index_of.len() == n, "harness:model-build", "duplicate block hash generated");

    // ---- the node
    let clock = ckb_systemtime::faketime();
    let mut now = max_ts + T0_SLACK;
    clock.set_faketime(now);
    let (shared, mut pack) = SharedBuilder::with_temp_db()
        .consensus((*env.consensus).clone())
        .sync_config(sync_config(case.hm_limit)?)
        .build()
        .map_err(|e| Violation::new("harness:node-start", format!("SharedBuilder: {e:?}")))?;
    let _db_guard = TempDbGuard(shared.store().db().inner().path().to_path_buf());
    let chain_scope = ChainServiceScope::new(pack.take_chain_services_builder());
    let chain = chain_scope.chain_controller().clone();
    let sync_shared = Arc::new(SyncShared::new(shared.clone(), sync_config(case.hm_limit)?, pack.take_relay_tx_receiver()));
    let mut sync = Synchronizer::new(chain.clone(), sync_shared.clone());
    let net = Net::recording(shared.async_handle().clone());
    let rt = runtime();
    for i in 1..n.min(case.pre_stored.max(1) as usize + 1) {
        if !m.stored[m.parent[i]] {
            continue;
        }
        chain
            .blocking_process_block(Arc::new(blocks[i].clone()))
            .map_err(|e| Violation::new("harness:pre-store", format!("node {i}: {e}")))?;
        m.stored[i] = true;
        m.received[i] = true;
        m.announced[i] = true;
    }
    let w = World { shared: &shared, sync_shared: &sync_shared, chain: &chain, net: &net, blocks: &blocks };
    w.barrier()?;

    let mut labels: BTreeSet<&'static str> = BTreeSet::new();
    let mut skipped_other = false;
    let mut forked_peers_shared_gap = false;
    let mut last_tip = shared.snapshot().tip_hash();

    for (k, op) in case.ops.iter().enumerate() {
        let opname;
        match op {
            FOp::Announce { peer, node } => {
                opname = "announce";
                let p = *peer as usize;
                vensure!(p < m.best.len(), "replay-format", "peer index");
                let target = (*node as usize) % n;
                if target == 0 {
                    continue;
                }
                let pi: PeerIndex = p.into();
                if !m.connected[p] {
                    rt.block_on(sync.connected(w.nc(), pi, "3"));
                    m.connected[p] = true;
                    labels.insert("fetch/peer-connected");
                }
                // headers from the first one the node cannot know yet (its parent is known) on
                let path = m.path(target);
                let first_new = path.iter().position(|i| !m.announced[*i]).unwrap_or(path.len() - 1);
                let headers: Vec<packed::Header> = path[first_new..].iter().map(|i| blocks[*i].header().data()).collect();
                let content = packed::SendHeaders::new_builder().headers(headers).build();
                let msg = packed::SyncMessage::new_builder().set(content).build();
                let before = net.ban_reasons().len();
                rt.block_on(sync.received(w.nc(), pi, msg.as_bytes()));
                let bans = net.ban_reasons();
                if bans.len() > before {
                    vfail!("fetch:announce:valid-headers-refused", "op {k}: headers up to node {target} from peer {p}: {:?}", &bans[before..]);
                }
                for i in &path[first_new..] {
                    m.announced[*i] = true;
                }
                let old = m.best[p];
                let better = old.map(|o| m.td[target] > m.td[o]).unwrap_or(true);
                if better {
                    m.best[p] = Some(target);
                    if old.map(|o| !m.is_anc(o, target)).unwrap_or(false) {
                        labels.insert("fetch/peer-switched-branch");
                    }
                } else {
                    labels.insert("fetch/announce-not-better");
                }
                let got = sync_shared.state().peers().get_best_known_header(pi).map(|h| h.hash());
                let want = m.best[p].map(|i| m.hash[i].clone());
                if got != want {
                    vfail!(
                        "fetch:announce:best-known-header",
                        "op {k}: after the headers up to node {target} peer {p}'s best known header is node {:?}, model says node {:?} (before: {old:?})",
                        got.as_ref().and_then(|h| m.index_of.get(h)),
                        m.best[p]
                    );
                }
            }
            FOp::Fetch { peer, ibd } => {
                opname = if *ibd { "fetch-ibd" } else { "fetch" };
                let p = *peer as usize;
                vensure!(p < m.best.len(), "replay-format", "peer index");
                let pi: PeerIndex = p.into();
                let can_fetch = sync_shared.state().read_inflight_blocks().peer_can_fetch_count(pi);
                let snap = shared.snapshot();
                let Some(&tip) = m.index_of.get(&snap.tip_hash()) else {
                    vfail!("fetch:tip-outside-tree", "op {k}: the node's tip is no tree block");
                };
                let utip = shared.get_unverified_tip();
                let Some(&utip_i) = m.index_of.get(&utip.hash()) else {
                    vfail!("fetch:tip-outside-tree", "op {k}: the node's unverified tip is no tree block");
                };
                drop(snap);
                let ibd_flag = *ibd;
                let r = catch_unwind(AssertUnwindSafe(|| sync.get_blocks_to_fetch(pi, ibd_flag.into())))
                    .map_err(|_| Violation::new(format!("fetch:{opname}:panic"), format!("op {k}: get_blocks_to_fetch(peer {p}) panicked")))?;
                let none = r.is_none();
                let chunks = r.unwrap_or_default();
                for c in &chunks {
                    if c.is_empty() || c.len() > INIT_BLOCKS_IN_TRANSIT_PER_PEER {
                        vfail!(format!("fetch:{opname}:batch-size"), "op {k}: a request batch of {} hashes", c.len());
                    }
                }
                let mut got: Vec<usize> = vec![];
                for h in chunks.iter().flatten() {
                    let Some(&i) = m.index_of.get(h) else {
                        vfail!(format!("fetch:{opname}:unknown-block"), "op {k}: peer {p} is asked for a hash outside the tree");
                    };
                    got.push(i);
                }
                // --- what may / must be asked
                let best = if m.connected[p] { m.best[p] } else { None };
                let mut want: Vec<usize> = vec![];
                let mut exact = true;
                let mut why_none = "";
                let mut in_flight_elsewhere = 0usize;
                match best {
                    None => why_none = "no-best-known-header",
                    Some(_) if can_fetch == 0 => why_none = "peer-window-full",
                    Some(b) if m.td[b] <= m.td[tip] => why_none = "peer-not-ahead",
                    Some(b) => {
                        let path = m.path(b);
                        in_flight_elsewhere = path.iter().filter(|i| m.inflight.get(i).map(|(q, _)| *q as usize != p).unwrap_or(false)).count();
                        let mut cand: Vec<usize> = path.iter().copied().filter(|i| m.missing(*i)).collect();
                        if *ibd {
                            // the IBD walk starts above the unverified tip, whatever branch it is on
                            if m.number[b] <= m.number[utip_i] {
                                cand.clear();
                            }
                            cand.retain(|i| m.number[*i] > m.number[utip_i]);
                            // (difficulty is constant over the tree: nothing above that height is stored)
                            if !m.is_anc(utip_i, b) {
                                exact = !std::env::var("VERIF_C17_FETCH_IBD_WEAK").is_ok();
                            }
                        }
                        cand.truncate(can_fetch);
                        want = cand;
                    }
                }
                // soundness of every returned block, with its own signature
                let mut seen = BTreeSet::new();
                for i in &got {
                    let i = *i;
                    let b = best.unwrap_or(0);
                    let reason = if !seen.insert(i) {
                        Some("twice")
                    } else if best.is_none() || !m.is_anc(i, b) {
                        Some("not-an-ancestor-of-best-known")
                    } else if m.stored[i] {
                        Some("already-stored")
                    } else if m.received[i] {
                        Some("already-received")
                    } else if let Some((q, _)) = m.inflight.get(&i) {
                        Some(if *q as usize == p { "already-in-flight-from-this-peer" } else { "in-flight-from-another-peer" })
                    } else {
                        None
                    };
                    if let Some(reason) = reason {
                        vfail!(
                            format!("fetch:{opname}:asked:{reason}"),
                            "op {k}: peer {p} (best known node {best:?}) is asked for node {i} (number {}): {reason}; in flight: {:?}",
                            m.number[i],
                            m.inflight.get(&i)
                        );
                    }
                }
                if got.len() > can_fetch {
                    vfail!(
                        format!("fetch:{opname}:more-than-peer-window"),
                        "op {k}: peer {p} is asked for {} blocks, peer_can_fetch_count was {can_fetch}",
                        got.len()
                    );
                }
                if got.windows(2).any(|w| m.number[w[0]] >= m.number[w[1]]) {
                    vfail!(format!("fetch:{opname}:not-ascending"), "op {k}: requested numbers {:?}", got.iter().map(|i| m.number[*i]).collect::<Vec<_>>());
                }
                if exact && got != want {
                    let gn: Vec<u64> = got.iter().map(|i| m.number[*i]).collect();
                    let wn: Vec<u64> = want.iter().map(|i| m.number[*i]).collect();
                    let kind = if got.len() < want.len() && want.starts_with(&got) {
                        "fewer-than-window-allows"
                    } else if got.len() <= want.len() {
                        "not-the-lowest-missing"
                    } else {
                        "more-than-expected"
                    };
                    vfail!(
                        format!("fetch:{opname}:{kind}"),
                        "op {k}: peer {p} (best known node {best:?} at {}, tip node {tip} at {}, can fetch {can_fetch}{}) is asked for numbers {gn:?}; the lowest missing blocks on its branch are {wn:?}",
                        best.map(|b| m.number[b]).unwrap_or(0),
                        m.number[tip],
                        if why_none.is_empty() { String::new() } else { format!(", expected nothing: {why_none}") }
                    );
                }
                if !exact && !got.iter().all(|i| want.contains(i) || m.missing(*i)) {
                    vfail!(format!("fetch:{opname}:unexpected-block"), "op {k}: got {got:?}, candidates {want:?}");
                }
                if !exact && *ibd && got.iter().any(|i| m.number[*i] <= m.number[utip_i]) {
                    vfail!(format!("fetch:{opname}:below-unverified-tip"), "op {k}: got {got:?}, unverified tip at {}", m.number[utip_i]);
                }
                for i in &got {
                    m.inflight.insert(*i, (*peer, now));
                }
                // --- last common header
                if let Some(b) = best {
                    if let Some(lc) = sync_shared.state().peers().get_last_common_header(pi) {
                        let Some(&li) = m.index_of.get(&lc.hash()) else {
                            vfail!(format!("fetch:{opname}:last-common:unknown"), "op {k}: last common header of peer {p} is no tree block");
                        };
                        // the header is only brought up to date by a fetch that gets past its early
                        // exits (peer window full, peer not ahead of the tip): until then it may date
                        // from the peer's previous branch
                        let updated = why_none.is_empty();
                        if updated && !m.is_anc(li, b) {
                            vfail!(
                                format!("fetch:{opname}:last-common:not-on-peer-branch"),
                                "op {k}: last common header of peer {p} is node {li} (number {}), no ancestor of its best known node {b}",
                                m.number[li]
                            );
                        }
                        if updated && !m.stored[li] {
                            vfail!(
                                format!("fetch:{opname}:last-common:not-stored"),
                                "op {k}: last common header of peer {p} is node {li} (number {}), which the node does not have",
                                m.number[li]
                            );
                        }
                        // highest block of the peer's branch the node has
                        let top = m.path(b).into_iter().rev().find(|i| m.stored[*i]).unwrap_or(0);
                        let top_on_main = m.is_anc(top, tip);
                        if updated && !*ibd && !none && top_on_main && li != top {
                            vfail!(
                                "fetch:fetch:last-common:not-the-fork-point",
                                "op {k}: after fetch for peer {p} (best known node {b}) the last common header is node {li} (number {}), the fork point with the main chain is node {top} (number {})",
                                m.number[li],
                                m.number[top]
                            );
                        }
                        if why_none == "peer-not-ahead" && m.is_anc(b, tip) && li != b {
                            vfail!(
                                format!("fetch:{opname}:last-common:not-the-peer-tip"),
                                "op {k}: peer {p}'s best known node {b} is on the main chain and not ahead, last common header is node {li}"
                            );
                        }
                        if li != 0 && !m.is_anc(li, tip) {
                            labels.insert("fetch/last-common-on-side-branch");
                        }
                    }
                }
                // --- labels
                if !got.is_empty() {
                    labels.insert(if *ibd { "fetch/ibd-asked-some" } else { "fetch/asked-some" });
                    if got.len() == can_fetch {
                        labels.insert("fetch/peer-window-exhausted");
                    }
                    if got.len() > INIT_BLOCKS_IN_TRANSIT_PER_PEER {
                        labels.insert("fetch/more-than-one-batch");
                    }
                    if in_flight_elsewhere > 0 {
                        labels.insert("fetch/skipped-blocks-in-flight-from-another-peer");
                        skipped_other = true;
                    }
                    if let Some(b) = best {
                        if !m.is_anc(tip, b) {
                            labels.insert("fetch/peer-branch-forks-off-main-chain");
                        }
                        if m.path(b).iter().any(|i| m.received[*i] && !m.stored[*i]) {
                            labels.insert("fetch/skipped-received-orphans");
                        }
                        if m.path(b).iter().any(|i| m.stored[*i] && !m.is_anc(*i, tip)) {
                            labels.insert("fetch/skipped-stored-side-blocks");
                        }
                    }
                } else {
                    labels.insert(match why_none {
                        "no-best-known-header" => "fetch/none:no-best-known-header",
                        "peer-window-full" => "fetch/none:peer-window-full",
                        "peer-not-ahead" => "fetch/none:peer-not-ahead",
                        _ if in_flight_elsewhere > 0 => "fetch/none:everything-in-flight-elsewhere",
                        _ => "fetch/none:nothing-missing",
                    });
                }
                if !*ibd {
                    // two peers on different branches whose common part is not downloaded yet
                    for q in 0..m.best.len() {
                        if q == p || !m.connected[q] {
                            continue;
                        }
                        if let (Some(a), Some(b)) = (best, m.best[q]) {
                            if !m.is_anc(a, b) && !m.is_anc(b, a) {
                                let pa = m.path(a);
                                if pa.iter().any(|i| m.is_anc(*i, b) && !m.stored[*i]) {
                                    forked_peers_shared_gap = true;
                                }
                            }
                        }
                    }
                }
            }
            FOp::Deliver { peer, sel, count, highest_first, by } => {
                opname = "deliver";
                let mine: Vec<usize> = m.inflight.iter().filter(|(_, (q, _))| q == peer).map(|(i, _)| *i).collect();
                if mine.is_empty() {
                    continue;
                }
                let mut order: Vec<usize> = mine.clone();
                order.sort_by_key(|i| (m.number[*i], *i));
                let from = pick_idx(*sel as u32, order.len());
                let mut chosen: Vec<usize> = order[from..].iter().copied().take((*count).max(1) as usize).collect();
                if *highest_first {
                    chosen.reverse();
                }
                let sender = by.map(|b| b as usize % m.best.len()).unwrap_or(*peer as usize);
                if sender != *peer as usize {
                    labels.insert("deliver/sent-by-another-peer");
                }
                for i in &chosen {
                    let content = packed::SendBlock::new_builder().block(blocks[*i].data()).build();
                    let msg = packed::SyncMessage::new_builder().set(content).build();
                    rt.block_on(sync.received(w.nc(), sender.into(), msg.as_bytes()));
                    m.inflight.remove(i);
                    m.received[*i] = true;
                }
                w.barrier()?;
                let newly = m.close_stored();
                if chosen.iter().any(|i| !m.stored[*i]) {
                    labels.insert("deliver/orphan-kept-waiting");
                }
                if newly > chosen.len() || (*highest_first && newly >= 2) {
                    labels.insert("deliver/parent-arrival-connects-orphans");
                }
                labels.insert("deliver/blocks-arrived");
                let bans = net.ban_reasons();
                if !bans.is_empty() {
                    vfail!("fetch:deliver:valid-block-refused", "op {k}: {bans:?}");
                }
            }
            FOp::Unrequested { peer, node } => {
                opname = "unrequested";
                let i = (*node as usize) % n;
                if i == 0 {
                    continue;
                }
                let sender = *peer as usize % m.best.len();
                let content = packed::SendBlock::new_builder().block(blocks[i].data()).build();
                let msg = packed::SyncMessage::new_builder().set(content).build();
                rt.block_on(sync.received(w.nc(), sender.into(), msg.as_bytes()));
                w.barrier()?;
                if m.inflight.remove(&i).is_some() {
                    // it was asked for (from whomever): it arrived
                    m.received[i] = true;
                    m.close_stored();
                    labels.insert("unrequested/was-in-flight");
                } else {
                    labels.insert("unrequested/ignored");
                }
            }
            FOp::Disconnect { peer } => {
                opname = "disconnect";
                let p = *peer as usize;
                vensure!(p < m.best.len(), "replay-format", "peer index");
                let had: Vec<usize> = m.inflight.iter().filter(|(_, (q, _))| q == peer).map(|(i, _)| *i).collect();
                rt.block_on(sync.disconnected(w.nc(), p.into()));
                for i in &had {
                    m.inflight.remove(i);
                }
                if !had.is_empty() {
                    labels.insert("disconnect/peer-left-with-blocks-in-flight");
                }
                m.connected[p] = false;
                m.best[p] = None;
            }
            FOp::Advance(ms) => {
                opname = "advance";
                now += *ms as u64;
                clock.set_faketime(now);
            }
            FOp::Prune => {
                opname = "prune";
                let utip = shared.get_unverified_tip().number();
                let dropped = sync_shared.state().write_inflight_blocks().prune(utip);
                let timed: Vec<usize> = m
                    .inflight
                    .iter()
                    .filter(|(i, (_, ts))| m.number[**i] <= utip + 20 && ts + BLOCK_DOWNLOAD_TIMEOUT < now)
                    .map(|(i, _)| *i)
                    .collect();
                for i in &timed {
                    m.inflight.remove(i);
                }
                if !timed.is_empty() {
                    labels.insert("prune/released-timed-out-requests");
                }
                if m.inflight.iter().any(|(i, (_, ts))| m.number[*i] > utip + 20 && ts + BLOCK_DOWNLOAD_TIMEOUT < now) {
                    labels.insert("prune/old-request-outside-window-kept");
                }
                for d in &dropped {
                    let q = d.value();
                    let theirs: Vec<usize> = m.inflight.iter().filter(|(_, (x, _))| *x as usize == q).map(|(i, _)| *i).collect();
                    for i in theirs {
                        m.inflight.remove(&i);
                    }
                    labels.insert("prune/dropped-a-slow-peer");
                    // what the node does with the list: the peer is disconnected
                    rt.block_on(sync.disconnected(w.nc(), *d));
                    if q < m.best.len() {
                        m.connected[q] = false;
                        m.best[q] = None;
                    }
                }
            }
            FOp::Spill => {
                opname = "spill";
                shared.header_map().verif_limit_memory();
                if case.hm_limit != 0 && m.announced.iter().zip(&m.stored).filter(|(a, s)| **a && !**s).count() > case.hm_limit as usize {
                    labels.insert("spill/header-map-over-its-limit");
                }
            }
        }
        w.check_table(&m, opname, k)?;
        w.check_status(&m, opname, k)?;
        node_panic_violation()?;
        let tip_now = shared.snapshot().tip_hash();
        if tip_now != last_tip {
            if let (Some(&a), Some(&b)) = (m.index_of.get(&last_tip), m.index_of.get(&tip_now)) {
                if !m.is_anc(a, b) {
                    labels.insert("chain/reorg-during-schedule");
                }
            }
            last_tip = tip_now;
        }
    }
    for l in labels {
        st.label(l);
    }
    if skipped_other && forked_peers_shared_gap {
        st.label("fetch/forked-peers-sharing-undownloaded-prefix+skip-in-flight");
        st.nontrivial(&("fetch", case));
        st.sample(|| json!({"sub": "fetch", "case": case}));
    }
    // (locals drop in reverse order: the synchronizer and the controller clone go before the chain
    // service scope, which joins the service thread once every controller is gone)
    Ok(())
}

pub fn prop(case: &FetchCase, st: &mut Stats) -> Verdict {
    match catch_unwind(AssertUnwindSafe(|| exec(case, st))) {
        Ok(v) => v,
        Err(_) => Err(Violation::new("fetch:panic", "panic while driving the node (see worker log)")),
    }
}

fn strategy() -> impl Strategy<Value = FetchCase> {
    (prop_oneof![2 => 12usize..40, 3 => 40usize..90, 1 => 90usize..150], 2u8..=6, 0u8..4).prop_flat_map(|(n, peers, branchy)| {
        (
            proptest::collection::vec((any::<u8>(), any::<u16>()), n),
            prop_oneof![3 => 1u16..4, 2 => 4u16..30],
            prop_oneof![2 => Just(0u8), 1 => 1u8..4, 1 => 4u8..40],
            proptest::collection::vec((0u8..100, 0u8..8, any::<u16>(), 0u8..12, any::<bool>()), 6..50),
            // first announcement of every peer (selector over the late half of the tree; 0 = none yet)
            proptest::collection::vec(any::<u16>(), peers as usize),
        )
            .prop_map(move |(ps, pre_stored, hm_limit, os, first)| {
                let cut = [252u8, 246, 238, 225][branchy as usize];
                let parents: Vec<u16> = ps
                    .iter()
                    .enumerate()
                    .map(|(i, (kind, sel))| {
                        if i == 0 {
                            0
                        } else if *kind <= cut {
                            i as u16
                        } else {
                            // fork: mostly from a recent block
                            let back = pick_idx(*sel as u32, (i + 1).min(24));
                            (i - back) as u16
                        }
                    })
                    .collect();
                let nn = n + 1;
                let mut ops: Vec<FOp> = first
                    .iter()
                    .enumerate()
                    .filter(|(_, sel)| **sel % 8 != 0)
                    .map(|(p, sel)| FOp::Announce { peer: p as u8, node: (nn - 1 - pick_idx(*sel as u32, nn.min(1 + nn / 2))) as u16 })
                    .collect();
                ops.extend(os
                    .iter()
                    .map(|(kind, peer, sel, t, flag)| {
                        let peer = *peer % peers;
                        match kind {
                            // announce: prefer late nodes (branch tips are late)
                            0..=21 => FOp::Announce { peer, node: (nn - 1 - pick_idx(*sel as u32, nn.min(1 + nn / 2))) as u16 },
                            22..=54 => FOp::Fetch { peer, ibd: *t == 0 || (*t == 1 && *flag) },
                            55..=76 => FOp::Deliver {
                                peer,
                                sel: if *t < 8 { 0 } else { *sel },
                                count: [1u8, 2, 3, 5, 8, 16, 32, 40, 1, 4, 12, 64][*t as usize % 12],
                                highest_first: *flag && *sel % 3 == 0,
                                by: if *sel % 11 == 0 { Some((*sel % 7) as u8 % peers) } else { None },
                            },
                            77..=79 => FOp::Unrequested { peer, node: (*sel as usize % nn) as u16 },
                            80..=83 => FOp::Disconnect { peer },
                            84..=90 => FOp::Advance([1u32, 400, 1100, 1600, 5000, 14_000, 15_001, 29_999, 30_001, 30_001, 900, 30_001][*t as usize % 12]),
                            91..=95 => FOp::Prune,
                            _ => FOp::Spill,
                        }
                    }));
                FetchCase { parents, pre_stored, peers, hm_limit, ops }
            })
    })
}

pub fn run(ctx: &Ctx) {
    // every evaluation starts a node: bound the shrink work like the other node-based checks
    let prev = ctx.shrink_iters.get();
    ctx.shrink_iters.set(150);
    ctx.run_prop("fetch", ctx.cases(384, 5_600), strategy(), prop);
    ctx.shrink_iters.set(prev);
}

pub fn replay(v: &Value, st: &mut Stats) -> Verdict {
    prop(&from_case::<FetchCase>(v)?, st)
}
