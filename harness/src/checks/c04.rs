//! C04 — a transaction is accepted iff inputs are live and unspent and all tx rules hold.
//!
//! One case = a generated history (with forks, so node A reaches the context through reorgs while
//! node B is fed only the final main chain), a "runway" of model-built blocks on top of it and a
//! list of candidate transactions.  Candidates are created against the state of a runway block,
//! proposed by the next block and offered
//!   * to the pool (`test_accept_tx` at every later tip: fresh / gap / proposed environment, and
//!     `submit_local_tx` for some, which makes pooled ancestors and pool conflicts), and
//!   * to the chain: at its position every candidate the admissibility model rejects is committed
//!     by a probe block of its own (on top of the candidates accepted so far) which must be
//!     refused, and all candidates the model accepts are committed by the real next block of the
//!     runway, which must be accepted.
use crate::c04_model::*;
use crate::common::*;
use crate::model::*;
use crate::node::*;
use crate::plan::*;
use crate::vfail;
use ckb_types::{
    core::{BlockView, FeeRate, TransactionView},
    prelude::*,
};
use proptest::prelude::*;
use serde::{Deserialize, Serialize};
use serde_json::{Value, json};
use std::collections::{BTreeMap, BTreeSet};
use std::time::Duration;

pub fn spec() -> CheckSpec {
    CheckSpec {
        id: "C04",
        level: "exploration",
        rule: "proptest: (history plan with forks, runway timestamps, 20-34 candidate transactions) over 4 chain specs (short fixed epochs / doubling epochs, proposal windows (2,10) (2,4) (1,2), cellbase maturity 3/5, 1, 1/2, 2/7 epoch, median over 37/5/11/3 blocks). Candidates: inputs from live / same-block parent / pooled parent / spent / side-branch-only / unknown cells, duplicates inside a tx and across txs of a block, cellbase cells around the maturity boundary; code deps, dep groups (valid, empty, malformed, no data, dead/unknown member, hiding an own or foreign input, 2048/2049 members); header deps on main / side chain / unknown / duplicated; output capacity at occupied +-1, outputs = inputs +-1; since over all flag combinations with values at threshold -1/0/+1 of the targeted block or pool position; always_success / always_failure locks and types. Oracle: own admissibility model evaluated for the exact position: probe block with a model-invalid tx is refused and leaves the tip unchanged, the block with all model-valid txs of the position is accepted (both on the reorged node and on the linearly fed node), pool verdicts (test_accept_tx / submit_local_tx under the documented TxVerifyEnv of the tx's status and the node's actual pool contents) agree with the model (soundness always, completeness for policy-neutral txs), fee equals inputs-outputs, and the two nodes agree on verdict, cycles and fee whenever their pools hold the same transactions. Non-trivial = a judged (tx, position) with a since value exactly at / one step below its threshold, a cellbase exactly at / one block before maturity, a dep group hiding an own or already spent input or expanding to exactly 2048, or a same-block parent on a node that reorged; distinct by (tx hash, position, features). Family `dao` (own sub-property): the same case shape and oracle on the fake-DAO consensus (genesis rewritten so that the NervosDAO slot holds always_success: the type hash equals consensus.dao_type_hash, the verifiers' DAO special cases apply, the script always passes), history with deposits / phase-1 / phase-2 withdrawals, 10 prepared deposit cells and 14 prepared withdrawing cells (lock args of 0/1/2 bytes, recorded deposit blocks spread over the history) and candidates of three shapes: deposit, phase 1 (DAO-typed output with equal / other lock-args length, at the same or another index than the DAO input, optional ordinary input, DAO type with args, missing DAO code dep), phase 2 (header deps [D,W] / [W,D] / W missing / index out of range / no witness / malformed witness / 4-byte index / index in the lock field / names W itself / another lower block / a higher block); outputs total at maximum withdraw -1 / 0 / +1, at the input capacities and +1, an extra output at occupied capacity -1 / 0 / +1; starting_block_limiting_dao_withdrawing_lock at 0 / exactly the block that commits the prepared deposits / one block later / mid-history. Model rules (RFC 0023 + doc comments of CapacityVerifier, DaoScriptSizeVerifier, DaoCalculator; exact integer arithmetic on the model's own AR values): a withdrawing input is worth counted*AR_w/AR_d + occupied where W is the committing block of the cell (must be a header dep) and D the header dep named by the witness (must be lower than W), every other input its capacity; outputs total <= that sum (so outputs > input capacities is admissible only through withdrawing inputs); every output >= its occupied capacity, DAO inputs or not; reported fee = maximum withdraw - outputs; deposit -> withdrawing cell at the same index keeps the lock size once the deposit's block number >= the activation number. Non-trivial for the family = a judged (tx, position) with outputs at maximum withdraw -1/0/+1, outputs above the input capacities within the maximum, a lock-size difference on either side of the activation number or a deposit exactly at / one block before it, an output at / one below its occupied capacity next to a DAO input, or a named deposit header that differs from the recorded number.",
        assumptions: &[
            "script outcomes are limited to the prepared set (always_success, always_failure, missing code cell); cycle limits are not generated",
            "family dao runs on the fake-DAO consensus: what the NervosDAO script itself enforces (180-epoch lock period, phase-1 output equal to the deposit, recorded block number = named header) is out of scope; the model states what the node's verifiers enforce without the script (RFC 0023 arithmetic, header deps, witness index, lock size)",
            "pool side: fee-rate, RBF replacement, duplicates and relative since on a cell created by a pooled parent are policy / undecided by the statement: counted, not judged",
            "the pool's contents are taken from the node (get_all_ids) as part of the context; how the pool maintains them across reorgs is C11/C12",
            "epoch transitions used to build blocks come from Consensus::next_epoch_ext over the model's tree (arithmetic itself is C07)",
        ],
        workers: |_| 8,
        watchdog_s: |t| t.pick(1500, 7200),
        run,
        replay,
    }
}

#[derive(Clone, Debug, Serialize, Deserialize)]
pub struct Case {
    pub variant: u8,
    pub round_ts: bool,
    pub rbf: bool,
    pub big_groups: bool,
    pub plan: TreePlan,
    pub runway_ts: Vec<u8>,
    pub cands: Vec<CandSpec>,
    /// keep[i] == 0 drops candidate i (shrinks towards dropping; generated as 1 in 99 of 100)
    #[serde(default)]
    pub keep: Vec<u8>,
    /// family `dao`: fake-DAO consensus (the DAO slot holds always_success), NervosDAO operations in
    /// the history, prepared deposit / withdrawing cells, DAO-shaped candidates
    #[serde(default)]
    pub dao: bool,
    /// where `starting_block_limiting_dao_withdrawing_lock` lies: 0 block 0, 1 the block that commits
    /// the prepared deposit cells, 2 one block later, 3 in the middle of the history
    #[serde(default)]
    pub dao_lock_mode: u8,
}

pub fn variant_cfg(variant: u8) -> SpecCfg {
    let mut c = SpecCfg::default();
    let ep = |n: u64, i: u64, l: u64| Ep { n, i, l }.full();
    match variant % 4 {
        0 => {
            c.permanent_difficulty = true;
            c.epoch_duration_target = 40; // 5 blocks / epoch
            c.genesis_epoch_length = 5;
            c.proposal_window = (2, 10);
            c.cellbase_maturity = ep(0, 3, 5);
        }
        1 => {
            c.permanent_difficulty = true;
            c.epoch_duration_target = 24; // 3 blocks / epoch
            c.genesis_epoch_length = 3;
            c.proposal_window = (2, 4);
            c.cellbase_maturity = ep(1, 0, 1);
            c.median_time_block_count = Some(5);
        }
        2 => {
            c.permanent_difficulty = false; // 3, 6, 12, 24 ... blocks / epoch
            c.genesis_epoch_length = 3;
            c.proposal_window = (2, 4);
            c.cellbase_maturity = ep(0, 1, 2);
            c.median_time_block_count = Some(11);
        }
        _ => {
            c.permanent_difficulty = true;
            c.epoch_duration_target = 56; // 7 blocks / epoch
            c.genesis_epoch_length = 7;
            c.proposal_window = (1, 2);
            c.cellbase_maturity = ep(0, 2, 7);
            c.median_time_block_count = Some(3);
        }
    }
    c
}

pub fn case_strategy(max_blocks: usize, max_cands: usize) -> impl Strategy<Value = Case> {
    let p = PlanParams {
        min_blocks: 8,
        max_blocks,
        fork_pct: 40,
        tx_rate: 45,
        invalid_pct: 0,
        uncle_pct: 6,
        dao_pct: 0,
    };
    (
        0u8..4,
        any::<bool>(),
        any::<bool>(),
        prop_oneof![3 => Just(false), 1 => Just(true)],
        tree_plan_strategy(p),
        proptest::collection::vec(0u8..6, 24),
        proptest::collection::vec(cand_strategy(), 20..=max_cands),
        proptest::collection::vec(prop_oneof![1 => Just(0u8), 99 => Just(1u8)], max_cands),
    )
        .prop_map(|(variant, round_ts, rbf, big_groups, plan, runway_ts, cands, keep)| Case {
            variant,
            round_ts,
            rbf,
            big_groups,
            plan,
            runway_ts,
            cands,
            keep,
            dao: false,
            dao_lock_mode: 0,
        })
}

/// family `dao`: the same machinery on the fake-DAO consensus with NervosDAO-shaped candidates
pub fn dao_case_strategy(max_blocks: usize, max_cands: usize) -> impl Strategy<Value = Case> {
    let p = PlanParams {
        min_blocks: 8,
        max_blocks,
        fork_pct: 30,
        tx_rate: 60,
        invalid_pct: 0,
        uncle_pct: 6,
        dao_pct: 45,
    };
    (
        (0u8..4, any::<bool>(), prop_oneof![4 => Just(false), 1 => Just(true)], 0u8..4),
        tree_plan_strategy(p),
        proptest::collection::vec(0u8..6, 24),
        proptest::collection::vec(dao_family_cand_strategy(), 20..=max_cands),
        proptest::collection::vec(prop_oneof![1 => Just(0u8), 99 => Just(1u8)], max_cands),
    )
        .prop_map(|((variant, round_ts, rbf, dao_lock_mode), plan, runway_ts, cands, keep)| Case {
            variant,
            round_ts,
            rbf,
            big_groups: false,
            plan,
            runway_ts,
            cands,
            keep,
            dao: true,
            dao_lock_mode,
        })
}

pub fn err_class(e: &str) -> &'static str {
    const KEYS: [&str; 35] = [
        "lock script size of deposit cell",
        "CellbaseImmaturity",
        "Immature",
        "InvalidSince",
        "OutputsSumOverflow",
        "InsufficientCellCapacity",
        "DuplicateCellDeps",
        "DuplicateHeaderDeps",
        "OutputsDataLengthMismatch",
        "MismatchedVersion",
        "Empty",
        "InvalidHeader",
        "InvalidDepGroup",
        "OverMaxDepExpansionLimit",
        "OutOfOrder",
        "Dead",
        "Unknown",
        "ScriptNotFound",
        "ValidationFailure",
        "Script",
        "LowFeeRate",
        "already exists",
        "Duplicated",
        "RBF",
        "Full",
        "ExceededMaximumAncestorsCount",
        "Malformed",
        "InvalidDAO",
        "Dao",
        "Commit",
        "Cellbase",
        "Reward",
        "Proposal",
        "Header",
        "Epoch",
    ];
    for k in KEYS {
        if e.contains(k) {
            return k;
        }
    }
    "other"
}

/// error classes that mean the probe block was refused for a reason other than the transaction
fn vacuous_class(c: &str) -> bool {
    matches!(c, "InvalidDAO" | "Dao" | "Commit" | "Cellbase" | "Reward" | "Proposal" | "Header" | "Epoch" | "other")
}

fn next_ts(tree: &Tree, parent: &H, kind: u8, round: bool) -> u64 {
    let max_ts = tree.path(parent).iter().map(|b| b.block.timestamp()).max().unwrap_or(0);
    let inc = if round {
        [1000u64, 2000, 8000, 48_000, 1000, 3000][kind as usize % 6]
    } else {
        [1u64, 1000, 8000, 48_000, 777, 2500][kind as usize % 6]
    };
    max_ts + inc
}

fn runway_spec(env: &Env, ts: u64) -> BlockSpec {
    BlockSpec {
        timestamp: ts,
        miner_lock: Some(env.always_success_lock.clone()),
        message: vec![4],
        ..Default::default()
    }
}

fn opts() -> BuildOpts {
    BuildOpts { use_node_reward_quirk: true, ..Default::default() }
}

fn slot_of(b: &MBlock, median: u64) -> Slot {
    Slot {
        number: b.number,
        epoch: Ep::from_full(b.block.epoch().full_value()),
        ts: b.block.timestamp(),
        median,
    }
}

/// build the runway with empty blocks on a scratch copy of the tree: positions, epochs, medians
fn dry_schedule(env: &Env, tree: &Tree, t0: &H, kinds: &[u8], round: bool, len: usize) -> Result<Vec<Slot>, String> {
    let mut scratch = Tree {
        consensus: tree.consensus.clone(),
        blocks: tree.blocks.clone(),
        genesis: tree.genesis.clone(),
        order: tree.order.clone(),
        pow: tree.pow,
    };
    let mut slots = vec![slot_of(scratch.get(t0), 0)];
    let mut cur = t0.clone();
    for r in 1..=len {
        let ts = next_ts(&scratch, &cur, kinds[r % kinds.len()], round);
        let median = scratch.median_time(&cur);
        let mb = scratch.build(&cur, &runway_spec(env, ts), &opts())?;
        slots.push(slot_of(&mb, median));
        cur = scratch.insert(mb);
    }
    Ok(slots)
}

struct Cand {
    tx: TransactionView,
    create: usize,
    /// runway step whose block proposes it
    proposed_at: usize,
    probe: usize,
    retries_left: u8,
    pool_submit: u8,
    submitted: bool,
    intents: Vec<&'static str>,
    done: bool,
}

#[derive(Clone, Debug, PartialEq, Eq)]
enum PoolRes {
    Ok { cycles: u64, fee: u64 },
    OkNoInfo,
    Err(String),
}

struct PoolCtx {
    ids: BTreeSet<[u8; 32]>,
    txs: Vec<TransactionView>,
}

fn pool_ctx(node: &Node, known: &BTreeMap<[u8; 32], TransactionView>) -> Result<PoolCtx, Violation> {
    let ids = node
        .shared
        .tx_pool_controller()
        .get_all_ids()
        .map_err(|e| Violation::new("harness:pool-ids", e.to_string()))?;
    let mut set = BTreeSet::new();
    let mut txs = vec![];
    for h in ids.pending.iter().chain(ids.proposed.iter()) {
        let k = h32(h);
        if set.insert(k) {
            match known.get(&k) {
                Some(tx) => txs.push(tx.clone()),
                None => return Err(Violation::new("harness:pool-holds-unknown-tx", format!("{h:#x}"))),
            }
        }
    }
    Ok(PoolCtx { ids: set, txs })
}

struct PoolJudgement {
    ev: Eval,
    status: &'static str,
    policy: Vec<String>,
    /// an input is already spent by a pooled transaction
    input_conflict: bool,
}

#[derive(Clone, Copy, PartialEq, Eq)]
enum PoolMode {
    /// the pool as it is
    Normal,
    /// spends of pooled transactions ignored (how the node resolves a conflicting transaction)
    Lenient,
    /// the pooled transactions that conflict with an input, and their descendants, taken out
    /// (the pool after a successful replacement)
    Replace,
}

/// model verdict for offering `tx` to a pool holding `ctx` on top of `tip`
fn pool_model(
    tree: &Tree,
    tip: &H,
    ctx: &PoolCtx,
    tx: &TransactionView,
    params: &Params,
    min_fee_rate: u64,
    mode: PoolMode,
) -> PoolJudgement {
    let (close, _far) = tree.window();
    let t = tree.get(tip);
    let id = pid(&tx.proposal_short_id());
    let (status, number) = if tree.committable(tip).contains(&id) {
        ("proposed", (t.number + close).saturating_sub(1))
    } else if tree.gap(tip).contains(&id) {
        ("gap", t.number + close)
    } else {
        ("fresh", t.number + 1 + close)
    };
    let env = PosEnv {
        number,
        epoch: Ep::from_full(t.block.epoch().full_value()),
        median: tree.median_time(tip),
    };
    let own_inputs: BTreeSet<CellKey> = tx.input_pts_iter().map(|o| cell_key(&o)).collect();
    let spends = |p: &TransactionView, set: &BTreeSet<CellKey>| p.input_pts_iter().any(|o| set.contains(&cell_key(&o)));
    // pooled transactions spending one of our inputs, and everything that descends from them
    let mut replaced: BTreeSet<usize> = (0..ctx.txs.len()).filter(|i| spends(&ctx.txs[*i], &own_inputs)).collect();
    let input_conflict = !replaced.is_empty();
    loop {
        let outs: BTreeSet<[u8; 32]> = replaced.iter().map(|i| h32(&ctx.txs[*i].hash())).collect();
        let more: Vec<usize> = (0..ctx.txs.len())
            .filter(|i| !replaced.contains(i) && ctx.txs[*i].input_pts_iter().any(|o| outs.contains(&h32(&o.tx_hash()))))
            .collect();
        if more.is_empty() {
            break;
        }
        replaced.extend(more);
    }
    let mut view = View::new(tree, tip);
    for (i, p) in ctx.txs.iter().enumerate() {
        if mode == PoolMode::Replace && replaced.contains(&i) {
            continue;
        }
        view.apply(p, None);
    }
    if mode == PoolMode::Lenient {
        view.spent.clear();
    }
    let mut policy = vec![];
    if ctx.ids.contains(&h32(&tx.hash())) {
        policy.push("duplicate-of-pooled-tx".to_string());
    }
    let ev = eval(&view, tx, &env, params);
    let size = tx.data().serialized_size_in_block() as u64;
    let min_fee = FeeRate::from_u64(min_fee_rate).fee(size).as_u64() as i128;
    if ev.fee < min_fee {
        policy.push("fee-below-min-fee-rate".to_string());
    }
    PoolJudgement { ev, status, policy, input_conflict }
}

pub const SIG_DRY_RUN_CONFLICT: &str = "pool:test_accept_tx:accepts-conflict-with-pooled-tx-when-rbf-disabled";
pub const SIG_REPLACEMENT_DEP_SUBMIT: &str = "pool:submit_local_tx:replacement-depends-on-cell-spent-by-surviving-pooled-tx";
pub const SIG_REPLACEMENT_DEP_DRY: &str = "pool:test_accept_tx:replacement-depends-on-cell-spent-by-surviving-pooled-tx";

/// known findings that are counted where they occur so that the rest of the case is still judged
#[derive(Clone, Copy, Default)]
pub struct Tolerate {
    pub dry_run_conflict: bool,
    pub replacement_dep_submit: bool,
    pub replacement_dep_dry: bool,
}

fn count_known(st: &mut Stats, sig: &str) {
    if !st.is_frozen() {
        *st.known_hits.entry(sig.to_string()).or_insert(0) += 1;
    }
}

struct Offered {
    res: PoolRes,
    /// what the model said (for cross-node comparison), None when the verdict was not judged
    model: (Vec<String>, Vec<String>, Vec<String>),
    ev: Eval,
    parent_pooled: bool,
}

/// offer `tx` to the pool of `n` (dry run or submission) and judge the answer
#[allow(clippy::too_many_arguments)]
fn offer_and_judge(
    who: &str,
    n: &Node,
    submit: bool,
    tree: &Tree,
    tip: &H,
    ctx: &PoolCtx,
    tx: &TransactionView,
    params: &Params,
    rbf: bool,
    min_fee_rate: u64,
    tol: Tolerate,
    st: &mut Stats,
) -> Result<Offered, Violation> {
    let api = if submit { "submit_local_tx" } else { "test_accept_tx" };
    let tipn = tree.get(tip).number;
    let jn = pool_model(tree, tip, ctx, tx, params, min_fee_rate, PoolMode::Normal);
    let res = pool_offer(n, tx, submit)?;
    if ctx.ids.contains(&h32(&tx.hash())) {
        // the very transaction is already pooled: `Duplicated` is policy
        st.eval("pool-verdict");
        st.label(if matches!(res, PoolRes::Err(_)) { "pool:not-judged:duplicate-of-pooled-tx" } else { "pool:duplicate-of-pooled-tx-accepted" });
        let parent_pooled = false;
        return Ok(Offered { model: (vec![], vec![], vec!["duplicate".into()]), ev: jn.ev, res, parent_pooled });
    }
    let accepted = !matches!(res, PoolRes::Err(_));
    let parent_pooled = tx.input_pts_iter().any(|o| ctx.ids.contains(&h32(&o.tx_hash())));
    let done = |j: PoolJudgement, res: PoolRes| Offered {
        model: (j.ev.failed.clone(), j.ev.undetermined.clone(), j.policy.clone()),
        ev: j.ev,
        res,
        parent_pooled,
    };
    if !jn.input_conflict {
        judge_pool(who, api, &jn, &res, tx, tipn, st)?;
        return Ok(done(jn, res));
    }
    // ---- an input is already spent by a pooled transaction
    let jl = pool_model(tree, tip, ctx, tx, params, min_fee_rate, PoolMode::Lenient);
    if !rbf {
        if submit || !accepted {
            // must be refused (and is, as Dead)
            judge_pool(who, api, &jn, &res, tx, tipn, st)?;
            return Ok(done(jn, res));
        }
        // The dry run resolves a conflicting transaction in replacement mode and never reaches the
        // conflict check of the submission path: a wrong verdict with its own signature.  The
        // other rules are still judged, in the dry run's own resolution mode.
        if jl.ev.valid() {
            st.eval("pool-verdict");
            if tol.dry_run_conflict {
                count_known(st, SIG_DRY_RUN_CONFLICT);
                return Ok(done(jl, res));
            }
            vfail!(
                SIG_DRY_RUN_CONFLICT,
                "node {who} test_accept_tx at tip #{tipn} accepted (as {:?}) a transaction whose input is already spent by a pooled transaction although RBF is disabled (submit_local_tx refuses it); tx = {}",
                res,
                tx_brief(tx)
            );
        }
        judge_pool(who, api, &jl, &res, tx, tipn, st)?;
        return Ok(done(jl, res));
    }
    // ---- RBF on: replacement is policy, the other rules are not
    if !jl.ev.valid() {
        judge_pool(who, api, &jl, &res, tx, tipn, st)?;
        return Ok(done(jl, res));
    }
    let mut jr = pool_model(tree, tip, ctx, tx, params, min_fee_rate, PoolMode::Replace);
    st.eval("pool-verdict");
    st.label(&format!("pool:{}:{}", jr.status, if accepted { "accepted" } else { "rejected" }));
    if jr.ev.valid() {
        st.label("pool:not-judged:rbf-conflict");
        if accepted && submit {
            st.label("pool:replacement-accepted");
        }
        jr.policy.push("rbf-conflict".into());
        return Ok(done(jr, res));
    }
    // valid only while the spends of pooled transactions are ignored
    if jr.ev.failed.iter().all(|f| f.ends_with("spent-in-overlay")) {
        if accepted {
            let (sig, tolerated) = if submit { (SIG_REPLACEMENT_DEP_SUBMIT, tol.replacement_dep_submit) } else { (SIG_REPLACEMENT_DEP_DRY, tol.replacement_dep_dry) };
            if tolerated {
                count_known(st, sig);
            } else {
                vfail!(
                    sig,
                    "node {who} {api} at tip #{tipn} accepted a replacement transaction although, with the transactions it replaces taken out, {:?}: a cell it depends on is spent by a pooled transaction that stays; tx = {}",
                    jr.ev.failed,
                    tx_brief(tx)
                );
            }
        }
        jr.policy.push("rbf-conflict".into());
    } else {
        // inputs / deps created by the transactions it would replace: RBF rules 2 and 5
        st.label("pool:not-judged:rbf-uses-cells-of-replaced-txs");
        jr.policy.push("rbf-conflict".into());
    }
    Ok(done(jr, res))
}

fn pool_offer(node: &Node, tx: &TransactionView, submit: bool) -> Result<PoolRes, Violation> {
    let c = node.shared.tx_pool_controller();
    if submit {
        match c.submit_local_tx(tx.clone()) {
            Ok(Ok(())) => Ok(PoolRes::OkNoInfo),
            Ok(Err(r)) => Ok(PoolRes::Err(format!("{r:?}"))),
            Err(e) => Err(Violation::new("harness:pool-call", e.to_string())),
        }
    } else {
        match c.test_accept_tx(tx.clone()) {
            Ok(Ok(c)) => Ok(PoolRes::Ok { cycles: c.cycles, fee: c.fee.as_u64() }),
            Ok(Err(r)) => Ok(PoolRes::Err(format!("{r:?}"))),
            Err(e) => Err(Violation::new("harness:pool-call", e.to_string())),
        }
    }
}

pub fn tx_brief(tx: &TransactionView) -> Value {
    json!({
        "hash": format!("{:#x}", tx.hash()),
        "inputs": tx.inputs().into_iter().map(|i| { let s: u64 = i.since().into(); format!("{}#{} since={:#018x}", hex(&i.previous_output().tx_hash().as_slice()[..6]), { let x: u32 = i.previous_output().index().into(); x }, s) }).collect::<Vec<_>>(),
        "cell_deps": tx.cell_deps_iter().map(|d| format!("{}#{} {}", hex(&d.out_point().tx_hash().as_slice()[..6]), { let x: u32 = d.out_point().index().into(); x }, if d.dep_type() == ckb_types::core::DepType::DepGroup.into() { "group" } else { "code" })).collect::<Vec<_>>(),
        "header_deps": tx.header_deps_iter().map(|h| hex(&h.as_slice()[..6])).collect::<Vec<_>>(),
        "outputs": tx.outputs_with_data_iter().map(|(o, d)| format!("{}{}{}", cap(&o), if o.type_().to_opt().is_some() { " typed" } else { "" }, if d.is_empty() { String::new() } else { format!(" data={}", hex(&d[..d.len().min(8)])) })).collect::<Vec<_>>(),
        "witnesses": tx.witnesses().into_iter().map(|w| hex(&w.raw_data()[..w.raw_data().len().min(40)])).collect::<Vec<_>>(),
    })
}

fn judge_pool(
    who: &str,
    api: &str,
    j: &PoolJudgement,
    res: &PoolRes,
    tx: &TransactionView,
    tipn: u64,
    st: &mut Stats,
) -> Verdict {
    st.eval("pool-verdict");
    let accepted = !matches!(res, PoolRes::Err(_));
    st.label(&format!("pool:{}:{}", j.status, if accepted { "accepted" } else { "rejected" }));
    if let PoolRes::Err(e) = res {
        st.label(&format!("pool:reject:{}", err_class(e)));
    }
    if accepted && !j.ev.valid() {
        // test_accept_tx is a dry run that is documented to give send_transaction's verdict; the
        // one place where it is known to differ gets its own signature
        let rule = &j.ev.failed[0];
        vfail!(
            format!("pool:{api}:accepted-invalid:{rule}"),
            "node {who} {api} at tip #{tipn} ({} env) accepted a transaction the model rejects for {:?}; tx = {}",
            j.status,
            j.ev.failed,
            tx_brief(tx)
        );
    }
    if !accepted && j.ev.valid() {
        if j.ev.undetermined.is_empty() && j.policy.is_empty() {
            let e = match res {
                PoolRes::Err(e) => e.clone(),
                _ => String::new(),
            };
            vfail!(
                format!("pool:{api}:rejected-valid:{}", err_class(&e)),
                "node {who} {api} at tip #{tipn} ({} env) rejected a policy-neutral transaction that meets every rule: {e}; tx = {}",
                j.status,
                tx_brief(tx)
            );
        }
        for p in j.policy.iter().chain(j.ev.undetermined.iter()) {
            st.label(&format!("pool:not-judged:{p}"));
        }
    }
    if let PoolRes::Ok { fee, .. } = res {
        if j.ev.valid() && j.ev.fee != *fee as i128 {
            vfail!(
                "pool:test_accept_tx:fee-differs-from-inputs-minus-outputs",
                "node {who} reported fee {fee}, inputs - outputs = {}; tx = {}",
                j.ev.fee,
                tx_brief(tx)
            );
        }
    }
    Ok(())
}

fn is_dao_boundary_feat(f: &str) -> bool {
    matches!(
        f,
        "dao-withdraw-one-over-maximum"
            | "dao-withdraw-exactly-maximum"
            | "dao-withdraw-one-below-maximum"
            | "dao-outputs-above-input-capacities-within-maximum"
            | "dao-lock-size-differs-before-activation"
            | "dao-lock-size-differs-after-activation"
            | "dao-lock-rule-deposit-exactly-at-activation"
            | "dao-lock-rule-deposit-one-block-before-activation"
            | "dao-input-next-to-output-one-below-occupied"
            | "dao-input-next-to-output-exactly-occupied"
            | "dao-named-deposit-header-differs-from-recorded-number"
    )
}

fn is_boundary_feat(f: &str) -> bool {
    is_dao_boundary_feat(f)
        || f.contains("exact") && (f.starts_with("since") || f.starts_with("maturity") || f.starts_with("dep-expansion"))
        || f.ends_with("one-short")
        || f == "maturity-one-block-short"
        || f == "dep-group-hides-own-input"
        || f == "dep-group-hides-spent-in-overlay"
}

/// the `tx-admission` family leaves two of the sample slots to the `dao` family, which samples
/// only (tx, position) pairs with a NervosDAO boundary feature
fn sample_ok(st: &Stats, dao_family: bool, feats: &[String]) -> bool {
    if !st.want_sample() {
        return false;
    }
    if dao_family { feats.iter().any(|f| is_dao_boundary_feat(f)) } else { st.samples.len() + 2 < MAX_SAMPLES }
}

fn note_features(st: &mut Stats, side: &str, ev: &Eval, c: &Cand, step: usize, reorged: bool, same_block_parent: bool) {
    let mut feats: Vec<String> = ev.feats.iter().filter(|f| is_boundary_feat(f)).cloned().collect();
    if same_block_parent && reorged {
        feats.push("same-block-parent-after-reorg".into());
    }
    for f in &ev.feats {
        st.label(&format!("feat:{side}:{f}"));
    }
    if same_block_parent {
        st.label(&format!("feat:{side}:same-block-or-pooled-parent"));
    }
    if !feats.is_empty() {
        st.nontrivial(&(h32(&c.tx.hash()), step, side.to_string(), feats));
    }
}

fn prop(case: &Case, st: &mut Stats, tol: Tolerate) -> Verdict {
    install_panic_recorder();
    clear_panics();
    let mut cfg = variant_cfg(case.variant);
    cfg.fake_dao = case.dao;
    let mut env = build_env(&cfg);
    let (close, far) = cfg.proposal_window;
    st.label(&format!("spec:variant-{}{}", case.variant % 4, if case.dao { "-fake-dao" } else { "" }));
    // --- history
    let mut plan = case.plan.clone();
    for s in plan.steps.iter_mut() {
        s.invalid = 0;
        if case.round_ts {
            s.ts = 1 + s.ts % 4;
        }
        if case.variant % 4 == 2 {
            s.uncles = 0; // an epoch with uncles pins the next length to >= 300
        }
    }
    let mut interp = Interp::new(&env);
    interp.exclude_cellbase_inputs = true;
    let built = interp.run(&plan);
    let mut tree = built.tree;
    let mut t0 = tree.genesis.clone();
    for h in &tree.order {
        if tree.get(h).td > tree.get(&t0).td {
            t0 = h.clone();
        }
    }
    // family `dao`: place the activation number of the lock-size rule relative to the block that
    // will commit the prepared deposit cells (the parameter is not part of the genesis block)
    let mut dao_lock_start = env.consensus.starting_block_limiting_dao_withdrawing_lock();
    if case.dao {
        let w_prep = tree.get(&t0).number + 1 + close;
        dao_lock_start = match case.dao_lock_mode % 4 {
            0 => 0,
            1 => w_prep,
            2 => w_prep + 1,
            _ => tree.get(&t0).number / 2,
        };
        let mut c = (*env.consensus).clone();
        c.starting_block_limiting_dao_withdrawing_lock = dao_lock_start;
        env.consensus = std::sync::Arc::new(c);
        st.label(&format!("dao:lock-rule-start-mode-{}", case.dao_lock_mode % 4));
        for (k, v) in &built.labels {
            if k.starts_with("tx:dao") {
                st.label_n(&format!("history:{k}"), *v);
            }
        }
    }
    // Node A receives side-branch blocks as early as their parents allow, so that it follows side
    // branches first and reorgs onto the main chain whenever that overtakes them.
    let mut order_a: Vec<H> = vec![];
    {
        let mut delivered: BTreeSet<[u8; 32]> = BTreeSet::new();
        delivered.insert(h32(&tree.genesis));
        let mut rest: Vec<H> = built.blocks.clone();
        while !rest.is_empty() {
            let ready = |h: &H| delivered.contains(&h32(&tree.get(h).parent));
            let pos = rest
                .iter()
                .position(|h| ready(h) && !tree.is_ancestor(h, &t0))
                .or_else(|| rest.iter().position(|h| ready(h)))
                .expect("some block is deliverable");
            let h = rest.remove(pos);
            delivered.insert(h32(&h));
            order_a.push(h);
        }
    }
    let mut reorged = false;
    let mut max_reorg = 0u64;
    {
        let mut best = tree.genesis.clone();
        for h in &order_a {
            let b = tree.get(h);
            if b.td > tree.get(&best).td {
                if b.parent != best {
                    reorged = true;
                    let mut a = tree.get(&best);
                    let mut depth = 0;
                    while !tree.is_ancestor(&a.hash, h) {
                        depth += 1;
                        a = tree.get(&a.parent);
                    }
                    max_reorg = max_reorg.max(depth);
                }
                best = h.clone();
            }
        }
    }
    if max_reorg >= 2 {
        st.label("history:node-A-reorg-depth>=2");
    }
    if reorged {
        st.label("history:node-A-reorged");
    }
    let side_blocks: Vec<H> = built.blocks.iter().filter(|h| !tree.is_ancestor(h, &t0)).cloned().collect();
    if !side_blocks.is_empty() {
        st.label("history:has-side-blocks");
    }
    let mut known: BTreeMap<[u8; 32], TransactionView> = built.txs.values().map(|t| (h32(&t.hash()), t.clone())).collect();

    // --- nodes
    // family `dao`, odd variants: no minimum fee rate, so that outputs exactly at / one below the
    // maximum withdraw (fee 0 / 1) are policy-neutral and the pool side is judged for completeness too
    let min_fee_rate = if case.dao && case.variant % 2 == 1 { 0u64 } else { 1000u64 };
    if case.dao {
        st.label(if min_fee_rate == 0 { "dao:pool-without-min-fee-rate" } else { "dao:pool-min-fee-rate-1000" });
    }
    let mk_node = || -> Result<Node, Violation> {
        // paths are left empty: the node driver points them into its own scratch directory
        let mut pc = ckb_app_config::TxPoolConfig::default();
        pc.min_fee_rate = FeeRate::from_u64(min_fee_rate);
        pc.min_rbf_rate = FeeRate::from_u64(if case.rbf { 1500 } else { min_fee_rate });
        Node::start(&env, NodeCfg { tx_pool: Some(pc), ..Default::default() }).map_err(|e| Violation::new("harness:node-start", e))
    };
    let node_a = mk_node()?;
    let node_b = mk_node()?;
    for h in &order_a {
        if let Err(e) = node_a.submit(&tree.get(h).block) {
            vfail!("harness:history-block-refused", "node A refused history block #{}: {e}", tree.get(h).number);
        }
    }
    for b in tree.path(&t0).iter().skip(1) {
        if let Err(e) = node_b.submit(&b.block) {
            vfail!("harness:history-block-refused", "node B refused history block #{}: {e}", b.number);
        }
    }
    // node A may sit on a side block of the same total difficulty (first received wins a tie);
    // the first runway block then reorgs it onto the main chain
    let a_tip = node_a.tip_hash();
    let a_ok = a_tip == t0 || tree.blocks.get(&a_tip).map(|b| b.td == tree.get(&t0).td).unwrap_or(false);
    if !a_ok || node_b.tip_hash() != t0 {
        vfail!("harness:history-tip-differs", "tips after the history: A {} B {} model {}", a_tip, node_b.tip_hash(), t0);
    }
    if a_tip != t0 {
        st.label("history:node-A-reorgs-onto-the-runway");
    }

    // --- runway plan
    let c_min = 1 + close as usize;
    let offsets: Vec<u64> = {
        let mut v = vec![close, close + 1, far];
        v.retain(|d| *d <= far);
        v.dedup();
        v
    };
    let c_last = c_min + 2;
    let len = c_last + 1 + far as usize + 3;
    let sched = dry_schedule(&env, &tree, &t0, &case.runway_ts, case.round_ts, len + 1).map_err(|e| Violation::new("harness:dry-run", e))?;
    let params_block = Params {
        maturity: Ep::from_full(cfg.cellbase_maturity),
        as_hash: env.always_success_lock.code_hash(),
        af_hash: env.always_failure_lock.code_hash(),
        pool: false,
        dao_type_hash: env.consensus.dao_type_hash(),
        dao_lock_start,
    };
    let params_pool = Params { pool: true, ..params_block.clone() };

    // candidate slots: (create step, first probe step)
    let mut order: Vec<(usize, usize, usize)> = case
        .cands
        .iter()
        .enumerate()
        .filter(|(i, _)| case.keep.get(*i).copied().unwrap_or(1) != 0)
        .map(|(i, c)| {
            let create = c_min + (c.batch as usize % 3);
            let d = offsets[pick_idx(c.offset as u32, offsets.len())] as usize;
            (create, create + 1 + d, i)
        })
        .collect();
    order.sort();

    let prep = build_prep(&env, &tree, &t0, case.big_groups, case.dao);
    if case.dao {
        st.label(if prep.dao_deposits.is_empty() { "prep:no-dao-cells" } else { "prep:dao-cells" });
    }
    if prep.txs.len() < 2 {
        st.label("prep:no-dep-groups");
    }
    if prep.groups.contains_key("x2048") {
        st.label("prep:big-groups");
    }
    for t in &prep.txs {
        known.insert(h32(&t.hash()), t.clone());
    }

    let mut cands: Vec<Cand> = vec![];
    let mut next_plain = 0usize;
    let mut next_dao = (0usize, 0usize);
    let mut cur = t0.clone();
    let nodes: [(&str, &Node); 2] = [("A(reorged)", &node_a), ("B(linear)", &node_b)];
    let mut seen_hashes: BTreeSet<[u8; 32]> = BTreeSet::new();

    for r in 1..=len {
        // ---- (a) candidates created on the current tip (= runway block r-1)
        let mut proposals = vec![];
        if r == 1 {
            for t in &prep.txs {
                proposals.push(t.proposal_short_id());
            }
        }
        {
            // (tx, index in `cands`) of the latest / the latest model-valid candidate of a group
            let mut prev_in_group: BTreeMap<(usize, usize), (TransactionView, usize)> = BTreeMap::new();
            let mut prev_valid_in_group: BTreeMap<(usize, usize), (TransactionView, usize)> = BTreeMap::new();
            let mut prev2_in_group: BTreeMap<(usize, usize), (TransactionView, usize)> = BTreeMap::new();
            for (create, probe, i) in order.iter().filter(|o| o.0 == r - 1) {
                let spec = &case.cands[*i];
                let mut g = GenCtx {
                    env: &env,
                    tree: &tree,
                    tip: cur.clone(),
                    step: r - 1,
                    sched: &sched,
                    window: (close, far),
                    maturity: params_block.maturity,
                    prep: &prep,
                    side_blocks: &side_blocks,
                    next_plain,
                    next_dao,
                    dao_lock_start,
                };
                let grp = (*create, *probe);
                let wants_parent = spec.inputs.iter().any(|i| i.kind == 8);
                let prev = if wants_parent { prev_valid_in_group.get(&grp).or(prev_in_group.get(&grp)) } else { prev_in_group.get(&grp) }.cloned();
                let b = build_candidate(&mut g, spec, *probe, prev.as_ref().map(|p| &p.0), prev2_in_group.get(&grp).map(|p| &p.0));
                next_plain = g.next_plain;
                next_dao = g.next_dao;
                let b = match b {
                    Some(b) => b,
                    None => {
                        st.label("cand:unbuildable");
                        continue;
                    }
                };
                if !seen_hashes.insert(h32(&b.tx.hash())) || known.contains_key(&h32(&b.tx.hash())) {
                    st.label("cand:duplicate-skipped");
                    continue;
                }
                known.insert(h32(&b.tx.hash()), b.tx.clone());
                // a child / a conflicting sibling meets its relative in the pool: both are submitted
                // at the same stage (the relative first: it comes first in `cands`)
                let mut pool_submit = spec.pool_submit;
                if b.intents.contains(&"child-of-previous")
                    || b.intents.contains(&"shares-input-with-previous")
                    || b.intents.contains(&"dep-on-previous-candidates-input")
                {
                    if let Some((_, pi)) = &prev {
                        if cands[*pi].pool_submit != 0 {
                            pool_submit = cands[*pi].pool_submit;
                        } else if pool_submit != 0 {
                            cands[*pi].pool_submit = pool_submit;
                        }
                    }
                }
                if b.intents.contains(&"replacement-scenario") {
                    // all three meet in the pool, in creation order
                    if pool_submit == 0 {
                        pool_submit = 1;
                    }
                    if let Some((_, pi)) = &prev {
                        cands[*pi].pool_submit = pool_submit;
                    }
                    if let Some((_, pi)) = prev2_in_group.get(&grp) {
                        cands[*pi].pool_submit = pool_submit;
                    }
                }
                if let Some(old) = prev_in_group.insert(grp, (b.tx.clone(), cands.len())) {
                    prev2_in_group.insert(grp, old);
                }
                {
                    let s = &sched[(*probe).min(sched.len() - 1)];
                    let penv = PosEnv { number: s.number, epoch: s.epoch, median: s.median };
                    if eval(&View::new(&tree, &cur), &b.tx, &penv, &params_block).valid() {
                        prev_valid_in_group.insert(grp, (b.tx.clone(), cands.len()));
                    }
                }
                proposals.push(b.tx.proposal_short_id());
                for i in &b.intents {
                    st.label(&format!("intent:{i}"));
                }
                cands.push(Cand {
                    tx: b.tx,
                    create: *create,
                    proposed_at: r,
                    probe: *probe,
                    retries_left: spec.retries,
                    pool_submit,
                    submitted: false,
                    intents: b.intents,
                    done: false,
                });
            }
        }

        // ---- (b) pool side on the current tip
        let tipn = tree.get(&cur).number;
        for (who, n) in nodes.iter() {
            if !n.wait_pool_synced(Duration::from_secs(30)) {
                vfail!("harness:pool-not-synced", "node {who} pool did not reach tip #{tipn}");
            }
        }
        // development aid (mutation probes): VERIF_C04_SIDE=block skips the pool side
        let block_only = std::env::var("VERIF_C04_SIDE").map(|v| v == "block").unwrap_or(false);
        let alive: Vec<usize> = if block_only { vec![] } else { (0..cands.len()).filter(|i| !cands[*i].done).collect() };
        // pass 1: dry runs; pass 2: submissions (and dry runs of what they affect)
        for pass in 0..2 {
            if pass == 1 {
                let mut did = false;
                for &ci in &alive {
                    let c = &cands[ci];
                    let id = pid(&c.tx.proposal_short_id());
                    let due = match c.pool_submit {
                        1 => c.create == r - 1,
                        2 => tree.committable(&cur).contains(&id),
                        _ => false,
                    };
                    if !due || c.submitted {
                        continue;
                    }
                    let mut results = vec![];
                    let mut ctxs = vec![];
                    for (who, n) in nodes.iter() {
                        let ctx = pool_ctx(n, &known)?;
                        let o = offer_and_judge(who, n, true, &tree, &cur, &ctx, &c.tx, &params_pool, case.rbf, min_fee_rate, tol, st)?;
                        note_features(st, "pool", &o.ev, c, r, reorged, o.parent_pooled);
                        if o.parent_pooled && !matches!(o.res, PoolRes::Err(_)) {
                            st.label("pool:submit-accepted-child-of-pooled-parent");
                        }
                        results.push(o.res);
                        ctxs.push(ctx.ids);
                    }
                    if ctxs[0] == ctxs[1] && results[0] != results[1] {
                        vfail!(
                            "context:pool-verdict-differs:submit_local_tx",
                            "same chain, same pool contents, tip #{tipn}: node A {:?}, node B {:?}; tx = {}",
                            results[0],
                            results[1],
                            tx_brief(&c.tx)
                        );
                    }
                    cands[ci].submitted = true;
                    did = true;
                }
                if !did {
                    break;
                }
            }
            let ctx_a = pool_ctx(&node_a, &known)?;
            let ctx_b = pool_ctx(&node_b, &known)?;
            let same_pool = ctx_a.ids == ctx_b.ids;
            st.label(if same_pool { "pool:contexts-equal" } else { "pool:contexts-differ(reorg leftovers)" });
            for &ci in &alive {
                let c = &cands[ci];
                let mut results = vec![];
                let mut models: Vec<(Vec<String>, Vec<String>, Vec<String>)> = vec![];
                for ((who, n), ctx) in nodes.iter().zip([&ctx_a, &ctx_b]) {
                    let o = offer_and_judge(who, n, false, &tree, &cur, ctx, &c.tx, &params_pool, case.rbf, min_fee_rate, tol, st)?;
                    if o.parent_pooled && !matches!(o.res, PoolRes::Err(_)) {
                        st.label("pool:dry-run-accepted-child-of-pooled-parent");
                    }
                    note_features(st, "pool", &o.ev, c, r, reorged, o.parent_pooled);
                    if sample_ok(st, case.dao, &o.ev.feats) && (case.dao || r % 5 == 0) && o.ev.feats.iter().any(|f| is_boundary_feat(f)) {
                        st.sample(|| {
                            json!({"side": "pool", "api": "test_accept_tx", "node": who, "variant": case.variant % 4, "tip": tipn, "pool_size": ctx.ids.len(),
                                "model_failed": o.ev.failed, "not_judged": o.model.2, "features": o.ev.feats, "answer": format!("{:?}", o.res).chars().take(160).collect::<String>(), "tx": tx_brief(&c.tx)})
                        });
                    }
                    models.push(o.model);
                    results.push(o.res);
                }
                // pools that differ only in transactions unrelated to this one must not matter
                let comparable = same_pool || (models.len() == 2 && models[0] == models[1]);
                if !same_pool && comparable {
                    st.label("pool:compared-across-different-pools");
                }
                // across different pools the verdict must agree, but which of several unresolvable
                // out points is named first legitimately depends on what each pool holds
                let differ = |x: &PoolRes, y: &PoolRes| -> bool {
                    if same_pool {
                        return x != y;
                    }
                    let strip = |r: &PoolRes| match r {
                        PoolRes::Err(e) => PoolRes::Err(e.split("OutPoint(").next().unwrap_or("").to_string()),
                        other => other.clone(),
                    };
                    strip(x) != strip(y)
                };
                if comparable && results.len() == 2 && differ(&results[0], &results[1]) {
                    // what the pools really hold (dump hook) next to what get_all_ids lists
                    let mut hidden = String::new();
                    for (who, n, ctx) in [("A", &node_a, &ctx_a), ("B", &node_b, &ctx_b)] {
                        if let Ok(d) = n.shared.tx_pool_controller().verif_dump() {
                            let extra: Vec<String> = d
                                .entries
                                .iter()
                                .filter(|e| !ctx.ids.contains(&h32(&e.tx_hash)))
                                .map(|e| format!("{:#x}", e.tx_hash).chars().take(14).collect())
                                .collect();
                            hidden.push_str(&format!(" node {who}: {} entries in the dump, {} listed by get_all_ids, not listed: {:?};", d.entries.len(), ctx.ids.len(), extra));
                        }
                    }
                    vfail!(
                        "context:pool-verdict-differs:test_accept_tx",
                        "same chain, {} (the model judges the transaction alike in both), tip #{tipn}: node A {:?}, node B {:?}; tx = {};{hidden}",
                        if same_pool { "same pool contents" } else { "pools differing in unrelated transactions" },
                        results[0],
                        results[1],
                        tx_brief(&c.tx)
                    );
                }
            }
        }

        // ---- (c) block side: candidates due at this position
        let ts = next_ts(&tree, &cur, case.runway_ts[r % case.runway_ts.len()], case.round_ts);
        let slot = &sched[r];
        let benv = PosEnv { number: slot.number, epoch: slot.epoch, median: slot.median };
        let binfo = CellInfo { number: slot.number, epoch: slot.epoch, ts, cellbase: false, hash: None };
        let mut base_spec = runway_spec(&env, ts);
        base_spec.proposals = proposals.clone();
        let mut accepted: Vec<TransactionView> = vec![];
        if r == 1 + close as usize {
            accepted.extend(prep.txs.iter().cloned());
        }
        let mut view = View::new(&tree, &cur);
        for t in &accepted {
            view.apply(t, Some(binfo));
        }
        let due: Vec<usize> = (0..cands.len()).filter(|i| !cands[*i].done && cands[*i].probe == r).collect();
        for &ci in &due {
            let ev = eval(&view, &cands[ci].tx, &benv, &params_block);
            st.eval("block-verdict");
            if slot.epoch.i == 0 {
                st.label("position:epoch-head");
            } else if slot.epoch.i + 1 == slot.epoch.l {
                st.label("position:epoch-tail");
            }
            st.label(&format!("position:window-offset-{}", r - cands[ci].proposed_at));
            let same_block_parent = cands[ci].tx.input_pts_iter().any(|o| accepted.iter().any(|a| a.hash() == o.tx_hash()));
            note_features(st, "block", &ev, &cands[ci], r, reorged, same_block_parent);
            if ev.valid() {
                st.label("block:model-valid");
                if same_block_parent {
                    st.label("block:valid-child-of-same-block-parent");
                }
                view.apply(&cands[ci].tx, Some(binfo));
                accepted.push(cands[ci].tx.clone());
                cands[ci].done = true;
                continue;
            }
            for f in &ev.failed {
                st.label(&format!("block:model-invalid:{f}"));
            }
            if ev.failed.len() == 1 {
                st.label("block:single-rule-violation");
            }
            let single_rule = if ev.failed.len() == 1 { Some(ev.failed[0].clone()) } else { None };
            // probe block: the accepted ones so far plus this one
            let mut sp = base_spec.clone();
            sp.txs = accepted.clone();
            let mb0 = tree.build(&cur, &sp, &opts()).map_err(|e| Violation::new("harness:model-build", e))?;
            let x = &cands[ci].tx;
            let mut dao = mb0.dao;
            let mut added: u128 = 0;
            let mut freed: u128 = 0;
            for (o, d) in x.outputs_with_data_iter() {
                added += occupied_shannons(&o, d.len());
            }
            for op in x.input_pts_iter() {
                let k = cell_key(&op);
                // every listed input counts, also a repeated or already spent one (what a node
                // that skipped the liveness rule would compute)
                let cell = match view.created.get(&k) {
                    Some(c) => Some((c.output.clone(), c.data.len())),
                    None => tree.get(&cur).state.live.get(&k).map(|c| (c.output.clone(), c.data.len())),
                };
                if let Some((o, dl)) = cell {
                    freed += occupied_shannons(&o, dl);
                }
            }
            dao.u = (dao.u as u128 + added).saturating_sub(freed) as u64;
            // NervosDAO interest the transaction claims (as far as it is defined) leaves S
            dao.s = (dao.s as u128).saturating_sub(ev.interest) as u64;
            let probe: BlockView = mb0.block.as_advanced_builder().transaction(x.clone()).dao(dao.pack()).build();
            let mut verdicts = vec![];
            for (who, n) in nodes.iter() {
                let res = n.submit(&probe);
                node_panic_violation()?;
                match &res {
                    Ok(_) => {
                        vfail!(
                            format!("block:accepted-invalid:{}", ev.failed[0]),
                            "node {who} accepted block #{} committing (as transaction {}) a transaction the model rejects for {:?} at this position (epoch {:?}, median {}); tx = {}",
                            slot.number,
                            accepted.len() + 1,
                            ev.failed,
                            slot.epoch,
                            slot.median,
                            tx_brief(x)
                        );
                    }
                    Err(e) => {
                        let cl = err_class(e);
                        st.label(&format!("block:refused:{cl}"));
                        if let Some(rule) = &single_rule {
                            st.label(&format!("block:pair:{rule} -> {cl}"));
                        }
                        // refused because of the transaction itself (error attributed to its index,
                        // or an out-point / header resolution error)?
                        // (a NervosDAO transaction whose maximum withdraw is undefined is refused by
                        // the DAO-field calculation of the block, before the per-transaction verifiers)
                        let about_tx = e.contains(&format!("BlockTransactionsError(index: {}", accepted.len() + 1))
                            || e.contains("OutPoint")
                            || cl == "lock script size of deposit cell"
                            || (cl == "Dao" && ev.failed.iter().any(|f| f.starts_with("dao:")));
                        if vacuous_class(cl) && !about_tx {
                            vfail!(
                                "harness:probe-refused-for-another-reason",
                                "probe block #{} for {:?} refused with: {e}",
                                slot.number,
                                ev.failed
                            );
                        }
                        verdicts.push(cl);
                    }
                }
                if n.tip_hash() != cur {
                    vfail!(
                        "block:refused-block-changed-the-tip",
                        "node {who}: tip moved to {} after the refused probe block #{}",
                        n.tip_hash(),
                        slot.number
                    );
                }
            }
            if verdicts[0] != verdicts[1] {
                vfail!(
                    "context:block-verdict-differs",
                    "probe block #{}: node A refused with {}, node B with {}; tx = {}",
                    slot.number,
                    verdicts[0],
                    verdicts[1],
                    tx_brief(x)
                );
            }
            if sample_ok(st, case.dao, &ev.feats) && ev.feats.iter().any(|f| is_boundary_feat(f)) {
                let cc = &cands[ci];
                st.sample(|| {
                    json!({"side": "block", "variant": case.variant % 4, "position": slot.number, "epoch": [slot.epoch.n, slot.epoch.i, slot.epoch.l],
                        "model": ev.failed, "features": ev.feats, "node": verdicts[0], "intents": cc.intents, "tx": tx_brief(&cc.tx)})
                });
            }
            // retry at the next position when only time stands in the way
            let c = &mut cands[ci];
            let still_in_window = (r + 1 - c.proposed_at) as u64 <= far;
            if ev.time_only() && c.retries_left > 0 && still_in_window && r + 1 <= len {
                c.retries_left -= 1;
                c.probe = r + 1;
                st.label("block:retry-at-next-position");
            } else {
                c.done = true;
            }
        }

        // ---- (d) the real block of this position
        let mut sp = base_spec.clone();
        sp.txs = accepted.clone();
        let mb = tree.build(&cur, &sp, &opts()).map_err(|e| Violation::new("harness:model-build", e))?;
        let got = slot_of(&mb, slot.median);
        if got.number != slot.number || got.epoch != slot.epoch || got.ts != ts {
            vfail!("harness:schedule-mismatch", "runway block {r}: planned {:?}, built {:?}", slot, got);
        }
        let n_cand = accepted.len() - if r == 1 + close as usize { prep.txs.len() } else { 0 };
        for (who, n) in nodes.iter() {
            let res = n.submit(&mb.block);
            node_panic_violation()?;
            if let Err(e) = &res {
                if n_cand == 0 {
                    vfail!("harness:runway-block-refused", "node {who} refused runway block #{} without candidates: {e}", slot.number);
                }
                vfail!(
                    format!("block:rejected-valid:{}", err_class(e)),
                    "node {who} refused block #{} (epoch {:?}, median {}) whose {} committed transactions all meet every rule of the model: {e}; txs = {}",
                    slot.number,
                    slot.epoch,
                    slot.median,
                    accepted.len(),
                    Value::Array(accepted.iter().map(tx_brief).collect())
                );
            }
            if n.tip_hash() != mb.hash {
                vfail!("harness:runway-tip", "node {who}: tip {} after accepted runway block #{}", n.tip_hash(), slot.number);
            }
        }
        if n_cand > 0 {
            st.label_n("block:valid-candidates-committed", n_cand as u64);
            if sample_ok(st, case.dao, &[]) && !case.dao && r % 3 == 0 {
                st.sample(|| json!({"side": "block", "variant": case.variant % 4, "position": slot.number, "accepted_block_with": accepted.iter().map(tx_brief).collect::<Vec<_>>()}));
            }
        }
        cur = tree.insert(mb);
    }
    node_panic_violation()?;
    node_a.stop();
    node_b.stop();
    Ok(())
}

fn run(ctx: &Ctx) {
    ctx.shrink_iters.set(100);
    let max_blocks = ctx.tier.pick(22, 40);
    let max_cands = ctx.tier.pick(34, 40);
    let tol = tolerate(ctx);
    // development aid: VERIF_ONLY_SUB=<sub name> runs one family only
    let only = std::env::var("VERIF_ONLY_SUB").ok();
    let want = |sub: &str| only.as_deref().map(|o| o == sub).unwrap_or(true);
    if want("tx-admission") {
        let cases = ctx.cases(300, 4500);
        ctx.run_prop("tx-admission", cases, case_strategy(max_blocks, max_cands), |c, st| prop(c, st, tol));
    }
    if want("dao") {
        let cases = ctx.cases(96, 1440);
        ctx.run_prop("dao", cases, dao_case_strategy(max_blocks, max_cands), |c, st| prop(c, st, tol));
    }
}

fn replay(ctx: &Ctx, _sub: &str, v: &Value) -> Verdict {
    let c: Case = from_case(v)?;
    let mut st = ctx.stats.borrow_mut();
    prop(&c, &mut st, tolerate(ctx))
}

fn tolerate(ctx: &Ctx) -> Tolerate {
    Tolerate {
        dry_run_conflict: ctx.is_known(SIG_DRY_RUN_CONFLICT) && !ctx.strict,
        replacement_dep_submit: ctx.is_known(SIG_REPLACEMENT_DEP_SUBMIT) && !ctx.strict,
        replacement_dep_dry: ctx.is_known(SIG_REPLACEMENT_DEP_DRY) && !ctx.strict,
    }
}
