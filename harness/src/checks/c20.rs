//! C20 — the node's proposal view equals the on-chain proposal window, also after restart.
//!
//! A history is a list of operations interpreted against the reference model AND a real node at the
//! same time: blocks (plan.rs steps: random proposal sets in blocks and uncles, forks, commits that
//! are often withheld so that proposals age out of the window), restarts of the node on its
//! persistent directory, `ChainController::truncate`, and probe blocks built by the model on the
//! current tip (committing an id that is in the gap / just left the window / was never proposed:
//! must be rejected by the verifier; committing an id proposed exactly w_far blocks earlier: must be
//! accepted).  After every operation `shared.snapshot().proposals()` must equal the model's
//! `committable(tip)` / `gap(tip)` (the statement's definition); a restarted node's view must equal
//! the view it had before it was stopped.
use crate::common::*;
use crate::model::*;
use crate::node::*;
use crate::plan::*;
use crate::vfail;
use ckb_types::{
    core::{ScriptHashType, TransactionView},
    packed::{self, ProposalShortId},
    prelude::*,
};
use proptest::prelude::*;
use serde::{Deserialize, Serialize};
use serde_json::{Value, json};
use std::collections::{BTreeMap, BTreeSet};
use std::time::Duration;

pub fn spec() -> CheckSpec {
    CheckSpec {
        id: "C20",
        level: "exploration",
        rule: "proptest: operation lists interpreted against the reference model and a real node in lock step — blocks from plan.rs steps (random proposal sets in blocks and in uncles, forks from recent blocks / other leaves, commits often withheld so proposals age out), node restarts on the persistent directory, ChainController::truncate by depths chosen around the window, probe blocks on the tip built by the model (commit of an id in the gap / one block past w_far / outside the window / never proposed: must be rejected with a Commit error; commit of an id proposed exactly w_far or w_close blocks earlier: must be accepted) — under proposal windows (2,10), (1,2), (2,4), constant and dynamic difficulty (shorter-but-heavier reorgs); a directed family builds a reorg of exactly depth d for d in {1, w_close, w_close+1, w_far-1, w_far, w_far+1, w_far+2, w_far+5} with restarts / probes sprinkled in. After every operation: snapshot.proposals().set()/gap() = union of proposal ids (uncles' included) of main-chain blocks at distance w_close..w_far (resp. < w_close) from the next block; the freshly restarted node's view = the view before the stop; with a mine-mode tx-pool holding the proposed transactions, no pool entry stays Proposed once its id left the window. A case = (variant, operation list); non-trivial = contains a reorg of depth d with w_close <= d <= w_far+1, or a restart at most w_far blocks after a reorg; distinct by hash of the case.",
        assumptions: &[
            "blocks are delivered synchronously, parents first; the restart is a clean stop (crash points are C08's subject)",
            "dropped ids are observed through the pool only in one direction (an entry that stays Proposed after its id left the window); ids dropped although still in the window are re-promoted by the pool at once and cannot be seen without a hook",
            "after ChainController::truncate (a testing API) the pool is cleared as the RPC does",
        ],
        workers: |_| 8,
        watchdog_s: |t| t.pick(1500, 7200),
        run,
        replay,
    }
}

#[derive(Clone, Debug, Serialize, Deserialize)]
pub enum Op {
    Block(BlockStep),
    Restart,
    /// truncate the main chain; the depth is chosen from {1, 2, w_close, w_far-1, w_far, w_far+1, w_far+3}
    Truncate(u16),
    /// probe block on the tip committing a transaction whose id is 0: in the gap, 1: proposed exactly
    /// w_far+1 blocks before, 2: known but outside the window, 3: never proposed — must be rejected
    Reject(u8, u16),
    /// extend the tip with a block committing a transaction proposed exactly w_far blocks earlier
    /// (if there is none: any committable one) — must be accepted
    CommitEdge(u16),
}

#[derive(Clone, Debug, Serialize, Deserialize)]
pub struct Case {
    pub variant: u8,
    /// run a mine-mode tx-pool, feed it the proposed transactions and watch entry states
    pub pool: bool,
    pub ops: Vec<Op>,
}

pub fn variant_cfg(v: u8) -> SpecCfg {
    let mut c = SpecCfg::default();
    match v % 6 {
        0 => {
            c.permanent_difficulty = true;
            c.epoch_duration_target = 160; // 20 blocks / epoch
            c.proposal_window = (2, 10);
        }
        1 => {
            c.permanent_difficulty = true;
            c.epoch_duration_target = 160;
            c.proposal_window = (1, 2);
        }
        2 => {
            c.permanent_difficulty = true;
            c.epoch_duration_target = 160;
            c.proposal_window = (2, 4);
        }
        3 => {
            c.permanent_difficulty = false;
            c.genesis_epoch_length = 4;
            c.proposal_window = (2, 10);
        }
        4 => {
            c.permanent_difficulty = false;
            c.genesis_epoch_length = 7;
            c.proposal_window = (2, 4);
        }
        _ => {
            c.permanent_difficulty = false;
            c.genesis_epoch_length = 3;
            c.proposal_window = (1, 2);
        }
    }
    c
}

fn block_step(fork_pct: u32) -> impl Strategy<Value = BlockStep> {
    (
        prop_oneof![
            (100 - fork_pct) => Just(0u8),
            fork_pct / 2 => Just(1u8),
            fork_pct - fork_pct / 2 => Just(2u8),
        ],
        any::<u16>(),
        prop_oneof![4 => Just(1u8), 2 => Just(0u8), 2 => Just(2u8), 1 => Just(3u8), 1 => Just(5u8)],
        prop_oneof![3 => Just(0u8), 1 => 1u8..=2],
        any::<u16>(),
        prop_oneof![2 => Just(vec![]), 5 => proptest::collection::vec(tx_step_strategy(), 1..=3)],
        prop_oneof![3 => Just(0u8), 1 => 1u8..=2],
        any::<u16>(),
        // commits are withheld half of the time so that proposals reach w_far and leave the window
        prop_oneof![3 => Just(0u16), 2 => Just(0xffffu16), 2 => any::<u16>()],
        0u8..4,
    )
        .prop_map(
            |(parent_mode, parent, ts, uncles, uncle_sel, new_txs, repropose, repropose_sel, commit_mask, miner)| BlockStep {
                parent_mode,
                parent,
                ts,
                uncles,
                uncle_sel,
                new_txs,
                repropose,
                repropose_sel,
                commit_mask,
                miner,
                ext_extra: 0,
                invalid: 0,
            },
        )
}

fn extra_op() -> impl Strategy<Value = Option<Op>> {
    prop_oneof![
        20 => Just(None),
        2 => Just(Some(Op::Restart)),
        1 => any::<u16>().prop_map(|s| Some(Op::Truncate(s))),
        3 => (0u8..4, any::<u16>()).prop_map(|(k, s)| Some(Op::Reject(k, s))),
        2 => any::<u16>().prop_map(|s| Some(Op::CommitEdge(s))),
    ]
}

pub fn case_strategy(max_blocks: usize) -> impl Strategy<Value = Case> {
    (
        0u8..6,
        prop_oneof![3 => Just(false), 1 => Just(true)],
        proptest::collection::vec((block_step(35), extra_op()), 4..=max_blocks),
    )
        .prop_map(|(variant, pool, steps)| {
            let mut ops = vec![];
            for (b, e) in steps {
                ops.push(Op::Block(b));
                if let Some(e) = e {
                    ops.push(e);
                }
            }
            Case { variant, pool, ops }
        })
}

/// Third family: histories in which rival branches contain a block that breaks a contextual rule
/// (DAO field, reward, chain root, unproposed commit, double spend ...): the switch to such a branch is
/// refused as a whole, then the honest chain goes on.  The proposal view must not take anything from
/// the refused branch nor forget what the main chain proposed.
pub fn refused_switch_strategy(max_blocks: usize) -> impl Strategy<Value = Case> {
    (
        0u8..6,
        prop_oneof![3 => Just(false), 1 => Just(true)],
        proptest::collection::vec((block_step(40), extra_op(), 0u8..100, 1u8..=11), 8..=max_blocks),
    )
        .prop_map(|(variant, pool, steps)| {
            let mut ops = vec![];
            for (i, (mut b, e, roll, kind)) in steps.into_iter().enumerate() {
                if i >= 4 && roll < 14 {
                    // a rule-breaking block on top of the heaviest leaf or of a rival leaf
                    b.invalid = kind;
                    if b.parent_mode == 2 {
                        b.parent_mode = 1;
                    }
                } else if b.parent_mode == 0 {
                    // honest miners extend the heaviest valid chain
                    b.parent_mode = 3;
                }
                ops.push(Op::Block(b));
                if let Some(e) = e {
                    ops.push(e);
                }
            }
            Case { variant, pool, ops }
        })
}

/// selector that makes `pick_idx(sel, len) == k`
fn sel_for(k: usize, len: usize) -> u16 {
    if len == 0 {
        return 0;
    }
    (((k as u64) << 16).div_ceil(len as u64)).min(65535) as u16
}

/// Directed family: main chain A, a sibling stub S of the block d below A's future tip, then S's
/// branch grown until it takes over (with constant difficulty: a reorg of depth exactly d), then
/// growth; restarts and probes sprinkled in (operations that would change the leaf order are kept
/// out of the take-over phase).
pub fn directed_strategy() -> impl Strategy<Value = Case> {
    (
        (0u8..6, prop_oneof![3 => Just(false), 1 => Just(true)], any::<u16>(), 0usize..8, any::<u16>()),
        proptest::collection::vec((block_step(0), extra_op()), 64),
    )
        .prop_map(|((variant, pool, a1sel, dclass, bsel), pool_steps)| {
            let (close, far) = variant_cfg(variant).proposal_window;
            let (close, far) = (close as usize, far as usize);
            let d = [1, close, close + 1, far - 1, far, far + 1, far + 2, far + 5][dclass].max(1);
            let a1 = pick_idx(a1sel as u32, far + 4);
            let b_extra = pick_idx(bsel as u32, far + 3);
            let mut src = pool_steps.into_iter().cycle();
            let mut ops = vec![];
            let mut n_order = 1usize; // tree.order.len(): genesis
            let push = |ops: &mut Vec<Op>, mode: u8, parent: u16, allow: u8, src: &mut dyn Iterator<Item = (BlockStep, Option<Op>)>| {
                let (mut b, e) = src.next().unwrap();
                b.parent_mode = mode;
                b.parent = parent;
                ops.push(Op::Block(b));
                match e {
                    // allow: 0 = everything, 1 = only operations that leave the tree alone
                    Some(Op::CommitEdge(_)) | Some(Op::Truncate(_)) if allow == 1 => {}
                    Some(e) => ops.push(e),
                    None => {}
                }
            };
            for _ in 0..a1 {
                push(&mut ops, 0, 0, 1, &mut src);
                n_order += 1;
            }
            // A1, then its sibling S (child of order[n-2], chosen through mode 2)
            push(&mut ops, 0, 0, 1, &mut src);
            n_order += 1;
            let lo = n_order.saturating_sub(12);
            push(&mut ops, 2, sel_for(n_order - 2 - lo, n_order - lo), 1, &mut src);
            n_order += 1;
            for _ in 1..d {
                push(&mut ops, 0, 0, 1, &mut src);
                n_order += 1;
            }
            // take-over: S is the first leaf when A has grown past A1, else the last one
            for i in 0..d {
                let sel = if i == 0 && d > 1 { 0 } else { 65535 };
                push(&mut ops, 1, sel, 1, &mut src);
                n_order += 1;
            }
            for _ in 0..b_extra {
                push(&mut ops, 0, 0, 0, &mut src);
            }
            let _ = n_order;
            Case { variant, pool, ops }
        })
}

fn ids_of<'a>(it: impl Iterator<Item = &'a ProposalShortId>) -> BTreeSet<[u8; 10]> {
    it.map(pid).collect()
}

fn short(ids: &BTreeSet<[u8; 10]>) -> String {
    ids.iter().take(6).map(|i| hex(&i[..4])).collect::<Vec<_>>().join(",")
}

/// The chain service scans the store for blocks left unverified by the previous run on a thread
/// of its own; a block delivered (and failing) while that scan runs races with it (recorded as a
/// side finding, not this property's subject).  Wait for the scan like the repository's tests do.
fn wait_started(node: &Node) -> Verdict {
    let start = std::time::Instant::now();
    while node.chain().is_verifying_unverified_blocks_on_startup() {
        node_panic_violation()?;
        if start.elapsed() > Duration::from_secs(60) {
            vfail!("harness:startup-scan-timeout", "init_load_unverified did not finish in 60 s");
        }
        std::thread::sleep(Duration::from_millis(1));
    }
    Ok(())
}

struct Eng<'a> {
    env: &'a Env,
    interp: Interp<'a>,
    node: Option<Node>,
    node_dir: std::path::PathBuf,
    pool: bool,
    cur: H,
    close: u64,
    far: u64,
    /// tip moves since the latest reorg / truncate that detached blocks
    since_reorg: Option<u64>,
    /// a switch to a heavier branch was refused since the last tip change
    failed_switch: bool,
    /// blocks the node refused and does not hold (and their descendants, which are not delivered)
    not_stored: std::collections::HashSet<H>,
    nontrivial: bool,
    restarts: u64,
    max_depth: u64,
    probe_seq: u32,
}

impl Eng<'_> {
    fn node(&self) -> &Node {
        self.node.as_ref().unwrap()
    }

    fn start_node(&mut self, st: &mut Stats) -> Verdict {
        let mut tx_pool = default_tx_pool_config(&self.node_dir);
        tx_pool.min_fee_rate = ckb_types::core::FeeRate::from_u64(0);
        let block_assembler = if self.pool {
            let l = &self.env.always_success_lock;
            Some(ckb_app_config::BlockAssemblerConfig {
                code_hash: ckb_types::H256::from_slice(l.code_hash().as_slice()).unwrap(),
                args: Default::default(),
                message: Default::default(),
                hash_type: ScriptHashType::Data.into(),
                use_binary_version_as_message_prefix: false,
                binary_version: String::new(),
                update_interval_millis: 800,
                notify: vec![],
                notify_scripts: vec![],
                notify_timeout_millis: 800,
            })
        } else {
            None
        };
        let mut last = String::new();
        for attempt in 0..40 {
            let cfg = NodeCfg {
                dir: Some(self.node_dir.clone()),
                tx_pool: Some(tx_pool.clone()),
                block_assembler: block_assembler.clone(),
                ..Default::default()
            };
            match std::panic::catch_unwind(std::panic::AssertUnwindSafe(|| Node::start(self.env, cfg))) {
                Ok(Ok(n)) => {
                    wait_started(&n)?;
                    self.node = Some(n);
                    st.label_n("restart:start-retries", attempt);
                    return Ok(());
                }
                Ok(Err(e)) => last = e,
                Err(_) => last = "panic while starting the node".into(),
            }
            // the previous instance's threads may still be releasing the database lock
            std::thread::sleep(Duration::from_millis(50 + 25 * attempt));
        }
        vfail!("harness:node-start", "{last}")
    }

    fn tree(&self) -> &Tree {
        &self.interp.tree
    }

    /// distance (from the next block) of the nearest main-chain block that proposes `id`
    fn nearest_proposal(&self, id: &[u8; 10]) -> Option<u64> {
        let tree = self.tree();
        let n = tree.get(&self.cur).number + 1;
        let mut b = tree.get(&self.cur);
        while b.number > 0 {
            if b.proposals.contains(id) {
                return Some(n - b.number);
            }
            b = tree.get(&b.parent);
        }
        None
    }

    fn describe(&self, ids: &BTreeSet<[u8; 10]>) -> String {
        ids.iter()
            .take(5)
            .map(|i| format!("{}@dist{:?}", hex(&i[..4]), self.nearest_proposal(i)))
            .collect::<Vec<_>>()
            .join(",")
    }

    /// the statement's oracle at the current tip
    fn view_oracle(&self, ctx: &str, where_: &str, st: &mut Stats) -> Verdict {
        let node = self.node();
        let snap = node.shared.snapshot();
        let tree = self.tree();
        if snap.tip_hash() != self.cur {
            vfail!(
                format!("tip:differs-from-model:{ctx}"),
                "{where_}: node tip {:#x} #{} but the model's tip is #{} {:#x}",
                snap.tip_hash(),
                snap.tip_number(),
                tree.get(&self.cur).number,
                self.cur
            );
        }
        let set = ids_of(snap.proposals().set().iter());
        let gap = ids_of(snap.proposals().gap().iter());
        let mset = tree.committable(&self.cur);
        let mgap = tree.gap(&self.cur);
        let tipn = tree.get(&self.cur).number;
        for (name, got, want) in [("set", &set, &mset), ("gap", &gap, &mgap)] {
            let missing: BTreeSet<[u8; 10]> = want.difference(got).cloned().collect();
            let extra: BTreeSet<[u8; 10]> = got.difference(want).cloned().collect();
            if !missing.is_empty() || !extra.is_empty() {
                let what = if !missing.is_empty() { "misses-ids" } else { "has-extra-ids" };
                vfail!(
                    format!("view:{name}-{what}:{ctx}"),
                    "{where_}: tip #{tipn}, window ({},{}): proposals().{name}() has {} ids, the on-chain window gives {}; missing [{}] extra [{}] (id@distance of the nearest main-chain proposal from the next block)",
                    self.close,
                    self.far,
                    got.len(),
                    want.len(),
                    self.describe(&missing),
                    self.describe(&extra)
                );
            }
        }
        st.label("oracle:view-compared");
        if !mset.is_empty() {
            st.label("oracle:view-compared-nonempty-set");
        }
        if !mgap.is_empty() {
            st.label("oracle:view-compared-nonempty-gap");
        }
        if tipn < self.far {
            st.label("oracle:view-compared-chain-shorter-than-window");
        }
        Ok(())
    }

    /// with a mine-mode pool: no entry may stay Proposed when its id is not in the window
    fn pool_oracle(&self, ctx: &str, where_: &str, st: &mut Stats) -> Verdict {
        if !self.pool {
            return Ok(());
        }
        let node = self.node();
        if !node.wait_pool_synced(Duration::from_secs(30)) {
            vfail!("harness:pool-sync-timeout", "{where_}: tx-pool did not reach the chain tip in 30 s");
        }
        let info = match node.shared.tx_pool_controller().get_all_entry_info() {
            Ok(i) => i,
            Err(e) => vfail!("harness:pool-info", "{e}"),
        };
        let mset = self.tree().committable(&self.cur);
        let by_hash: BTreeMap<[u8; 32], [u8; 10]> =
            self.interp.txs.iter().map(|(id, tx)| (h32(&tx.hash()), *id)).collect();
        for h in info.proposed.keys() {
            if let Some(id) = by_hash.get(&h32(h)) {
                st.label("oracle:pool-proposed-entry-checked");
                if !mset.contains(id) {
                    vfail!(
                        format!("pool:entry-still-proposed-after-its-id-left-the-window:{ctx}"),
                        "{where_}: pool entry {:#x} (id {}) is Proposed but its id is not committable in the next block (nearest main-chain proposal at distance {:?}, window ({},{}))",
                        h,
                        hex(id),
                        self.nearest_proposal(id),
                        self.close,
                        self.far
                    );
                }
            }
        }
        st.label_n("oracle:pool-pending-entries-seen", info.pending.len() as u64);
        Ok(())
    }

    fn on_tip_change(&mut self, new: &H, st: &mut Stats) {
        let tree = &self.interp.tree;
        let mut a = tree.get(&self.cur);
        let mut detached = 0u64;
        while !tree.is_ancestor(&a.hash, new) {
            detached += 1;
            a = tree.get(&a.parent);
        }
        let old_n = tree.get(&self.cur).number;
        let new_n = tree.get(new).number;
        self.cur = new.clone();
        self.note_detach(detached, new_n < old_n, "reorg", st);
    }

    fn note_detach(&mut self, detached: u64, shorter: bool, kind: &str, st: &mut Stats) {
        if detached == 0 {
            if let Some(s) = self.since_reorg.as_mut() {
                *s += 1;
            }
            return;
        }
        let (c, f) = (self.close, self.far);
        let class = if detached == 1 && c != 1 {
            "1"
        } else if detached == c {
            "w_close"
        } else if detached == f + 1 {
            "w_far+1"
        } else if detached == f {
            "w_far"
        } else if detached + 1 == f {
            "w_far-1"
        } else if detached > f + 1 {
            ">w_far+1"
        } else {
            "between"
        };
        st.label(&format!("{kind}:depth={class}"));
        if shorter {
            st.label(&format!("{kind}:to-shorter-chain"));
        }
        if kind == "reorg" && detached >= c && detached <= f + 1 {
            self.nontrivial = true;
        }
        self.max_depth = self.max_depth.max(detached);
        self.since_reorg = Some(0);
    }

    /// cells a new transaction may spend on top of the tip
    fn spendable(&self) -> BTreeMap<CellKey, (packed::CellOutput, usize)> {
        let st = &self.tree().get(&self.cur).state;
        st.live
            .iter()
            .filter(|(_, c)| {
                c.output.lock().code_hash() == self.env.always_success_lock.code_hash()
                    && c.output.lock().hash_type() == self.env.always_success_lock.hash_type()
                    && c.output.type_().to_opt().is_none()
            })
            .map(|(k, c)| (*k, (c.output.clone(), c.data.len())))
            .collect()
    }

    /// known transactions that could be committed on the tip as far as cells go
    fn committable_by_cells(&self) -> Vec<([u8; 10], TransactionView)> {
        let st = &self.tree().get(&self.cur).state;
        self.interp
            .txs
            .iter()
            .filter(|(_, tx)| {
                !st.tx_index.contains_key(&h32(&tx.hash()))
                    && tx.inputs().into_iter().all(|i| st.live.contains_key(&cell_key(&i.previous_output())))
            })
            .map(|(id, tx)| (*id, tx.clone()))
            .collect()
    }

    fn next_timestamp(&self) -> u64 {
        let tree = self.tree();
        let mut b = tree.get(&self.cur);
        let mut mx = b.block.timestamp();
        for _ in 0..40 {
            if b.number == 0 {
                break;
            }
            b = tree.get(&b.parent);
            mx = mx.max(b.block.timestamp());
        }
        mx + 1000
    }

    fn build_probe(&mut self, tx: TransactionView) -> Result<MBlock, Violation> {
        // a probe block is never the same block twice (after a truncate the same parent, transaction
        // and timestamp would give a block the node has already verified, which the testing-only
        // truncate does not re-attach)
        self.probe_seq += 1;
        let spec = BlockSpec {
            timestamp: self.next_timestamp(),
            txs: vec![tx],
            miner_lock: Some(self.env.always_success_lock.clone()),
            message: vec![0xc2, (self.probe_seq >> 8) as u8, self.probe_seq as u8],
            ..Default::default()
        };
        let opts = BuildOpts {
            use_node_reward_quirk: true,
            ..Default::default()
        };
        self.tree()
            .build(&self.cur, &spec, &opts)
            .map_err(|e| Violation::new("harness:probe-unbuildable", e))
    }

    fn op_reject(&mut self, kind: u8, sel: u16, where_: &str, st: &mut Stats) -> Verdict {
        let tree = self.tree();
        let mset = tree.committable(&self.cur);
        let mgap = tree.gap(&self.cur);
        let cands = self.committable_by_cells();
        let (name, tx) = match kind {
            0 => {
                let v: Vec<_> = cands.iter().filter(|(id, _)| mgap.contains(id) && !mset.contains(id)).collect();
                ("in-gap", (!v.is_empty()).then(|| v[pick_idx(sel as u32, v.len())].1.clone()))
            }
            1 => {
                let v: Vec<_> = cands
                    .iter()
                    .filter(|(id, _)| !mset.contains(id) && !mgap.contains(id) && self.nearest_proposal(id) == Some(self.far + 1))
                    .collect();
                ("one-past-w_far", (!v.is_empty()).then(|| v[pick_idx(sel as u32, v.len())].1.clone()))
            }
            2 => {
                let v: Vec<_> = cands.iter().filter(|(id, _)| !mset.contains(id) && !mgap.contains(id)).collect();
                ("outside-window", (!v.is_empty()).then(|| v[pick_idx(sel as u32, v.len())].1.clone()))
            }
            _ => {
                let mut avail = self.spendable();
                let ts = TxStep {
                    inputs: vec![sel],
                    outputs: 1,
                    fee: 3,
                    data_len: 0,
                    lock_variant: (sel % 4) as u8,
                    kind: 0,
                };
                let tx = build_tx(self.env, &ts, &mut avail).filter(|tx| {
                    let id = pid(&tx.proposal_short_id());
                    !mset.contains(&id) && !self.interp.txs.contains_key(&id)
                });
                ("never-proposed", tx)
            }
        };
        let tx = match tx {
            Some(t) => t,
            None => {
                st.label(&format!("probe:reject-{name}:none-available"));
                return Ok(());
            }
        };
        let mb = self.build_probe(tx)?;
        let r = self.node().process(&mb.block);
        node_panic_violation()?;
        match r {
            Ok(x) => vfail!(
                format!("verifier:commit-{name}-accepted"),
                "{where_}: block #{} on the tip committing a transaction whose id is {name} (window ({},{})) returned Ok({x})",
                mb.number,
                self.close,
                self.far
            ),
            Err(e) => {
                let es = format!("{e:?}");
                if !es.contains("Commit") {
                    vfail!(
                        "harness:probe-rejected-for-another-reason",
                        "{where_}: probe block ({name}) rejected with {es}"
                    );
                }
            }
        }
        st.label(&format!("probe:reject-{name}:rejected"));
        self.view_oracle("after-rejected-probe", where_, st)
    }

    fn op_commit_edge(&mut self, sel: u16, where_: &str, st: &mut Stats) -> Verdict {
        let mset = self.tree().committable(&self.cur);
        let cands: Vec<_> = self
            .committable_by_cells()
            .into_iter()
            .filter(|(id, _)| mset.contains(id))
            .collect();
        if cands.is_empty() {
            st.label("probe:accept:none-available");
            return Ok(());
        }
        let at_far: Vec<_> = cands.iter().filter(|(id, _)| self.nearest_proposal(id) == Some(self.far)).collect();
        let (name, tx) = if !at_far.is_empty() {
            ("at-w_far", at_far[pick_idx(sel as u32, at_far.len())].1.clone())
        } else {
            let (id, tx) = &cands[pick_idx(sel as u32, cands.len())];
            let name = if self.nearest_proposal(id) == Some(self.close) { "at-w_close" } else { "inside" };
            (name, tx.clone())
        };
        let mb = self.build_probe(tx)?;
        let r = self.node().process(&mb.block);
        node_panic_violation()?;
        if let Err(e) = r {
            vfail!(
                format!("verifier:commit-{name}-rejected"),
                "{where_}: block #{} on the tip committing a transaction proposed {name} (window ({},{})) was rejected: {e}",
                mb.number,
                self.close,
                self.far
            );
        }
        st.label(&format!("probe:accept-{name}:accepted"));
        let h = self.interp.tree.insert(mb);
        self.interp.blocks.push(h.clone());
        self.on_tip_change(&h, st);
        self.view_oracle("after-extension", where_, st)?;
        self.pool_oracle("after-extension", where_, st)
    }

    fn op_block(&mut self, step: &BlockStep, where_: &str, st: &mut Stats) -> Verdict {
        let h = match self.interp.apply_step(step) {
            Some(h) => h,
            None => return Ok(()),
        };
        let b = self.interp.tree.get(&h).clone();
        if self.not_stored.contains(&b.parent) {
            // the node refused the parent and does not hold it: a child would wait in the orphan pool
            // for ever (a blocking submission of it never returns)
            self.not_stored.insert(h.clone());
            st.label("block:invalid-branch:parent-not-stored:not-delivered");
            return Ok(());
        }
        if !b.block.uncles().data().is_empty() && b.block.uncles().data().into_iter().any(|u| !u.proposals().is_empty()) {
            st.label("block:uncle-with-proposals");
        }
        if self.pool {
            // a miner's pool knows the transactions it proposes
            for id in b.block.data().proposals().into_iter() {
                if let Some(tx) = self.interp.txs.get(&pid(&id)) {
                    match self.node().shared.tx_pool_controller().submit_local_tx(tx.clone()) {
                        Ok(Ok(_)) => st.label("pool:tx-accepted"),
                        _ => st.label("pool:tx-refused"),
                    }
                }
            }
        }
        let r = self.node().process(&b.block);
        node_panic_violation()?;
        if !self.interp.chain_valid(&h) {
            // a block that breaks a rule (or builds on one that does): it may be stored as a side
            // block or refused, and an attempt to switch to its branch is refused as a whole; the
            // main chain, and with it the proposal view, stays what it was
            let heavier = b.td > self.tree().get(&self.cur).td;
            st.label(match (heavier, r.is_err()) {
                (true, true) => "block:invalid-branch:switch-refused",
                (true, false) => "block:invalid-branch:heavier-but-stored",
                (false, true) => "block:invalid-branch:refused",
                (false, false) => "block:invalid-branch:stored-as-side-block",
            });
            if self.node().tip_hash() != self.cur {
                vfail!(
                    "invalid-branch:tip-left-the-valid-chain",
                    "{where_}: after block #{} {:#x} of a branch with a rule-breaking block ({:?}) the tip is {:#x}, the heaviest valid chain ends at #{}",
                    b.number,
                    b.hash,
                    b.invalid,
                    self.node().tip_hash(),
                    self.tree().get(&self.cur).number
                );
            }
            if heavier && r.is_err() {
                self.failed_switch = true;
            }
            if r.is_err() && ckb_store::ChainStore::get_block_header(self.node().shared.store(), &h).is_none() {
                self.not_stored.insert(h.clone());
            }
            self.view_oracle("after-refused-block", where_, st)?;
            return self.pool_oracle("after-refused-block", where_, st);
        }
        if let Err(e) = &r {
            vfail!(
                "commit:model-built-block-rejected",
                "{where_}: block #{} {:#x} built by the model (commits only ids of its window) was rejected: {e}",
                b.number,
                b.hash
            );
        }
        let ctx = if b.td > self.tree().get(&self.cur).td {
            let ext = b.parent == self.cur;
            if self.failed_switch {
                st.label("block:new-tip-after-a-refused-switch");
                self.nontrivial = true;
                self.failed_switch = false;
            }
            self.on_tip_change(&h, st);
            if ext { "after-extension" } else { "after-reorg" }
        } else {
            st.label("block:side");
            "after-side-block"
        };
        self.view_oracle(ctx, where_, st)?;
        self.pool_oracle(ctx, where_, st)
    }

    fn op_restart(&mut self, where_: &str, st: &mut Stats) -> Verdict {
        let before = {
            let snap = self.node().shared.snapshot();
            (ids_of(snap.proposals().set().iter()), ids_of(snap.proposals().gap().iter()))
        };
        self.node.take().unwrap().stop();
        self.start_node(st)?;
        node_panic_violation()?;
        self.restarts += 1;
        let tipn = self.tree().get(&self.cur).number;
        let after = {
            let snap = self.node().shared.snapshot();
            (ids_of(snap.proposals().set().iter()), ids_of(snap.proposals().gap().iter()))
        };
        if self.node().tip_hash() == self.cur && before != after {
            let which = if before.0 != after.0 { "set" } else { "gap" };
            vfail!(
                format!("restart:rebuilt-{which}-differs-from-incremental-view"),
                "{where_}: tip #{tipn}, window ({},{}): before the stop set [{}] gap [{}]; after the restart set [{}] gap [{}]",
                self.close,
                self.far,
                short(&before.0),
                short(&before.1),
                short(&after.0),
                short(&after.1)
            );
        }
        st.label("restart:any");
        if tipn < self.close {
            st.label("restart:tip<w_close");
        } else if tipn < self.far {
            st.label("restart:tip<w_far");
        } else if tipn == self.far || tipn == self.far + 1 {
            st.label("restart:tip=w_far..w_far+1");
        }
        if let Some(s) = self.since_reorg {
            if s <= self.far {
                st.label("restart:within-w_far-blocks-after-a-reorg");
                self.nontrivial = true;
            }
        }
        self.view_oracle("after-restart", where_, st)?;
        self.pool_oracle("after-restart", where_, st)
    }

    fn op_truncate(&mut self, sel: u16, where_: &str, st: &mut Stats) -> Verdict {
        let tipn = self.tree().get(&self.cur).number;
        if tipn == 0 {
            return Ok(());
        }
        let (c, f) = (self.close, self.far);
        let opts = [1, 2, c, f.saturating_sub(1).max(1), f, f + 1, f + 3];
        let depth = opts[pick_idx(sel as u32, opts.len())].min(tipn);
        let target = self.tree().ancestor(&self.cur, tipn - depth).unwrap().hash.clone();
        if let Err(e) = self.node().chain().truncate(target.clone()) {
            vfail!("harness:truncate-failed", "{where_}: truncate to #{}: {e}", tipn - depth);
        }
        node_panic_violation()?;
        let snap = std::sync::Arc::clone(&self.node().shared.snapshot());
        let _ = self.node().shared.tx_pool_controller().clear_pool(snap);
        self.cur = target;
        self.note_detach(depth, true, "truncate", st);
        self.view_oracle("after-truncate", where_, st)?;
        self.pool_oracle("after-truncate", where_, st)
    }
}

fn prop(case: &Case, st: &mut Stats) -> Verdict {
    let cfg = variant_cfg(case.variant);
    let env = build_env(&cfg);
    install_panic_recorder();
    clear_panics();
    let dir = scratch("c20-");
    let interp = Interp::new(&env);
    let cur = interp.tree.genesis.clone();
    let mut eng = Eng {
        env: &env,
        interp,
        node: None,
        node_dir: dir.path().join("node"),
        pool: case.pool,
        cur,
        close: cfg.proposal_window.0,
        far: cfg.proposal_window.1,
        since_reorg: None,
        failed_switch: false,
        not_stored: Default::default(),
        nontrivial: false,
        restarts: 0,
        max_depth: 0,
        probe_seq: 0,
    };
    eng.start_node(st)?;
    st.label(&format!("window:({},{})", eng.close, eng.far));
    if case.pool {
        st.label("case:with-mine-mode-pool");
    }
    eng.view_oracle("at-genesis", "start", st)?;
    for (i, op) in case.ops.iter().enumerate() {
        let where_ = format!("op {i} {}", match op {
            Op::Block(_) => "block".to_string(),
            Op::Restart => "restart".to_string(),
            Op::Truncate(_) => "truncate".to_string(),
            Op::Reject(k, _) => format!("reject-probe {k}"),
            Op::CommitEdge(_) => "commit-edge".to_string(),
        });
        match op {
            Op::Block(s) => eng.op_block(s, &where_, st)?,
            Op::Restart => eng.op_restart(&where_, st)?,
            Op::Truncate(s) => eng.op_truncate(*s, &where_, st)?,
            Op::Reject(k, s) => eng.op_reject(*k, *s, &where_, st)?,
            Op::CommitEdge(s) => eng.op_commit_edge(*s, &where_, st)?,
        }
    }
    // a final restart: the view rebuilt from the store at the last tip
    eng.op_restart("final restart", st)?;
    for (k, v) in &eng.interp.labels {
        st.label_n(k, *v);
    }
    if let Some(n) = eng.node.take() {
        n.stop();
    }
    if eng.nontrivial {
        st.nontrivial(&serde_json::to_string(case).unwrap());
        if st.want_sample() {
            let tree = &eng.interp.tree;
            st.sample(|| {
                json!({"variant": case.variant, "window": [eng.close, eng.far], "pool": case.pool,
                    "ops": case.ops.iter().map(|o| match o { Op::Block(b) => format!("block(mode {}, {} new txs, {} uncles)", b.parent_mode, b.new_txs.len(), b.uncles), Op::Restart => "restart".into(), Op::Truncate(_) => "truncate".into(), Op::Reject(k, _) => format!("reject-probe({k})"), Op::CommitEdge(_) => "commit-edge".into() }).collect::<Vec<_>>(),
                    "blocks": eng.interp.blocks.iter().map(|h| { let b = tree.get(h); json!({"n": b.number, "parent_n": tree.get(&b.parent).number, "proposals": b.proposals.len(), "txs": b.block.transactions().len() - 1}) }).collect::<Vec<_>>(),
                    "max_reorg_depth": eng.max_depth, "restarts": eng.restarts, "final_tip": tree.get(&eng.cur).number})
            });
        }
    }
    Ok(())
}

fn run(ctx: &Ctx) {
    ctx.shrink_iters.set(100);
    let only = std::env::var("VERIF_C20_SUB").ok();
    let want = |s: &str| only.as_deref().map(|o| o == s).unwrap_or(true);
    let max_blocks = ctx.tier.pick(36, 80);
    let cases = ctx.cases(260, 2400);
    if want("history") {
        ctx.run_prop("history", cases, case_strategy(max_blocks), prop);
    }
    let cases = ctx.cases(160, 1600);
    if want("refused-switch") {
        ctx.run_prop("refused-switch", cases, refused_switch_strategy(max_blocks), prop);
    }
    let cases = ctx.cases(260, 2400);
    if want("reorg-depth") {
        ctx.run_prop("reorg-depth", cases, directed_strategy(), prop);
    }
}

fn replay(ctx: &Ctx, _sub: &str, v: &Value) -> Verdict {
    let c: Case = from_case(v)?;
    let mut st = ctx.stats.borrow_mut();
    prop(&c, &mut st)
}
