//! C19 — chain-root commitments, proofs and filter hashes match the chain they describe.
//!
//! Histories (block trees with forks, uncles, proposals/commits, blocks with a flipped chain root)
//! are built by the reference model — every block carries the MODEL's MMR root — and delivered to a
//! real node in creation order.  After every delivery:
//!   (1) acceptance: a model-built block on a fully valid chain is accepted; a block whose
//!       committed root has one flipped bit is rejected with InvalidChainRoot when its branch is
//!       verified; the tip is the model's tip;
//!   (2) MMR: `snapshot.chain_root_mmr(k).get_root()` equals the model root over the main chain's
//!       header digests 0..=k (always k = tip, plus a sampled k), equals what block k+1 committed;
//!       `gen_proof` for a sampled set of ancestors verifies with the right leaves, fails with a
//!       wrong leaf (the abandoned branch's block at that height when there is one) and fails
//!       against the abandoned branch's root;
//!   (3) filters: with the BlockFilter service running (started at a generated point of the
//!       history, reorgs issued while it lags), every main-chain block's stored GCS filter matches
//!       the lock/type script hash of every output and every spent input (resolved in the model's
//!       state) and the filter hashes chain from genesis.
use crate::checks::c01::variant_cfg;
use crate::common::*;
use crate::model::*;
use crate::node::*;
use crate::plan::*;
use crate::vfail;
use ckb_store::ChainStore;
use ckb_types::{
    core::HeaderView,
    packed,
    prelude::*,
    utilities::merkle_mountain_range::VerifiableHeader,
};
use golomb_coded_set::{GCSFilterReader, M, P, SipHasher24Builder};
use proptest::prelude::*;
use serde::{Deserialize, Serialize};
use serde_json::{Value, json};
use std::collections::{BTreeMap, BTreeSet};
use std::time::{Duration, Instant};

pub fn spec() -> CheckSpec {
    CheckSpec {
        id: "C19",
        level: "exploration",
        rule: "proptest: block-tree plans (forks incl. shorter-but-heavier branches across the epoch-0/1 difficulty change, returns to an already verified branch, uncles, proposals/commits spending varied locks, blocks with a flipped chain-root bit or no extension) built by the reference model with the MODEL's MMR root in every block, delivered in creation order to a real node; the BlockFilter service is started at a generated point and the deliveries continue in generated bursts while it lags. After every delivery: tip = model tip, chain_root_mmr(k).get_root() = model root over header digests 0..=k (k = tip and a sampled k) = root committed by block k+1, gen_proof for a sampled ancestor set verifies with the right leaves and fails with a wrong leaf / against the abandoned branch's root; after every burst (once the builder caught up) every main-chain block's stored GCS filter matches every output and spent-input script hash and filter hashes chain from genesis. Sub-check light-client: the same histories; after every delivery (and additionally right after every delivery that detached a block) generated requests are delivered to the real LightClientProtocol through CKBProtocolHandler::received with a recording protocol context: GetLastState, GetLastStateProof (last_hash = tip / older main-chain block / detached / stored side / unknown / genesis; start number at 0, inside, at the fork point +-3, beyond last, u64::MAX; start hash right / the abandoned branch's block at that height / zero / another block; last_n 0 / 1 / small / 100 / 500 / 501 / 2^62 / u64::MAX; boundary at a block's total difficulty +-1 / 0 / max / above last; difficulties sorted, unsorted, duplicated, at the boundary, at the start, 1001 of them), GetBlocksProof and GetTransactionsProof (hashes on the main chain below or anywhere relative to last, on the abandoned branch, stored side blocks, unknown, duplicated, last itself, 1001 of them; cellbases and transactions committed on both branches), raw bytes and Send* items. Every reply is judged against the model: the named last header is the requested main-chain block (the tip with an empty proof when last_hash is off the main chain), the proved headers are exactly the blocks of a linear-scan restatement of the documented sampling rule / exactly the requested main-chain items with the rest reported missing, every VerifiableHeader carries the model root over the main chain's digests below it (= what the block commits), the MMR proof verifies with the harness's own verifier ((height, leaf index) coordinates, model merge) against the model root below last and not against the rival branch's root, every filtered block's CBMT proof verifies with the harness's own CBMT code against the header's transactions root and names exactly the requested transactions; no request makes the handler panic. Sub-check filter-protocol: the same histories with the BlockFilter service started at a generated point and waited for in generated bursts; after every delivery (the builder may be behind the tip), additionally right after every delivery that detached a block, and after every wait for the builder, generated messages are delivered to the real ckb_sync::BlockFilter protocol handler through CKBProtocolHandler::received with a recording protocol context: GetBlockFilters / GetBlockFilterHashes / GetBlockFilterCheckPoints with start_number 0 / 1 / anywhere <= tip / tip-2..tip+2 / the fork point of the latest reorg +-3 / the latest built block +-2 / beyond the tip / any u64 / u64::MAX - {0,1,999,1000,1999,2000,any u16}, the three reply kinds sent as requests, requests with a byte cut or appended or an unknown union item, raw bytes; plus one fixed linear chain of 2010 (thorough 4010) blocks whose requests sit at the batch-size and check-point-interval boundaries. Every reply is judged against the model: it is the kind that answers the request and names the start number asked for; block_hashes are the main chain's blocks start, start+1, .. in order (a detached / side / unknown hash is reported as such); every filter is byte-identical to the stored one and matches, by the harness's GCS decoding, the hash of every lock and type script of the model block's outputs and spent inputs; parent_block_filter_hash and every filter hash equal blake2b(parent filter hash || blake2b(filter)) chained by the harness from the zero hash along the main chain; check points are those hashes at start, start+2000, ..; the number of items lies between what was built for the main chain from start before the request and after it, capped by the documented batch size (1000 / 2000 / 2000); a start number above every latest-built marker (snapshot, live store before and after) is not answered; a start number at or below the latest built main-chain block the handler can see is answered; reply kinds and malformed bytes are never answered, malformed bytes are banned; nothing makes the handler panic. A case = (spec variant, plan, filter start, bursts, proof selectors) or (spec variant, plan, request rounds) or (spec variant, plan, filter start, bursts, request rounds); non-trivial = the history contains a reorg to a shorter chain followed by growth past the old length, or filters were built across a reorg (the service was running / lagging while blocks were detached), or (light-client) a proof request served after a reorg that detached at least one block with the requested last_hash, a requested block or a requested transaction on the abandoned branch, or a proved set that crosses the fork point, or (filter-protocol) a non-empty reply served after a reorg that detached a block at or above the requested start number and speaking about a height at which the abandoned branch had a block of its own; distinct by hash of the case.",
        assumptions: &[
            "blocks are delivered synchronously in creation order (parents first); delivery orders are C01's subject",
            "the filter builder is woken by re-sending the new-block notification when it lags (a lost wake-up only delays it until the next block); a builder that does not catch up within the time-out is inconclusive, not a violation",
            "the GCS codec (golomb-coded-set crate), the MMR proof verifier (ckb-merkle-mountain-range crate) and blake2b are trusted; which nodes/elements the node stores, serves and commits is what is checked",
            "light-client: requests are delivered one at a time from the check's thread between block deliveries; the handler takes one snapshot to choose the blocks and a second one in reply_proof to build the proof, a reorg committing between the two is not explored (no deterministic way to place it without a hook)",
            "light-client: a well-formed request naming main-chain blocks / transactions at or above last_hash (which the chain root of last cannot prove) may stay unanswered; a request the handler documents as invalid may be refused with or without a ban; whatever is answered must be sound",
            "light-client: the sampling rule is the one of the handler's doc comments and RFC 0044 restated as a linear scan (first block whose total difficulty reaches each difficulty below the boundary block, then every block from the boundary block / the last n blocks, preceded by the last n blocks before start when start_hash is not the main chain's block at start_number)",
            "filter-protocol: requests are delivered one at a time from the check's thread between block deliveries (the main chain does not change while a request is served; the filter builder may run); what was built is read from the store before and after each request and the reply has to lie between the two",
            "filter-protocol: the handler reads the latest-built marker through the chain snapshot (taken when the tip last changed) and maps it to a number through the main-chain index: a reply is owed only for start numbers at or below that block while it is on the main chain (otherwise only for start 0); an unanswered request above it is not judged, an answered one is judged in full; a GetBlockFilterHashes whose parent block has no filter hash yet may stay unanswered",
            "filter-protocol: filters of these histories are far below the 1.8 MB frame limit of GetBlockFilters, the size cut is not reached; check points beyond the first and full batches are reached by the fixed long chain only",
        ],
        workers: |_| 8,
        watchdog_s: |t| t.pick(1500, 7200),
        run,
        replay,
    }
}

#[derive(Clone, Debug, Serialize, Deserialize)]
pub struct Case {
    pub variant: u8,
    pub plan: TreePlan,
    /// when the filter service is started: 0 = before the first delivery, 1 / 2 = immediately before
    /// the delivery that causes the first / second reorg (the builder's first pass then races with
    /// the reorg), otherwise a selector over the delivery indices
    pub filter_start: u16,
    /// number of deliveries between two waits for the filter builder (cycled)
    pub filter_waits: Vec<u8>,
    /// per delivery (cycled): (selector of k, selectors of leaf indices)
    pub proofs: Vec<(u16, Vec<u16>)>,
}

fn only_root_invalids(mut plan: TreePlan) -> TreePlan {
    for s in plan.steps.iter_mut() {
        if s.invalid != 0 {
            // INVALID_KINDS[6] = ChainRoot, [7] = NoExtension
            s.invalid = if s.invalid % 4 == 0 { 8 } else { 7 };
        }
    }
    plan
}

pub fn case_strategy(max_blocks: usize) -> impl Strategy<Value = Case> {
    let p = PlanParams {
        min_blocks: 6,
        max_blocks,
        fork_pct: 45,
        tx_rate: 45,
        invalid_pct: 6,
        uncle_pct: 12,
        dao_pct: 0,
    };
    (
        0u8..4,
        tree_plan_strategy(p).prop_map(only_root_invalids),
        prop_oneof![1 => Just(0u16), 2 => Just(1u16), 1 => Just(2u16), 3 => any::<u16>()],
        proptest::collection::vec(prop_oneof![3 => 1u8..4, 2 => 4u8..12, 1 => Just(60u8)], 1..5),
        proptest::collection::vec((any::<u16>(), proptest::collection::vec(any::<u16>(), 1..6)), 1..6),
    )
        .prop_map(|(variant, plan, filter_start, filter_waits, proofs)| Case {
            variant,
            plan,
            filter_start,
            filter_waits,
            proofs,
        })
}

/// selector that makes `pick_idx(sel, len) == k`
fn sel_for(k: usize, len: usize) -> u16 {
    if len == 0 {
        return 0;
    }
    (((k as u64) << 16).div_ceil(len as u64)).min(65535) as u16
}

/// Directed family: a common prefix inside epoch 0, branch A grown slowly (large timestamp steps:
/// low difficulty from epoch 1 on), branch B forked `back` blocks below A's tip and grown fast
/// (high difficulty) until it overtakes A while still shorter, then growth of B past A's length or
/// a return to A.  Expressed as an ordinary TreePlan so that it shrinks and replays like any other.
pub fn directed_strategy() -> impl Strategy<Value = Case> {
    (
        // (variant with dynamic difficulty, fork height selector, |A| after the fork, |B|)
        (prop_oneof![Just(0u8), Just(1u8), Just(3u8)], any::<u16>(), 2usize..=11, 1usize..14, prop_oneof![2 => Just(0usize), 3 => 1usize..=12]),
        proptest::collection::vec((0u8..4, 0u8..5), 10),
        proptest::collection::vec(proptest::collection::vec(tx_step_strategy(), 0..=2), 40),
        prop_oneof![1 => Just(0u16), 2 => Just(1u16), 1 => Just(2u16), 2 => any::<u16>()],
        proptest::collection::vec(prop_oneof![3 => 1u8..4, 2 => 4u8..12, 1 => Just(60u8)], 1..5),
        proptest::collection::vec((any::<u16>(), proptest::collection::vec(any::<u16>(), 1..6)), 1..6),
    )
        .prop_map(|((variant, fsel, a_len, b_len, return_run), tail, txs, filter_start, filter_waits, proofs)| {
            let step = |mode: u8, parent: u16, ts: u8, i: usize| BlockStep {
                parent_mode: mode,
                parent,
                ts,
                uncles: 0,
                uncle_sel: 0,
                new_txs: txs[i % txs.len()].clone(),
                repropose: 0,
                repropose_sel: 0,
                commit_mask: 0xffff,
                miner: (i % 4) as u8,
                ext_extra: 0,
                invalid: 0,
            };
            // epoch 0 = blocks 0..l0-1; the fork point #f lies inside it (f = l0-1: equal difficulty)
            let l0 = variant_cfg(variant).genesis_epoch_length as usize;
            let f = 1 + pick_idx(fsel as u32, l0 - 1);
            let mut steps = vec![];
            // tree.order = [genesis, anchor = #1, #2, ...]: block #j is order[j] while there is one branch
            for i in 0..f - 1 {
                steps.push(step(0, 0, 1, i));
            }
            for i in 0..a_len {
                steps.push(step(0, 0, if i % 3 == 2 { 3 } else { 4 }, f + i));
            }
            let n = 1 + f + a_len;
            // fork from #f (mode 2 picks among the 12 most recent blocks)
            let lo = n.saturating_sub(12);
            steps.push(step(2, sel_for(f - lo, n - lo), 0, n));
            // B's tip is now the last leaf (leaves are listed in creation order)
            for i in 1..b_len {
                steps.push(step(1, 65535, 0, n + i));
            }
            // return run: the abandoned branch A grows again (first step picks the first leaf = A's
            // tip, later steps the leaf extended last)
            for i in 0..return_run {
                steps.push(step(1, if i == 0 { 0 } else { 65535 }, 1, n + b_len + 20 + i));
            }
            // tail: extend the heaviest leaf (0), the leaf that was not extended last (1: with two
            // leaves that is the first one in creation order) or the one extended last (2, 3): runs of
            // 2/3 let the abandoned branch grow until it takes over again
            for (j, (what, ts)) in tail.iter().enumerate() {
                match what {
                    0 => steps.push(step(0, 0, *ts, n + b_len + j)),
                    1 => steps.push(step(1, 0, *ts, n + b_len + j)),
                    _ => steps.push(step(1, 65535, *ts, n + b_len + j)),
                }
            }
            Case {
                variant,
                plan: TreePlan { steps },
                filter_start,
                filter_waits,
                proofs,
            }
        })
}

/// MMR position of leaf `i` (0-based): 2i - popcount(i)
fn leaf_pos(i: u64) -> u64 {
    2 * i - i.count_ones() as u64
}

pub(crate) fn b256(parts: &[&[u8]]) -> [u8; 32] {
    let mut hasher = ckb_hash::new_blake2b();
    for p in parts {
        hasher.update(p);
    }
    let mut out = [0u8; 32];
    hasher.finalize(&mut out);
    out
}

/// what a block's filter has to match: (description, element)
pub(crate) fn expected_filter_elements(tree: &Tree, b: &MBlock) -> Result<Vec<(String, [u8; 32])>, String> {
    let empty = ChainState::default();
    let parent_state: &ChainState = if b.number == 0 { &empty } else { &tree.get(&b.parent).state };
    let mut created: BTreeMap<CellKey, packed::CellOutput> = BTreeMap::new();
    let mut out = vec![];
    let push = |out: &mut Vec<(String, [u8; 32])>, what: String, o: &packed::CellOutput| {
        out.push((format!("{what} lock"), b256(&[o.lock().as_slice()])));
        if let Some(t) = o.type_().to_opt() {
            out.push((format!("{what} type"), b256(&[t.as_slice()])));
        }
    };
    for (ti, tx) in b.block.transactions().iter().enumerate() {
        if ti > 0 {
            for (ii, input) in tx.inputs().into_iter().enumerate() {
                let k = cell_key(&input.previous_output());
                let cell = created
                    .get(&k)
                    .cloned()
                    .or_else(|| parent_state.live.get(&k).map(|c| c.output.clone()))
                    .ok_or_else(|| format!("model cannot resolve input {ii} of tx {ti} of block #{}", b.number))?;
                push(&mut out, format!("tx {ti} spent input {ii}"), &cell);
            }
        }
        for (oi, o) in tx.outputs().into_iter().enumerate() {
            push(&mut out, format!("tx {ti} output {oi}"), &o);
            created.insert((h32(&tx.hash()), oi as u32), o);
        }
    }
    Ok(out)
}

pub(crate) fn gcs_matches(data: &[u8], element: &[u8]) -> bool {
    let reader = GCSFilterReader::new(SipHasher24Builder::new(0, 0), M, P);
    let mut input = std::io::Cursor::new(data.to_vec());
    reader
        .match_any(&mut input, &mut std::iter::once(element))
        .unwrap_or(false)
}

/// The chain service scans the store for blocks left unverified by the previous run on a thread
/// of its own; a block delivered (and failing) while that scan runs races with it (recorded as a
/// side finding, not this property's subject).  Wait for the scan like the repository's tests do.
pub(crate) fn wait_started(node: &Node) -> Verdict {
    let start = std::time::Instant::now();
    while node.chain().is_verifying_unverified_blocks_on_startup() {
        node_panic_violation()?;
        if start.elapsed() > Duration::from_secs(60) {
            vfail!("harness:startup-scan-timeout", "init_load_unverified did not finish in 60 s");
        }
        std::thread::sleep(Duration::from_millis(1));
    }
    Ok(())
}

pub(crate) struct Reorg {
    pub(crate) detached: u64,
    pub(crate) attached: u64,
    pub(crate) old_tip: H,
}

pub(crate) fn classify(tree: &Tree, old: &H, new: &H) -> Reorg {
    let mut a = tree.get(old);
    let nb = tree.get(new);
    let mut detached = 0;
    while !tree.is_ancestor(&a.hash, &nb.hash) {
        detached += 1;
        a = tree.get(&a.parent);
    }
    Reorg {
        detached,
        attached: nb.number - a.number,
        old_tip: old.clone(),
    }
}

fn headers_to<'a>(path: &'a [&'a MBlock], k: u64) -> Vec<HeaderView> {
    path.iter().take(k as usize + 1).map(|b| b.block.header()).collect()
}

#[derive(Default)]
struct Facts {
    shortening_reorgs: u64,
    regrew_past_old_length: bool,
    back_to_verified: u64,
    filters_across_reorg: bool,
    flipped_rejected: u64,
    max_detached: u64,
}

pub(crate) fn wait_filters(node: &Node, tree: &Tree, tip: &H, st: &mut Stats) -> Verdict {
    let start = Instant::now();
    let tipb = tree.get(tip).block.clone();
    let mut nudged = false;
    let mut last_nudge = Instant::now();
    loop {
        if node.shared.store().get_block_filter_hash(tip).is_some() {
            if nudged {
                st.label("filter:caught-up-only-after-renotification");
            }
            return Ok(());
        }
        node_panic_violation()?;
        let el = start.elapsed();
        if el > Duration::from_secs(40) {
            vfail!(
                "harness:filter-builder-timeout",
                "no filter for tip #{} after 40 s (latest built {:?})",
                tree.get(tip).number,
                node.shared.store().get_latest_built_filter_data_block_hash()
            );
        }
        if el > Duration::from_millis(30) && last_nudge.elapsed() > Duration::from_millis(25) {
            // a wake-up that arrived while the builder was busy is dropped by the service
            // (`borrow_and_update` after the build); on a live chain the next block wakes it
            node.shared.notify_controller().notify_new_block(tipb.clone());
            nudged = true;
            last_nudge = Instant::now();
        }
        std::thread::sleep(Duration::from_millis(1));
    }
}

/// `confirmed`: blocks whose stored filter already passed this oracle (a filter is keyed by block
/// hash and never rewritten); `detached_unconfirmed`: blocks that were detached from the main chain
/// while the service was running and before their filter had been confirmed — the structural
/// trigger of the known "filter built for a block that is no longer on the main chain" finding.
pub(crate) fn filter_oracle(
    node: &Node,
    tree: &Tree,
    tip: &H,
    where_: &str,
    confirmed: &mut BTreeSet<[u8; 32]>,
    detached_unconfirmed: &BTreeSet<[u8; 32]>,
    st: &mut Stats,
) -> Verdict {
    let store = node.shared.store();
    let path = tree.path(tip);
    let mut parent_fh = [0u8; 32];
    let mut n_elems = 0u64;
    for b in &path {
        let data = match store.get_block_filter(&b.hash) {
            Some(d) => d.raw_data(),
            None => vfail!(
                "filter:missing-for-main-chain-block-below-built-tip",
                "{where_}: the tip #{} has a filter hash but main-chain block #{} {:#x} has no filter data",
                tree.get(tip).number,
                b.number,
                b.hash
            ),
        };
        let want = expected_filter_elements(tree, b).map_err(|e| Violation::new("harness:model-resolution", e))?;
        for (what, e) in &want {
            n_elems += 1;
            if !gcs_matches(&data, e) {
                let kind = if what.contains("spent input") { "spent-input" } else { "output" };
                let kind2 = if what.ends_with("type") { "type" } else { "lock" };
                let trigger = if detached_unconfirmed.contains(&h32(&b.hash)) {
                    "block-was-detached-before-its-filter-was-seen"
                } else {
                    "block-on-main-chain-since-the-service-saw-it"
                };
                vfail!(
                    format!("filter:{kind}-{kind2}-script-not-matched:{trigger}"),
                    "{where_}: filter of main-chain block #{} {:#x} ({} bytes, {} txs; {trigger}) does not match the script hash {} of {what}",
                    b.number,
                    b.hash,
                    data.len(),
                    b.block.transactions().len(),
                    hex(e)
                );
            }
        }
        let fh = b256(&[&parent_fh, &b256(&[&data])]);
        match store.get_block_filter_hash(&b.hash) {
            Some(h) if h.as_slice() == fh => {}
            other => vfail!(
                "filter:hash-does-not-chain-from-parent",
                "{where_}: block #{} {:#x}: stored filter hash {:?}, blake2b(parent filter hash ‖ blake2b(filter data)) chained from genesis = {}",
                b.number,
                b.hash,
                other.map(|h| hex(h.as_slice())),
                hex(&fh)
            ),
        }
        parent_fh = fh;
        confirmed.insert(h32(&b.hash));
    }
    // information only (the statement is about main-chain blocks): filters stored for blocks that
    // are off the main chain now — a mismatch here becomes a violation when the block returns
    let on_main: BTreeSet<[u8; 32]> = path.iter().map(|b| h32(&b.hash)).collect();
    for h in &tree.order {
        if on_main.contains(&h32(h)) {
            continue;
        }
        if let Some(d) = store.get_block_filter(h) {
            let b = tree.get(h);
            st.label("info:side-block-has-filter");
            if let Ok(want) = expected_filter_elements(tree, b) {
                if want.iter().any(|(_, e)| !gcs_matches(&d.raw_data(), e)) {
                    st.label("info:side-block-filter-lacks-an-element");
                }
            }
        }
    }
    st.label_n("oracle:filter-blocks-checked", path.len() as u64);
    st.label_n("oracle:filter-elements-matched", n_elems);
    Ok(())
}

#[allow(clippy::too_many_arguments)]
fn mmr_oracle(
    node: &Node,
    tree: &Tree,
    tip: &H,
    abandoned: Option<&H>,
    sel: &(u16, Vec<u16>),
    where_: &str,
    st: &mut Stats,
) -> Verdict {
    let snap = node.shared.snapshot();
    let path = tree.path(tip);
    let n_tip = tree.get(tip).number;
    let mut ks = vec![n_tip];
    let k2 = pick_idx(sel.0 as u32, n_tip as usize + 1) as u64;
    if k2 != n_tip {
        ks.push(k2);
    }
    for k in ks {
        let tag = if k == n_tip { "k=tip" } else { "k<tip" };
        let mmr = snap.chain_root_mmr(k);
        let root = match mmr.get_root() {
            Ok(r) => r,
            Err(e) => vfail!(
                format!("mmr:get-root-failed:{tag}"),
                "{where_}: chain_root_mmr({k}).get_root() failed: {e:?} (tip #{n_tip})"
            ),
        };
        let hs = headers_to(&path, k);
        let model_root = mmr_root_of_headers(hs.iter()).expect("non-empty");
        if root.as_slice() != model_root.as_slice() {
            vfail!(
                format!("mmr:root-differs-from-model:{tag}"),
                "{where_}: chain_root_mmr({k}).get_root() = {} but the MMR root over the main chain's header digests 0..={k} is {} (tip #{n_tip})",
                root,
                model_root
            );
        }
        st.label("oracle:mmr-root-compared");
        // what block k+1 committed, the way a light client checks it
        if k < n_tip {
            let l = path[k as usize + 1];
            let ext = l.block.extension().expect("model blocks carry an extension");
            let committed = &ext.raw_data()[..32];
            if committed != digest_hash(&root) {
                vfail!(
                    "mmr:served-root-is-not-the-committed-root",
                    "{where_}: block #{} commits {} but chain_root_mmr({k}) hashes to {}",
                    l.number,
                    hex(committed),
                    hex(&digest_hash(&root))
                );
            }
            let vh = VerifiableHeader::new(l.block.header(), l.block.calc_uncles_hash(), l.block.extension(), root.clone());
            if !vh.is_valid(0) {
                vfail!(
                    "mmr:verifiable-header-invalid",
                    "{where_}: VerifiableHeader(block #{}, parent_chain_root = chain_root_mmr({k}).get_root()) is not valid",
                    l.number
                );
            }
        }
        // membership proof for a sampled set of ancestors
        let mut idx: BTreeSet<u64> = BTreeSet::new();
        for s in &sel.1 {
            idx.insert(pick_idx(*s as u32, k as usize + 1) as u64);
        }
        let positions: Vec<u64> = idx.iter().map(|i| leaf_pos(*i)).collect();
        let proof = match mmr.gen_proof(positions.clone()) {
            Ok(p) => p,
            Err(e) => vfail!(
                format!("mmr:gen-proof-failed:{tag}"),
                "{where_}: chain_root_mmr({k}).gen_proof({positions:?}) failed: {e:?}"
            ),
        };
        let leaves: Vec<(u64, packed::HeaderDigest)> = idx
            .iter()
            .map(|i| (leaf_pos(*i), leaf_digest(&hs[*i as usize])))
            .collect();
        match proof.verify(model_root.clone(), leaves.clone()) {
            Ok(true) => {}
            other => vfail!(
                format!("mmr:proof-does-not-verify:{tag}"),
                "{where_}: proof of leaves {idx:?} from chain_root_mmr({k}) against the root over 0..={k}: {other:?}"
            ),
        }
        st.label("oracle:mmr-proof-verified");
        // wrong leaf: the abandoned branch's block at that height if there is one, else a tweak
        let j = *idx.iter().next_back().unwrap();
        let stale = abandoned
            .and_then(|a| tree.ancestor(a, j))
            .filter(|x| x.hash != path[j as usize].hash)
            .map(|x| leaf_digest(&x.block.header()));
        let wrong = match &stale {
            Some(d) => {
                st.label("oracle:mmr-wrong-leaf=abandoned-block");
                d.clone()
            }
            None => {
                let d = leaf_digest(&hs[j as usize]);
                let ts: u64 = d.start_timestamp().into();
                d.as_builder().start_timestamp(ts + 1).end_timestamp(ts + 1).build()
            }
        };
        let bad: Vec<(u64, packed::HeaderDigest)> = leaves
            .iter()
            .map(|(p, d)| if *p == leaf_pos(j) { (*p, wrong.clone()) } else { (*p, d.clone()) })
            .collect();
        if let Ok(true) = proof.verify(model_root.clone(), bad) {
            vfail!(
                "mmr:proof-verifies-with-wrong-leaf",
                "{where_}: proof from chain_root_mmr({k}) verifies with a different digest for leaf {j}"
            );
        }
        // the abandoned branch's root at the same size
        if let Some(a) = abandoned {
            if let Some(ak) = tree.ancestor(a, k) {
                if ak.hash != path[k as usize].hash {
                    let apath = tree.path(&ak.hash);
                    let ahs = headers_to(&apath, k);
                    let aroot = mmr_root_of_headers(ahs.iter()).unwrap();
                    if root.as_slice() == aroot.as_slice() {
                        vfail!(
                            "mmr:served-root-is-the-abandoned-branch-root",
                            "{where_}: chain_root_mmr({k}).get_root() equals the root of the abandoned branch"
                        );
                    }
                    if let Ok(true) = proof.verify(aroot, leaves.clone()) {
                        vfail!(
                            "mmr:proof-verifies-against-abandoned-root",
                            "{where_}: proof of main-chain leaves {idx:?} verifies against the abandoned branch's root at {k}"
                        );
                    }
                    st.label("oracle:mmr-abandoned-root-rejected");
                }
            }
        }
    }
    Ok(())
}

fn prop(case: &Case, st: &mut Stats) -> Verdict {
    let cfg = variant_cfg(case.variant);
    let env = build_env(&cfg);
    let built = Interp::new(&env).run(&case.plan);
    for (k, v) in &built.labels {
        st.label_n(k, *v);
    }
    if built.blocks.is_empty() {
        return Ok(());
    }
    let tree = &built.tree;
    install_panic_recorder();
    clear_panics();
    let node = Node::start(&env, NodeCfg::default()).map_err(|e| Violation::new("harness:node-start", e))?;
    wait_started(&node)?;
    let nblocks = built.blocks.len();
    // deliveries that detach at least one block, predicted by the model
    let reorg_deliveries: Vec<usize> = {
        let mut cur = tree.genesis.clone();
        let mut v = vec![];
        for (i, h) in built.blocks.iter().enumerate() {
            let b = tree.get(h);
            if b.td > tree.get(&cur).td && tree.path(h).iter().all(|x| x.invalid.is_none()) {
                if !tree.is_ancestor(&cur, h) {
                    v.push(i);
                }
                cur = h.clone();
            }
        }
        v
    };
    let start_idx = match case.filter_start {
        0 => 0,
        1 | 2 => match reorg_deliveries.get(case.filter_start as usize - 1) {
            Some(i) => {
                st.label("filter:service-started-right-before-a-reorg");
                *i
            }
            None => pick_idx(case.filter_start as u32 * 20000, nblocks + 1),
        },
        s => pick_idx(s as u32, nblocks + 1),
    };
    let mut filter_on = false;
    let mut cur: H = tree.genesis.clone();
    let mut abandoned: Option<H> = None;
    let mut facts = Facts::default();
    // (old length, new length) of the latest shortening reorg not yet outgrown
    let mut shortened_from: Option<u64> = None;
    let mut verified: BTreeSet<[u8; 32]> = BTreeSet::new();
    let mut reorg_since_filter_check = false;
    let mut since_wait = 0u8;
    let mut wait_i = 0usize;
    let mut confirmed: BTreeSet<[u8; 32]> = BTreeSet::new();
    let mut detached_unconfirmed: BTreeSet<[u8; 32]> = BTreeSet::new();

    for (i, h) in built.blocks.iter().enumerate() {
        let b = tree.get(h);
        if i == start_idx && !filter_on {
            ckb_block_filter::filter::BlockFilter::new(node.shared.clone()).start();
            filter_on = true;
            st.label("filter:service-started-mid-history");
        }
        let parent_chain_valid = tree.path(&b.parent).iter().all(|x| x.invalid.is_none());
        let r = node.process(&b.block);
        node_panic_violation()?;
        let heavier = b.td > tree.get(&cur).td;
        if parent_chain_valid && b.invalid.is_none() {
            if let Err(e) = &r {
                vfail!(
                    "commit:model-built-block-rejected",
                    "delivery {i}: block #{} {:#x} (model root committed, whole ancestry valid, heavier than tip: {heavier}) was rejected: {e}",
                    b.number,
                    b.hash
                );
            }
        }
        if parent_chain_valid && heavier {
            if let Some(kind) = &b.invalid {
                match &r {
                    Ok(x) => vfail!(
                        format!("commit:{kind}-block-accepted"),
                        "delivery {i}: block #{} with invalid kind {kind} on the heaviest chain returned Ok({x})",
                        b.number
                    ),
                    Err(e) => {
                        let es = format!("{e:?}");
                        let want = if kind == "ChainRoot" { "InvalidChainRoot" } else { "NoBlockExtension" };
                        if !es.contains(want) {
                            vfail!(
                                format!("commit:{kind}-block-rejected-for-another-reason"),
                                "delivery {i}: block #{} ({kind}) rejected with {es}, expected {want}",
                                b.number
                            );
                        }
                        facts.flipped_rejected += 1;
                    }
                }
            }
        }
        let new_cur = if heavier && tree.path(h).iter().all(|x| x.invalid.is_none()) {
            h.clone()
        } else {
            cur.clone()
        };
        let tip = node.tip_hash();
        if tip != new_cur {
            vfail!(
                "tip:differs-from-model",
                "delivery {i} (#{}): node tip {:#x} #{} but the model's tip is {:#x} #{}",
                b.number,
                tip,
                node.shared.snapshot().tip_number(),
                new_cur,
                tree.get(&new_cur).number
            );
        }
        if new_cur != cur {
            let ro = classify(tree, &cur, &new_cur);
            let old_n = tree.get(&cur).number;
            let new_n = tree.get(&new_cur).number;
            if ro.detached > 0 {
                st.label("reorg:any");
                facts.max_detached = facts.max_detached.max(ro.detached);
                abandoned = Some(ro.old_tip.clone());
                reorg_since_filter_check = reorg_since_filter_check || filter_on;
                if filter_on {
                    for x in tree.path(&cur).iter().rev().take(ro.detached as usize) {
                        if !confirmed.contains(&h32(&x.hash)) {
                            detached_unconfirmed.insert(h32(&x.hash));
                        }
                    }
                }
                if new_n < old_n {
                    st.label("reorg:to-shorter-chain");
                    facts.shortening_reorgs += 1;
                    shortened_from = Some(shortened_from.unwrap_or(0).max(old_n));
                } else if new_n == old_n {
                    st.label("reorg:to-equal-length");
                }
                // blocks re-attached that were verified before
                let re = tree
                    .path(&new_cur)
                    .iter()
                    .rev()
                    .take(ro.attached as usize)
                    .filter(|x| verified.contains(&h32(&x.hash)))
                    .count();
                if re > 0 {
                    st.label("reorg:back-to-verified-branch");
                    facts.back_to_verified += 1;
                }
            }
            if let Some(old) = shortened_from {
                if new_n > old {
                    facts.regrew_past_old_length = true;
                    st.label("reorg:shortened-then-regrew-past-old-length");
                    shortened_from = None;
                }
            }
            for x in tree.path(&new_cur).iter().rev().take(ro.attached as usize) {
                verified.insert(h32(&x.hash));
            }
            cur = new_cur;
        }
        let sel = &case.proofs[i % case.proofs.len()];
        mmr_oracle(&node, tree, &cur, abandoned.as_ref(), sel, &format!("after delivery {i} (#{})", b.number), st)?;

        if filter_on {
            since_wait += 1;
            let w = case.filter_waits[wait_i % case.filter_waits.len()];
            if since_wait >= w {
                since_wait = 0;
                wait_i += 1;
                wait_filters(&node, tree, &cur, st)?;
                if reorg_since_filter_check {
                    facts.filters_across_reorg = true;
                    st.label("filter:built-across-a-reorg");
                    reorg_since_filter_check = false;
                }
                filter_oracle(&node, tree, &cur, &format!("after delivery {i}"), &mut confirmed, &detached_unconfirmed, st)?;
            }
        }
    }
    if !filter_on {
        ckb_block_filter::filter::BlockFilter::new(node.shared.clone()).start();
        st.label("filter:service-started-after-history");
    }
    wait_filters(&node, tree, &cur, st)?;
    if reorg_since_filter_check {
        facts.filters_across_reorg = true;
        st.label("filter:built-across-a-reorg");
    }
    filter_oracle(&node, tree, &cur, "final", &mut confirmed, &detached_unconfirmed, st)?;
    node_panic_violation()?;
    node.stop();

    if facts.flipped_rejected > 0 {
        st.label("commit:flipped-root-or-missing-extension-rejected");
    }
    if facts.max_detached >= 3 {
        st.label("reorg:detached>=3");
    }
    if facts.regrew_past_old_length || facts.filters_across_reorg {
        st.nontrivial(&serde_json::to_string(case).unwrap());
        if st.want_sample() {
            st.sample(|| {
                json!({"variant": case.variant, "blocks": nblocks,
                    "tree": built.blocks.iter().map(|h| { let b = tree.get(h); json!({"n": b.number, "parent_n": tree.get(&b.parent).number, "txs": b.block.transactions().len()-1, "uncles": b.block.uncles().data().len(), "invalid": b.invalid})}).collect::<Vec<_>>(),
                    "filter_start": start_idx, "filter_waits": case.filter_waits,
                    "shortening_reorgs": facts.shortening_reorgs, "regrew_past_old_length": facts.regrew_past_old_length,
                    "filters_across_reorg": facts.filters_across_reorg, "back_to_verified_branch": facts.back_to_verified,
                    "final_tip_number": tree.get(&cur).number})
            });
        }
    }
    Ok(())
}

fn run(ctx: &Ctx) {
    ctx.shrink_iters.set(100);
    let max_blocks = ctx.tier.pick(40, 90);
    let cases = ctx.cases(600, 4500);
    // development aid: VERIF_C19_SUB=<name> runs one family only
    let only = std::env::var("VERIF_C19_SUB").ok();
    let want = |s: &str| only.as_deref().map(|o| o == s).unwrap_or(true);
    if want("history") {
        ctx.run_prop("history", cases, case_strategy(max_blocks), prop);
    }
    let cases = ctx.cases(800, 6000);
    if want("shorter-heavier") {
        ctx.run_prop("shorter-heavier", cases, directed_strategy(), prop);
    }
    let cases = ctx.cases(600, 8000);
    if want("light-client") {
        ctx.run_prop("light-client", cases, crate::c19_lc::case_strategy(max_blocks), crate::c19_lc::prop);
    }
    // filter-protocol: few cases (every case is a node life with the filter service and several
    // waits for the builder), plus one fixed long linear chain that reaches the batch sizes and the
    // check point interval (worker 0)
    let cases = ctx.cases(200, 3000);
    if want("filter-protocol") {
        ctx.run_prop("filter-protocol", cases, crate::c19_filter::case_strategy(max_blocks), crate::c19_filter::prop);
        if ctx.worker == 0 {
            ctx.run_case("filter-protocol", &crate::c19_filter::long_case(ctx.tier.pick(2010, 4010)), crate::c19_filter::prop);
        }
    }
}

fn replay(ctx: &Ctx, sub: &str, v: &Value) -> Verdict {
    if sub == "light-client" {
        let c: crate::c19_lc::Case = from_case(v)?;
        let mut st = ctx.stats.borrow_mut();
        return crate::c19_lc::prop(&c, &mut st);
    }
    if sub == "filter-protocol" {
        let c: crate::c19_filter::Case = from_case(v)?;
        let mut st = ctx.stats.borrow_mut();
        return crate::c19_filter::prop(&c, &mut st);
    }
    let c: Case = from_case(v)?;
    let mut st = ctx.stats.borrow_mut();
    prop(&c, &mut st)
}
