//! C17 — sync bookkeeping structures behave like their simple mathematical models.
//!
//! Four independent model-based sub-checks (pure, no node) plus one node-based part:
//!  * `orphan`    OrphanBlockPool vs a set-of-(hash,parent) model (bounded-exhaustive + random)
//!  * `inflight`  InflightBlocks (fake clock) vs a map block -> (peer, request time, slow mark)
//!  * `headermap` HeaderMap vs HashMap with spills placed between operations
//!  * `ancestor`  HeaderIndexView::get_ancestor vs the naive parent walk on random header trees
//!  * `locator`   ActiveChain::{get_ancestor,get_locator} on a SyncShared vs the parent walk
//!  * `fetch`     BlockFetcher::fetch + the in-flight table on a node with fake peers (headers, requests,
//!                arrivals, disconnects, time-outs) vs plain sets over the harness's own block tree
use crate::common::*;
use crate::{vensure, vfail};
use ckb_chain::{LonelyBlockHash, OrphanBlockPool};
use ckb_shared::types::header_map::HeaderMap;
use ckb_shared::types::HeaderIndexView;
use ckb_sync::verif as sync_verif;
use ckb_sync::verif::InflightBlocks;
use ckb_types::core::EpochNumberWithFraction;
use ckb_types::packed::Byte32;
use ckb_types::{BlockNumberAndHash, U256};
use proptest::prelude::*;
use serde::{Deserialize, Serialize};
use serde_json::{Value, json};
use std::cell::Cell;
use std::collections::{BTreeMap, BTreeSet, HashMap};
use std::panic::{AssertUnwindSafe, catch_unwind};
use std::sync::Arc;
use std::sync::atomic::AtomicBool;

#[path = "c17_locator.rs"]
mod locator;
#[path = "c17_fetch.rs"]
mod fetch;

pub fn spec() -> CheckSpec {
    CheckSpec {
        id: "C17",
        level: "exploration",
        rule: "orphan: op sequence with >=1 release (or expiry) of a multi-level subtree (a returned block whose parent is returned too); inflight: sequence with >=1 prune that releases a timed-out request; headermap: >=1 spill that moved entries to the backend followed by a get of a spilled key; ancestor/locator: base header at height >= 64; fetch: schedule in which two connected peers have best known headers on different branches whose common part is not fully downloaded AND some fetch returned blocks while other blocks of that peer's branch were in flight from another peer (so they had to be skipped); distinct = hash of the whole case (structure + ops); exhaustive orphan sequences are counted in evaluations and labels but only a bounded sample of them enters the distinct set (likewise at most 150k descriptors per worker and sub-check)",
        assumptions: &[
            "orphan pool: hashes are injective and acyclic (each hash has one fixed parent of lower index or an external root), as block hashes are; a block is expired iff epoch + 6 < tip_epoch (doc comment of clean_expired_blocks, EXPIRED_EPOCH = 6); expiry removes whole leader subtrees and is decided by some child of the leader (mixed-epoch siblings may go either way); releasing a parent that is itself stored may return nothing (callers release leaders only)",
            "in-flight table: 'timed out' = request older than BLOCK_DOWNLOAD_TIMEOUT with number <= tip+20 at prune, or marked slow (mark_slow_block, or inserted at/below the restart number) for longer than division_point().2 (low_time, read from the structure); a peer is 'tracked' iff blocks_iter lists it",
            "header map: values have well-formed epochs (length >= 1, index < length) as every header that passed HeaderVerifier has; only get/contains_key answers are compared",
            "ancestor: hashes are synthetic (unique per node); get_header_view ignores store_first; fast_scanner returns the main-chain header of the requested height iff the current header is on the designated main chain at or below its tip",
            "fetch: valid blocks only (model-built, always_success cellbase-only blocks, one epoch, constant difficulty, tree depth < 150 so BLOCK_DOWNLOAD_WINDOW and CHECK_POINT_WINDOW are never reached); headers arrive through the SendHeaders handler from a header whose parent the node knows; blocks through the SendBlock handler, each followed by a FIFO barrier through the chain service; the per-peer window (peer_can_fetch_count) and the peers prune drops are read from the table, not modelled; 'lowest missing first' = the blocks of the path genesis..best known header that are neither stored, received nor in flight, ascending, cut at the peer window (IBD mode: only above the height of the unverified tip); last_common_header is checked only after a fetch that got past its early exits (peer window full / peer not ahead of the tip), before that it may date from the peer's former branch; slow-block marks (mark_slow_block) and BLOCK_INVALID blocks are not reached",
            "locator: node with verification switched off (Switch::DISABLE_ALL), header-only forks fed through SyncShared::insert_valid_header; ONE_DAY_BLOCK_NUMBER low-height branch (index > 8192) not reached",
        ],
        workers: |_| 16,
        watchdog_s: |t| t.pick(900, 5400),
        run,
        replay,
    }
}

/// at most this many descriptors per worker and sub-check enter the distinct set (the label
/// histogram still counts every case): keeps worker outputs small in the thorough tier.
const NT_CAP: u64 = 150_000;
thread_local! {
    static NT_COUNT: std::cell::RefCell<BTreeMap<&'static str, u64>> = const { std::cell::RefCell::new(BTreeMap::new()) };
}
fn nontrivial_capped<T: std::hash::Hash>(st: &mut Stats, sub: &'static str, d: &T) -> bool {
    if st.is_frozen() {
        return false;
    }
    NT_COUNT.with(|c| {
        let mut c = c.borrow_mut();
        let n = c.entry(sub).or_insert(0);
        if *n < NT_CAP {
            *n += 1;
            st.nontrivial(&(sub, d));
            true
        } else {
            false
        }
    })
}

fn panic_msg(p: Box<dyn std::any::Any + Send>) -> String {
    if let Some(s) = p.downcast_ref::<&str>() {
        s.to_string()
    } else if let Some(s) = p.downcast_ref::<String>() {
        s.clone()
    } else {
        "non-string panic".to_string()
    }
}

/// first line, digits squashed: stable enough for a signature
fn short_sig(msg: &str) -> String {
    let l = msg.lines().next().unwrap_or("");
    let l: String = l
        .chars()
        .take(60)
        .map(|c| if c.is_ascii_digit() { '#' } else if c == ' ' { '_' } else { c })
        .collect();
    l
}

/// run `f`, turning a panic of the code under test into a violation naming the op index.
fn guarded<T>(part: &str, step: &Cell<usize>, f: impl FnOnce() -> Result<T, Violation>) -> Result<T, Violation> {
    match catch_unwind(AssertUnwindSafe(f)) {
        Ok(r) => r,
        Err(p) => {
            let m = panic_msg(p);
            Err(Violation::new(
                format!("{part}:panic:{}", short_sig(&m)),
                format!("panic at op {}: {m}", step.get()),
            ))
        }
    }
}

// =====================================================================================
// 1. OrphanBlockPool
// =====================================================================================

#[derive(Clone, Debug, Serialize, Deserialize, PartialEq, Eq, Hash)]
pub enum OOp {
    /// insert hash i (with its fixed parent and epoch)
    Insert(u8),
    /// remove_blocks_by_parent(node): node < n_ext external root, n_ext+i hash i, n_ext+u unknown
    Release(u8),
    /// clean_expired_blocks(tip_epoch)
    Expire(u8),
}

#[derive(Clone, Debug, Serialize, Deserialize, Hash)]
pub struct OrphanCase {
    pub n_ext: u8,
    /// parent node of hash i: v < n_ext external root v, else hash (v - n_ext) with v - n_ext < i
    pub parents: Vec<u8>,
    pub epochs: Vec<u8>,
    pub ops: Vec<OOp>,
}

const EXPIRED_EPOCH: u64 = 6;

fn node_hash(id: usize) -> Byte32 {
    let mut b = [0u8; 32];
    b[0] = 0xc1;
    b[1] = 0x70;
    b[2] = id as u8;
    b[31] = (id as u8).wrapping_mul(37) ^ 0x5a;
    Byte32::new(b)
}

#[derive(Default, Clone, Copy)]
struct OFlags {
    multi: bool,
    released: bool,
    expired: bool,
    dup_insert: bool,
    parent_after_child: bool,
    sibling: bool,
    mixed_epoch_leader: bool,
    release_stored: bool,
}

struct OrphanEnv {
    n_ext: usize,
    u: usize,
    parents: Vec<usize>,
    epochs: Vec<u64>,
    hashes: Vec<Byte32>,
    index_of: HashMap<Byte32, usize>, // hash -> hash idx
}

impl OrphanEnv {
    fn new(n_ext: usize, parents: &[u8], epochs: &[u8]) -> Result<Self, Violation> {
        let u = parents.len();
        vensure!(epochs.len() == u && n_ext >= 1 && n_ext + u + 1 < 60, "replay-format", "bad orphan case");
        for (i, p) in parents.iter().enumerate() {
            vensure!((*p as usize) < n_ext + i, "replay-format", "parent of hash {i} must precede it");
        }
        let hashes: Vec<Byte32> = (0..n_ext + u + 1).map(node_hash).collect();
        let index_of = (0..u).map(|i| (hashes[n_ext + i].clone(), i)).collect();
        Ok(OrphanEnv {
            n_ext,
            u,
            parents: parents.iter().map(|p| *p as usize).collect(),
            epochs: epochs.iter().map(|e| *e as u64).collect(),
            hashes,
            index_of,
        })
    }

    fn block(&self, i: usize) -> LonelyBlockHash {
        LonelyBlockHash {
            block_number_and_hash: BlockNumberAndHash::new(100 + i as u64, self.hashes[self.n_ext + i].clone()),
            parent_hash: self.hashes[self.parents[i]].clone(),
            epoch_number: self.epochs[i],
            switch: None,
            verify_callback: None,
        }
    }

    /// stored descendants of node `n` (through stored blocks only), as a bitmask over hash idx
    fn descendants(&self, present: u64, n: usize) -> u64 {
        let mut d = 0u64;
        for i in 0..self.u {
            if present >> i & 1 == 1 {
                let p = self.parents[i];
                if p == n || (p >= self.n_ext && d >> (p - self.n_ext) & 1 == 1) {
                    d |= 1 << i;
                }
            }
        }
        d
    }

    fn is_stored(&self, present: u64, node: usize) -> bool {
        node >= self.n_ext && node < self.n_ext + self.u && present >> (node - self.n_ext) & 1 == 1
    }

    /// model leader set: parents of stored blocks that are not themselves stored (bitmask over nodes)
    fn leaders(&self, present: u64) -> u128 {
        let mut l = 0u128;
        for i in 0..self.u {
            if present >> i & 1 == 1 && !self.is_stored(present, self.parents[i]) {
                l |= 1 << self.parents[i];
            }
        }
        l
    }

    fn decode(&self, got: &[LonelyBlockHash], what: &str, k: usize) -> Result<u64, Violation> {
        let mut m = 0u64;
        for b in got {
            let h = b.hash();
            let Some(&i) = self.index_of.get(&h) else {
                vfail!(format!("orphan:{what}:unknown-block"), "op {k}: returned a block never inserted: {h}");
            };
            if m >> i & 1 == 1 {
                vfail!(format!("orphan:{what}:duplicate"), "op {k}: hash {i} returned twice");
            }
            if b.parent_hash() != self.hashes[self.parents[i]] || b.epoch_number() != self.epochs[i] {
                vfail!(format!("orphan:{what}:altered-block"), "op {k}: hash {i} came back with another parent/epoch");
            }
            m |= 1 << i;
        }
        Ok(m)
    }

    fn observe(&self, pool: &OrphanBlockPool, present: u64, k: usize) -> Verdict {
        let len = pool.len();
        if len != present.count_ones() as usize {
            vfail!(
                if len > present.count_ones() as usize { "orphan:len:too-large" } else { "orphan:len:too-small" },
                "after op {k}: len()={len}, model holds {} blocks (mask {present:#b})",
                present.count_ones()
            );
        }
        for i in 0..self.u {
            let c = pool.verif_contains(&self.hashes[self.n_ext + i]);
            let m = present >> i & 1 == 1;
            if c != m {
                vfail!(
                    if c { "orphan:contains:ghost" } else { "orphan:contains:lost" },
                    "after op {k}: pool contains hash {i} = {c}, model = {m}"
                );
            }
        }
        let want = self.leaders(present);
        let mut got = 0u128;
        for l in pool.clone_leaders() {
            let Some(n) = self.hashes.iter().position(|h| *h == l) else {
                vfail!("orphan:leaders:unknown-hash", "after op {k}: leader {l} is no parent of any block");
            };
            if got >> n & 1 == 1 {
                vfail!("orphan:leaders:duplicate", "after op {k}: leader node {n} listed twice");
            }
            got |= 1 << n;
        }
        if got != want {
            let extra = got & !want;
            let missing = want & !got;
            if extra != 0 {
                let n = extra.trailing_zeros() as usize;
                let kind = if self.is_stored(present, n) {
                    "stored-block"
                } else if self.descendants(present, n) == 0 {
                    "childless"
                } else {
                    "other"
                };
                vfail!(
                    format!("orphan:leaders:extra:{kind}"),
                    "after op {k}: node {n} is listed as leader but is {kind} (model leaders {want:#b}, got {got:#b})"
                );
            }
            let n = missing.trailing_zeros() as usize;
            vfail!(
                "orphan:leaders:missing",
                "after op {k}: node {n} has stored children and is absent itself but is not a leader (model {want:#b}, got {got:#b})"
            );
        }
        Ok(())
    }
}

/// `observe_from`: first op index after which the full observation (len / contains / leaders) is
/// made; the exhaustive enumeration has already observed the unchanged prefix in the previous sequence.
fn orphan_exec(env: &OrphanEnv, ops: &[OOp], step: &Cell<usize>, observe_from: usize) -> Result<OFlags, Violation> {
    let pool = OrphanBlockPool::with_capacity(4);
    let mut present = 0u64;
    let mut fl = OFlags::default();
    for (k, op) in ops.iter().enumerate() {
        step.set(k);
        match *op {
            OOp::Insert(i) => {
                let i = i as usize;
                vensure!(i < env.u, "replay-format", "insert index out of range");
                if present >> i & 1 == 1 {
                    fl.dup_insert = true;
                }
                // a stored child waits for this block: the parent arrives after the child
                if (0..env.u).any(|c| present >> c & 1 == 1 && env.parents[c] == env.n_ext + i) {
                    fl.parent_after_child = true;
                }
                if (0..env.u).any(|c| c != i && present >> c & 1 == 1 && env.parents[c] == env.parents[i]) {
                    fl.sibling = true;
                }
                pool.insert(env.block(i));
                present |= 1 << i;
            }
            OOp::Release(n) => {
                let n = n as usize;
                vensure!(n <= env.n_ext + env.u, "replay-format", "release node out of range");
                let want = env.descendants(present, n);
                let got = pool.remove_blocks_by_parent(&env.hashes[n]);
                let got = env.decode(&got, "release", k)?;
                let stored = env.is_stored(present, n);
                if stored {
                    fl.release_stored = true;
                }
                if got != want && !(stored && got == 0) {
                    if got & !want != 0 {
                        let i = (got & !want).trailing_zeros();
                        vfail!(
                            "orphan:release:extra-block",
                            "op {k}: release(node {n}) returned hash {i}, which is not a stored descendant (want {want:#b}, got {got:#b}, present {present:#b})"
                        );
                    }
                    let i = (want & !got).trailing_zeros();
                    vfail!(
                        if got == 0 { "orphan:release:nothing-returned" } else { "orphan:release:missing-descendant" },
                        "op {k}: release(node {n}) did not return stored descendant hash {i} (want {want:#b}, got {got:#b}, present {present:#b})"
                    );
                }
                if got != 0 {
                    fl.released = true;
                    if (0..env.u).any(|i| got >> i & 1 == 1 && env.parents[i] >= env.n_ext && got >> (env.parents[i] - env.n_ext) & 1 == 1) {
                        fl.multi = true;
                    }
                }
                present &= !got;
            }
            OOp::Expire(e) => {
                let tip = e as u64;
                let got = pool.clean_expired_blocks(tip);
                let got = env.decode(&got, "expire", k)?;
                let leaders = env.leaders(present);
                let mut covered = 0u64;
                for l in 0..env.n_ext + env.u {
                    if leaders >> l & 1 == 0 {
                        continue;
                    }
                    let sub = env.descendants(present, l);
                    covered |= sub;
                    let (mut exp, mut fresh) = (0, 0);
                    for i in 0..env.u {
                        if present >> i & 1 == 1 && env.parents[i] == l {
                            if env.epochs[i] + EXPIRED_EPOCH < tip { exp += 1 } else { fresh += 1 }
                        }
                    }
                    if exp > 0 && fresh > 0 {
                        fl.mixed_epoch_leader = true;
                    }
                    let g = got & sub;
                    if g != 0 && g != sub {
                        vfail!(
                            "orphan:expire:partial-subtree",
                            "op {k}: expire({tip}) removed part of leader {l}'s subtree (subtree {sub:#b}, removed {g:#b})"
                        );
                    }
                    if g == 0 && fresh == 0 {
                        vfail!(
                            "orphan:expire:kept-expired-subtree",
                            "op {k}: expire({tip}) kept leader {l}'s subtree {sub:#b} although every child is expired"
                        );
                    }
                    if g != 0 && exp == 0 {
                        vfail!(
                            "orphan:expire:removed-unexpired",
                            "op {k}: expire({tip}) removed leader {l}'s subtree {sub:#b} although no child is expired"
                        );
                    }
                }
                if got & !covered != 0 {
                    vfail!("orphan:expire:extra-block", "op {k}: expire({tip}) returned {got:#b}, stored {present:#b}");
                }
                if got != 0 {
                    fl.expired = true;
                    if (0..env.u).any(|i| got >> i & 1 == 1 && env.parents[i] >= env.n_ext && got >> (env.parents[i] - env.n_ext) & 1 == 1) {
                        fl.multi = true;
                    }
                }
                present &= !got;
            }
        }
        if k >= observe_from {
            env.observe(&pool, present, k)?;
        }
    }
    Ok(fl)
}

fn orphan_label(fl: &OFlags, st: &mut Stats, pre: &str, n: u64) {
    let mut l = |c: bool, s: &str| {
        if c {
            st.label_n(&format!("{pre}{s}"), n)
        }
    };
    l(fl.multi, "multi-level-release");
    l(fl.released, "release-nonempty");
    l(fl.expired, "expire-nonempty");
    l(fl.dup_insert, "duplicate-insert");
    l(fl.parent_after_child, "parent-after-child");
    l(fl.sibling, "siblings");
    l(fl.mixed_epoch_leader, "expire-mixed-epoch-siblings");
    l(fl.release_stored, "release-of-stored-block");
}

fn orphan_prop(case: &OrphanCase, st: &mut Stats) -> Verdict {
    let env = OrphanEnv::new(case.n_ext as usize, &case.parents, &case.epochs)?;
    let step = Cell::new(0);
    let fl = guarded("orphan", &step, || orphan_exec(&env, &case.ops, &step, 0))?;
    orphan_label(&fl, st, "orphan/", 1);
    if fl.multi {
        nontrivial_capped(st, "orphan", case);
        st.sample(|| json!({"sub": "orphan", "case": case}));
    }
    Ok(())
}

fn orphan_strategy() -> impl Strategy<Value = OrphanCase> {
    (3usize..=10, 1usize..=3).prop_flat_map(|(u, n_ext)| {
        (
            // parent: mostly a recent hash (chains), sometimes anything (siblings, roots)
            proptest::collection::vec((0u8..10, any::<u16>()), u),
            proptest::collection::vec(0u8..4, u),
            proptest::collection::vec((0u8..20, any::<u16>(), 0u8..6), 1..40),
        )
            .prop_map(move |(ps, es, os)| {
                let parents: Vec<u8> = ps
                    .iter()
                    .enumerate()
                    .map(|(i, (kind, sel))| {
                        if i > 0 && *kind < 5 {
                            (n_ext + i - 1) as u8
                        } else {
                            pick_idx(*sel as u32, n_ext + i) as u8
                        }
                    })
                    .collect();
                let ops = os
                    .iter()
                    .map(|(kind, sel, e)| match kind {
                        0..=10 => OOp::Insert(pick_idx(*sel as u32, u) as u8),
                        11..=16 => OOp::Release(pick_idx(*sel as u32, n_ext + u + 1) as u8),
                        // tip epochs 5..=10: expires epochs < tip-6
                        _ => OOp::Expire(5 + *e),
                    })
                    .collect();
                OrphanCase { n_ext: n_ext as u8, parents, epochs: es, ops }
            })
    })
}

/// all op sequences of length `len` (every prefix is checked on the way) over 4 hashes, 2 external
/// roots, every forest shape; epochs fixed to [0,1,0,1]; expiry tips 7 (expires epoch 0) and 8 (both).
fn orphan_exhaustive(ctx: &Ctx, len: usize) {
    const U: usize = 4;
    const N_EXT: usize = 2;
    let mut alphabet: Vec<OOp> = vec![];
    for i in 0..U {
        alphabet.push(OOp::Insert(i as u8));
    }
    for n in 0..N_EXT + U {
        alphabet.push(OOp::Release(n as u8));
    }
    alphabet.push(OOp::Expire(7));
    alphabet.push(OOp::Expire(8));
    let a = alphabet.len();
    let mut shapes: Vec<[u8; U]> = vec![];
    for p0 in 0..N_EXT {
        for p1 in 0..N_EXT + 1 {
            for p2 in 0..N_EXT + 2 {
                for p3 in 0..N_EXT + 3 {
                    shapes.push([p0 as u8, p1 as u8, p2 as u8, p3 as u8]);
                }
            }
        }
    }
    let epochs = [0u8, 1, 0, 1];
    let mut total = 0u64;
    let mut agg: BTreeMap<&'static str, u64> = BTreeMap::new();
    let mut sampled = 0usize;
    let mut unit = 0usize;
    let step = Cell::new(0);
    'outer: for shape in &shapes {
        let env = OrphanEnv::new(N_EXT, shape, &epochs).expect("shape");
        for first in 0..a {
            unit += 1;
            if (unit - 1) % ctx.nworkers != ctx.worker {
                continue;
            }
            let mut idx = vec![0usize; len];
            idx[0] = first;
            let mut ops: Vec<OOp> = idx.iter().map(|i| alphabet[*i].clone()).collect();
            let mut observe_from = 0usize;
            loop {
                let res = guarded("orphan", &step, || orphan_exec(&env, &ops, &step, observe_from));
                total += 1;
                match res {
                    Ok(fl) => {
                        let mut c = |b: bool, s: &'static str| {
                            if b {
                                *agg.entry(s).or_insert(0) += 1
                            }
                        };
                        c(fl.multi, "multi-level-release");
                        c(fl.released, "release-nonempty");
                        c(fl.expired, "expire-nonempty");
                        c(fl.dup_insert, "duplicate-insert");
                        c(fl.parent_after_child, "parent-after-child");
                        c(fl.sibling, "siblings");
                        c(fl.mixed_epoch_leader, "expire-mixed-epoch-siblings");
                        c(fl.release_stored, "release-of-stored-block");
                        if fl.multi && sampled < 4000 {
                            sampled += 1;
                            ctx.stats.borrow_mut().nontrivial(&("orphan-exh", shape, &ops));
                        }
                    }
                    Err(v) => {
                        // shortest failing prefix
                        let mut viol = v;
                        let mut cut = ops.len();
                        for k in 1..=ops.len() {
                            if let Err(v2) = guarded("orphan", &step, || orphan_exec(&env, &ops[..k], &step, 0)) {
                                viol = v2;
                                cut = k;
                                break;
                            }
                        }
                        let case = OrphanCase {
                            n_ext: N_EXT as u8,
                            parents: shape.to_vec(),
                            epochs: epochs.to_vec(),
                            ops: ops[..cut].to_vec(),
                        };
                        let verdict = ctx.tolerate_known(Err(viol));
                        if let Err(viol) = verdict {
                            ctx.report("orphan", &serde_json::to_value(&case).unwrap(), viol);
                            break 'outer;
                        }
                    }
                }
                // odometer over positions 1..len (position 0 is the unit's first op)
                let mut pos = len;
                let mut done = true;
                while pos > 1 {
                    pos -= 1;
                    idx[pos] += 1;
                    if idx[pos] < a {
                        ops[pos] = alphabet[idx[pos]].clone();
                        observe_from = pos;
                        done = false;
                        break;
                    }
                    idx[pos] = 0;
                    ops[pos] = alphabet[0].clone();
                }
                if done {
                    break;
                }
            }
        }
    }
    let mut st = ctx.stats.borrow_mut();
    st.eval_n("orphan-exhaustive", total);
    for (k, v) in agg {
        st.label_n(&format!("orphan-exh/{k}"), v);
    }
    let part = format!(
        "orphan pool: every op sequence of length <= {len} over the {a}-op alphabet (insert h0..h3, release of each of 6 nodes, expire tip 7/8) x all {} forest shapes of 4 hashes over 2 external roots, checked after every op",
        shapes.len()
    );
    if !st.exhaustive_parts.contains(&part) {
        st.exhaustive_parts.push(part);
    }
}

// =====================================================================================
// 2. InflightBlocks
// =====================================================================================

#[derive(Clone, Debug, Serialize, Deserialize, PartialEq, Eq, Hash)]
pub enum IOp {
    Insert { peer: u8, block: u8 },
    RemoveByBlock(u8),
    RemoveByPeer(u8),
    /// advance the fake clock by that many ms
    Advance(u32),
    Prune(u8),
    MarkSlow(u8),
    SetAdjustment(bool),
}

#[derive(Clone, Debug, Serialize, Deserialize, Hash)]
pub struct InflightCase {
    pub protect_num: u8,
    /// block universe: numbers (hash is derived from the index, so equal numbers are distinct blocks)
    pub blocks: Vec<u8>,
    pub ops: Vec<IOp>,
}

#[derive(Clone, Debug, PartialEq, Eq)]
struct MEntry {
    peer: u8,
    ts: u64,
    mark: Option<u64>,
}

fn block_key(idx: usize, number: u8) -> BlockNumberAndHash {
    let mut b = [0u8; 32];
    b[0] = 0xb1;
    b[1] = idx as u8;
    b[2] = number;
    // make the hash order unrelated to the index order
    b[3] = (idx as u8).wrapping_mul(151) ^ 0x33;
    b.rotate_left(3);
    BlockNumberAndHash::new(number as u64, Byte32::new(b))
}

const T0: u64 = 1_700_000_000_000;

/// Root-cause trigger of the listed in-flight finding: `prune` drops the scheduler of a punished
/// peer (task_count == 0) while that peer still has live entries in the table.  Every violation
/// seen after that point carries this suffix; when the finding is listed as known, generated cases
/// stop at the trigger (counted under `inflight/excluded:...`) so the search continues elsewhere.
const AFTER_DROP: &str = ":after-prune-dropped-peer-with-live-entries";
pub const KNOWN_STALE_SIGS: [&str; 2] = [
    "inflight:remove_by_peer:kept-unlisted-entry-of-leaving-peer:after-prune-dropped-peer-with-live-entries",
    "inflight:prune:released-live-request:after-prune-dropped-peer-with-live-entries",
];
static EXCLUDE_KNOWN_STALE: AtomicBool = AtomicBool::new(false);

fn inflight_exec(case: &InflightCase, st: &mut Stats, step: &Cell<usize>) -> Verdict {
    let after_drop = Cell::new(false);
    let r = inflight_exec_inner(case, st, step, &after_drop);
    match r {
        Err(mut v) if after_drop.get() && v.signature.starts_with("inflight:") && !v.signature.contains(":panic:") => {
            v.signature.push_str(AFTER_DROP);
            Err(v)
        }
        other => other,
    }
}

fn inflight_exec_inner(case: &InflightCase, st: &mut Stats, step: &Cell<usize>, after_drop: &Cell<bool>) -> Verdict {
    use ckb_constant::sync::BLOCK_DOWNLOAD_TIMEOUT;
    let nb = case.blocks.len();
    vensure!(nb >= 1 && nb < 200, "replay-format", "bad block universe");
    let keys: Vec<BlockNumberAndHash> = case.blocks.iter().enumerate().map(|(i, n)| block_key(i, *n)).collect();
    let clock = ckb_systemtime::faketime();
    let mut now = T0;
    clock.set_faketime(now);
    let mut real = InflightBlocks::default();
    sync_verif::set_protect_num(&mut real, case.protect_num as usize);
    // model
    let mut model: BTreeMap<usize, MEntry> = BTreeMap::new();
    let mut restart: u64 = 0;
    let mut timeout_prune = false;
    let mut labels: BTreeSet<&'static str> = BTreeSet::new();

    // listed view of the real structure: peer -> set of block idx
    let listed = |real: &InflightBlocks, k: usize| -> Result<BTreeMap<u8, BTreeSet<usize>>, Violation> {
        let mut l: BTreeMap<u8, BTreeSet<usize>> = BTreeMap::new();
        for (peer, set) in real.blocks_iter() {
            let p = peer.value() as u8;
            let e = l.entry(p).or_default();
            for b in set {
                let Some(i) = keys.iter().position(|x| x == b) else {
                    vfail!("inflight:listed:unknown-block", "after op {k}: peer {p} lists a block never requested");
                };
                e.insert(i);
            }
        }
        Ok(l)
    };

    for (k, op) in case.ops.iter().enumerate() {
        step.set(k);
        let l_before = listed(&real, k)?;
        match op {
            IOp::Insert { peer, block } => {
                let b = *block as usize;
                vensure!(b < nb, "replay-format", "block index");
                let was = model.contains_key(&b);
                let got = real.insert((*peer as usize).into(), keys[b].clone());
                if got == was {
                    vfail!(
                        if got { "inflight:insert:accepted-while-in-flight" } else { "inflight:insert:refused-while-free" },
                        "op {k}: insert(peer {peer}, block {b}) returned {got}, model in flight before = {was} ({:?})",
                        model.get(&b)
                    );
                }
                if was {
                    labels.insert("inflight/insert-refused");
                    if model[&b].peer != *peer {
                        labels.insert("inflight/insert-refused-other-peer");
                    }
                } else {
                    let mark = (restart >= case.blocks[b] as u64).then_some(now);
                    if mark.is_some() {
                        labels.insert("inflight/insert-below-restart-number");
                    }
                    model.insert(b, MEntry { peer: *peer, ts: now, mark });
                }
            }
            IOp::RemoveByBlock(block) => {
                let b = *block as usize;
                vensure!(b < nb, "replay-format", "block index");
                let was = model.remove(&b);
                let got = real.remove_by_block(keys[b].clone());
                if got != was.is_some() {
                    vfail!(
                        if got { "inflight:remove_by_block:true-for-free-block" } else { "inflight:remove_by_block:false-for-inflight-block" },
                        "op {k}: remove_by_block({b}) returned {got}, model entry {was:?}"
                    );
                }
                if was.is_some() {
                    labels.insert("inflight/block-arrived");
                }
            }
            IOp::RemoveByPeer(peer) => {
                let tracked = l_before.contains_key(peer);
                let affected: BTreeSet<usize> = model.iter().filter(|(_, e)| e.peer == *peer).map(|(b, _)| *b).collect();
                let _ = real.remove_by_peer((*peer as usize).into());
                if tracked {
                    if !affected.is_empty() {
                        labels.insert("inflight/tracked-peer-left-with-blocks");
                    }
                    for b in &affected {
                        model.remove(b);
                    }
                } else {
                    // the statement speaks of tracked peers only: adopt what happened, but nobody
                    // else's entries may be touched (checked by the table comparison below)
                    if !affected.is_empty() {
                        labels.insert("inflight/untracked-peer-left-with-stale-entries");
                    }
                    for b in &affected {
                        if real.inflight_state_by_block(&keys[*b]).is_none() {
                            model.remove(b);
                        }
                    }
                }
                if tracked {
                    if let Some(b) = affected.iter().find(|b| real.inflight_state_by_block(&keys[**b]).is_some()) {
                        let was_listed = l_before.get(peer).map(|s| s.contains(b)).unwrap_or(false);
                        vfail!(
                            if was_listed { "inflight:remove_by_peer:kept-listed-entry" } else { "inflight:remove_by_peer:kept-unlisted-entry-of-leaving-peer" },
                            "op {k}: tracked peer {peer} left, block {b} is still recorded as in flight from it (was listed under the peer: {was_listed})"
                        );
                    }
                }
            }
            IOp::Advance(ms) => {
                now += *ms as u64;
                clock.set_faketime(now);
            }
            IOp::MarkSlow(tip) => {
                let tip = *tip as u64;
                real.mark_slow_block(tip);
                for (b, e) in model.iter_mut() {
                    if case.blocks[*b] as u64 <= tip + 1 && e.mark.is_none() {
                        e.mark = Some(now);
                        labels.insert("inflight/marked-slow");
                    }
                }
            }
            IOp::Prune(tip) => {
                let tip = *tip as u64;
                let low = real.division_point().2;
                let dropped = real.prune(tip);
                // model: plain timeouts inside the checked window
                let timed: Vec<usize> = model
                    .iter()
                    .filter(|(b, e)| case.blocks[**b] as u64 <= tip + 20 && e.ts + BLOCK_DOWNLOAD_TIMEOUT < now)
                    .map(|(b, _)| *b)
                    .collect();
                for b in &timed {
                    model.remove(b);
                }
                if restart != 0 && tip + 1 > restart {
                    restart = 0;
                }
                let slow: Vec<usize> = model
                    .iter()
                    .filter(|(_, e)| e.mark.map(|m| now > low + m).unwrap_or(false))
                    .map(|(b, _)| *b)
                    .collect();
                for b in &slow {
                    model.remove(b);
                    restart = restart.max(case.blocks[*b] as u64);
                }
                // a peer that prune drops from the table (and reports for disconnection) leaves:
                // its remaining requests are released with it (behaviour since fix 0ae6d99; before
                // it they stayed recorded under a peer that was no longer tracked)
                let gone: Vec<usize> = model
                    .iter()
                    .filter(|(_, e)| dropped.iter().any(|p| e.peer as usize == p.value()))
                    .map(|(b, _)| *b)
                    .collect();
                for b in &gone {
                    model.remove(b);
                    if real.inflight_state_by_block(&keys[*b]).is_some() {
                        vfail!(
                            "inflight:prune:kept-request-of-dropped-peer",
                            "op {k}: prune({tip}) dropped a peer but block {b} (number {}) is still recorded as in flight from it",
                            case.blocks[*b]
                        );
                    }
                }
                if !gone.is_empty() {
                    labels.insert("inflight/prune-released-requests-of-dropped-peer");
                }
                if !timed.is_empty() {
                    timeout_prune = true;
                    labels.insert("inflight/prune-timeout");
                }
                if !slow.is_empty() {
                    timeout_prune = true;
                    labels.insert("inflight/prune-slow-mark");
                }
                if model.iter().any(|(b, e)| case.blocks[*b] as u64 > tip + 20 && e.ts + BLOCK_DOWNLOAD_TIMEOUT < now) {
                    labels.insert("inflight/prune-old-request-outside-window");
                }
                if !dropped.is_empty() {
                    labels.insert("inflight/prune-dropped-peer");
                    if dropped.iter().any(|p| model.values().any(|e| e.peer as usize == p.value())) {
                        labels.insert("inflight/prune-dropped-peer-with-live-entries");
                    }
                }
                // exact release: compare with the table below; name the direction here
                for b in timed.iter().chain(slow.iter()) {
                    if real.inflight_state_by_block(&keys[*b]).is_some() {
                        vfail!(
                            "inflight:prune:kept-timed-out-request",
                            "op {k}: prune({tip}) at +{} ms kept block {b} (number {}) which timed out",
                            now - T0,
                            case.blocks[*b]
                        );
                    }
                }
                for (b, e) in model.iter() {
                    if real.inflight_state_by_block(&keys[*b]).is_none() {
                        vfail!(
                            format!("inflight:prune:released-live-request{}", if e.mark.is_some() { ":marked" } else { "" }),
                            "op {k}: prune({tip}) at +{} ms released block {b} (number {}), model entry {e:?} (age {} ms, low_time {low})",
                            now - T0,
                            case.blocks[*b],
                            now - e.ts
                        );
                    }
                }
            }
            IOp::SetAdjustment(on) => sync_verif::set_adjustment(&mut real, *on),
        }

        // --- invariants after every op ---
        let l_after = listed(&real, k)?;
        // a block is in flight from at most one peer
        let mut owner: BTreeMap<usize, u8> = BTreeMap::new();
        for (p, set) in &l_after {
            for b in set {
                if let Some(q) = owner.insert(*b, *p) {
                    vfail!("inflight:two-peers", "after op {k} ({op:?}): block {b} is listed under peers {q} and {p}");
                }
                // every block listed under a peer is in flight from exactly that peer
                match real.inflight_state_by_block(&keys[*b]) {
                    None => vfail!(
                        "inflight:listed-not-in-flight",
                        "after op {k} ({op:?}): block {b} is listed under peer {p} but has no in-flight state"
                    ),
                    Some(s) => {
                        let sp = sync_verif::inflight_state_peer(s).value() as u8;
                        if sp != *p {
                            vfail!(
                                "inflight:listed-under-wrong-peer",
                                "after op {k} ({op:?}): block {b} is listed under peer {p} but in flight from {sp}"
                            );
                        }
                    }
                }
            }
        }
        // the table equals the model (exactly the affected entries were released / added)
        for b in 0..nb {
            let got = real
                .inflight_state_by_block(&keys[b])
                .map(|s| (sync_verif::inflight_state_peer(s).value() as u8, sync_verif::inflight_state_timestamp(s)));
            let want = model.get(&b).map(|e| (e.peer, e.ts));
            if got != want {
                let opname = match op {
                    IOp::Insert { .. } => "insert",
                    IOp::RemoveByBlock(_) => "remove_by_block",
                    IOp::RemoveByPeer(_) => "remove_by_peer",
                    IOp::Advance(_) => "advance",
                    IOp::Prune(_) => "prune",
                    IOp::MarkSlow(_) => "mark_slow_block",
                    IOp::SetAdjustment(_) => "set_adjustment",
                };
                let kind = match (got, want) {
                    (None, Some(_)) => "released-unaffected-entry",
                    (Some(_), None) => "kept-affected-entry",
                    _ => "entry-changed",
                };
                vfail!(
                    format!("inflight:{opname}:{kind}"),
                    "after op {k} ({op:?}): block {b}: table has (peer, since) {got:?}, model {want:?}"
                );
            }
        }
        if real.total_inflight_count() != model.len() {
            vfail!(
                "inflight:total-count",
                "after op {k} ({op:?}): total_inflight_count {} but {} blocks of the universe are in flight",
                real.total_inflight_count(),
                model.len()
            );
        }
        // stale = recorded as in flight from a peer that does not list it
        if model.iter().any(|(b, e)| !l_after.get(&e.peer).map(|s| s.contains(b)).unwrap_or(false)) {
            labels.insert("inflight/entry-not-listed-under-its-peer");
            if !after_drop.get() {
                if !matches!(op, IOp::Prune(_)) {
                    // not a stated invariant (the statement is one-directional); only remembered
                    labels.insert("inflight/entry-unlisted-without-prune");
                }
                after_drop.set(true);
                if EXCLUDE_KNOWN_STALE.load(std::sync::atomic::Ordering::Relaxed) {
                    st.label("inflight/excluded:known:prune-dropped-peer-with-live-entries");
                    break;
                }
            }
        }
    }
    for l in labels {
        st.label(l);
    }
    if timeout_prune {
        nontrivial_capped(st, "inflight", case);
        st.sample(|| json!({"sub": "inflight", "case": case}));
    }
    Ok(())
}

fn inflight_prop(case: &InflightCase, st: &mut Stats) -> Verdict {
    let step = Cell::new(0);
    guarded("inflight", &step, || inflight_exec(case, st, &step))
}


/// Every op sequence of length `len` (every prefix is checked on the way) over 2 peers and 2 blocks
/// (numbers 1 and 30: inside / outside the tip+20 window of prune(0)), protect_num 0.
fn inflight_exhaustive(ctx: &Ctx, len: usize) {
    let mut alphabet: Vec<IOp> = vec![];
    for peer in 0..2u8 {
        for block in 0..2u8 {
            alphabet.push(IOp::Insert { peer, block });
        }
    }
    alphabet.extend([
        IOp::RemoveByBlock(0),
        IOp::RemoveByBlock(1),
        IOp::RemoveByPeer(0),
        IOp::RemoveByPeer(1),
        IOp::Advance(1501),
        IOp::Advance(30_001),
        IOp::Prune(0),
        IOp::MarkSlow(0),
    ]);
    let a = alphabet.len();
    let mut tmp = Stats::default();
    let mut total = 0u64;
    let mut sampled = 0;
    // units: first two ops
    let mut unit = 0usize;
    'outer: for f0 in 0..a {
        for f1 in 0..a {
            unit += 1;
            if (unit - 1) % ctx.nworkers != ctx.worker {
                continue;
            }
            let mut idx = vec![0usize; len];
            idx[0] = f0;
            idx[1] = f1;
            loop {
                let case = InflightCase {
                    protect_num: 0,
                    blocks: vec![1, 30],
                    ops: idx.iter().map(|i| alphabet[*i].clone()).collect(),
                };
                let before = tmp.nontrivial.len();
                let v = inflight_prop(&case, &mut tmp);
                total += 1;
                if tmp.nontrivial.len() > before && sampled < 4000 {
                    sampled += 1;
                    ctx.stats.borrow_mut().nontrivial(&("inflight-exh", &case));
                }
                tmp.nontrivial.clear();
                tmp.samples.clear();
                if let Err(mut viol) = ctx.tolerate_known(v) {
                    // shortest failing prefix
                    let mut small = case.clone();
                    for k in 1..case.ops.len() {
                        let mut c = case.clone();
                        c.ops.truncate(k);
                        if let Err(v2) = inflight_prop(&c, &mut tmp) {
                            small = c;
                            viol = v2;
                            break;
                        }
                    }
                    ctx.report("inflight", &serde_json::to_value(&small).unwrap(), viol);
                    break 'outer;
                }
                let mut pos = len;
                let mut done = true;
                while pos > 2 {
                    pos -= 1;
                    idx[pos] += 1;
                    if idx[pos] < a {
                        done = false;
                        break;
                    }
                    idx[pos] = 0;
                }
                if done {
                    break;
                }
            }
        }
    }
    NT_COUNT.with(|c| {
        c.borrow_mut().remove("inflight");
    });
    let mut st = ctx.stats.borrow_mut();
    st.eval_n("inflight-exhaustive", total);
    for (k, v) in &tmp.labels {
        st.label_n(&k.replace("inflight/", "inflight-exh/"), *v);
    }
    let part = format!(
        "in-flight table: every op sequence of length <= {len} over the {a}-op alphabet (insert 2 peers x 2 blocks, remove_by_block x2, remove_by_peer x2, advance 1501/30001 ms, prune(0), mark_slow_block(0)), blocks numbered 1 and 30, protect_num 0, checked after every op"
    );
    if !st.exhaustive_parts.contains(&part) {
        st.exhaustive_parts.push(part);
    }
}

fn inflight_strategy() -> impl Strategy<Value = InflightCase> {
    (4usize..=14).prop_flat_map(|nb| {
        (
            prop_oneof![Just(0u8), Just(0u8), Just(1u8), Just(4u8)],
            // numbers: a dense low part (inside tip+20 windows) and a few far ones
            proptest::collection::vec(prop_oneof![4 => 1u8..12, 2 => 12u8..40, 1 => 40u8..70], nb),
            proptest::collection::vec(
                (0u8..32, any::<u16>(), prop_oneof![3 => 0u8..2, 2 => 0u8..4, 1 => 0u8..8], 0u8..12),
                1..60,
            ),
        )
            .prop_map(move |(protect_num, blocks, os)| {
                let ops = os
                    .iter()
                    .map(|(kind, sel, peer, t)| {
                        let b = pick_idx(*sel as u32, nb) as u8;
                        match kind {
                            0..=11 => IOp::Insert { peer: *peer, block: b },
                            12..=14 => IOp::RemoveByBlock(b),
                            15..=16 => IOp::RemoveByPeer(*peer),
                            17..=22 => IOp::Advance(
                                [1u32, 400, 900, 1100, 1400, 1501, 1600, 5000, 14_000, 15_001, 29_999, 30_001][*t as usize % 12],
                            ),
                            23..=27 => IOp::Prune([0u8, 1, 3, 8, 15, 30, 60, 2, 5, 10, 20, 45][*t as usize % 12]),
                            28..=30 => IOp::MarkSlow([0u8, 1, 3, 8, 15, 30, 60, 2, 5, 10, 20, 45][*t as usize % 12]),
                            _ => IOp::SetAdjustment(*t % 2 == 0),
                        }
                    })
                    .collect();
                InflightCase { protect_num, blocks, ops }
            })
    })
}

// =====================================================================================
// 3. HeaderMap
// =====================================================================================

#[derive(Clone, Debug, Serialize, Deserialize, PartialEq, Eq, Hash)]
pub enum HOp {
    Insert(u8, u8),
    Get(u8),
    Contains(u8),
    Remove(u8),
    Spill,
}

#[derive(Clone, Debug, Serialize, Deserialize, Hash)]
pub struct HeaderMapCase {
    /// memory limit in items (>= 1)
    pub limit: u8,
    pub ibd_finished: bool,
    /// build through the public constructor (byte limit, background timer on a tokio handle)
    pub real_ctor: bool,
    pub ops: Vec<HOp>,
}

fn key_hash(key: u8) -> Byte32 {
    let mut b = [0u8; 32];
    b[0] = 0x4d;
    b[5] = key;
    b[17] = key.wrapping_mul(91);
    b[31] = !key;
    Byte32::new(b)
}

fn mk_view(key: u8, ver: u8) -> HeaderIndexView {
    let mut ph = [0u8; 32];
    for (i, x) in ph.iter_mut().enumerate() {
        *x = (i as u8).wrapping_mul(ver.wrapping_add(3)) ^ key;
    }
    let mut td = [0u8; 32];
    for (i, x) in td.iter_mut().enumerate() {
        *x = (i as u8).wrapping_add(ver).wrapping_mul(key | 1);
    }
    if ver % 4 == 0 {
        td[20..].fill(0);
    }
    let number = if ver % 5 == 0 {
        0
    } else if ver % 2 == 1 {
        1 + (ver as u64 % 7) + key as u64
    } else {
        1 + (ver as u64 % 7) + ((key as u64) << (ver % 40))
    };
    let length = 1 + (ver as u64 * 13 + key as u64) % 1800;
    let epoch = EpochNumberWithFraction::new((ver as u64) << (key % 16), (key as u64 * 7) % length, length);
    let ts = (u64::MAX / 256) * ver as u64 + key as u64;
    let mut v = HeaderIndexView::new(
        key_hash(key),
        number,
        epoch,
        ts,
        Byte32::new(ph),
        U256::from_little_endian(&td).expect("32 bytes"),
    );
    if ver % 2 == 1 && number >= 1 {
        // give it a skip hash: build_skip stores the hash of whatever ancestor the getter returns
        let mut sh = ph;
        sh.reverse();
        let target = HeaderIndexView::new(Byte32::new(sh), 0, EpochNumberWithFraction::new(0, 0, 1), 0, Byte32::zero(), U256::zero());
        v.build_skip(0, |_, _| Some(target.clone()), |_, _| None);
    }
    v
}

/// Handle of a current-thread tokio runtime that is never driven: `HeaderMap::new` can spawn its
/// timer task on it, but the task is never polled, so the public constructor is exercised (byte
/// limit -> item limit) while every spill stays where the case puts it.  (With a live runtime the
/// timer's `limit_memory` runs concurrently with the operations; see `headermap_race`.)
fn parked_handle() -> ckb_async_runtime::Handle {
    static RT: std::sync::OnceLock<tokio::runtime::Runtime> = std::sync::OnceLock::new();
    let rt = RT.get_or_init(|| {
        tokio::runtime::Builder::new_current_thread()
            .enable_time()
            .build()
            .expect("tokio runtime")
    });
    ckb_async_runtime::Handle::new(rt.handle().clone(), None)
}

thread_local! {
    static HM_SCRATCH: std::cell::RefCell<Option<tempfile::TempDir>> = const { std::cell::RefCell::new(None) };
}

fn hm_scratch_path() -> std::path::PathBuf {
    HM_SCRATCH.with(|s| {
        let mut s = s.borrow_mut();
        if s.is_none() {
            *s = Some(scratch("c17-hm-"));
        }
        s.as_ref().unwrap().path().to_path_buf()
    })
}

fn headermap_exec(case: &HeaderMapCase, st: &mut Stats, step: &Cell<usize>) -> Verdict {
    vensure!(case.limit >= 1, "replay-format", "limit must be >= 1 item");
    let dir = hm_scratch_path();
    let ibd = Arc::new(AtomicBool::new(case.ibd_finished));
    let map = if case.real_ctor {
        HeaderMap::new(
            Some(&dir),
            case.limit as usize * std::mem::size_of::<HeaderIndexView>(),
            &parked_handle(),
            ibd,
        )
    } else {
        HeaderMap::verif_new_without_timer(Some(&dir), case.limit as usize, ibd)
    };
    let mut model: HashMap<u8, HeaderIndexView> = HashMap::new();
    // label-only approximation of where each key lives (LRU order of the memory tier)
    let mut mem: Vec<u8> = vec![];
    let mut disk: BTreeSet<u8> = BTreeSet::new();
    let mut labels: BTreeSet<&'static str> = BTreeSet::new();
    let mut nontrivial = false;
    for (k, op) in case.ops.iter().enumerate() {
        step.set(k);
        match *op {
            HOp::Insert(key, ver) => {
                let v = mk_view(key, ver);
                if model.contains_key(&key) {
                    labels.insert(if disk.contains(&key) { "headermap/overwrite-spilled-key" } else { "headermap/overwrite" });
                }
                let _ = map.insert(v.clone());
                model.insert(key, v);
                mem.retain(|x| *x != key);
                mem.push(key);
            }
            HOp::Get(key) => {
                let got = map.get(&key_hash(key));
                let want = model.get(&key).cloned();
                if got != want {
                    let place = if disk.contains(&key) && !mem.contains(&key) {
                        "spilled"
                    } else if disk.contains(&key) {
                        "memory+stale-backend"
                    } else {
                        "memory"
                    };
                    let kind = match (&got, &want) {
                        (None, Some(_)) => "lost",
                        (Some(_), None) => "ghost",
                        _ => "wrong-value",
                    };
                    vfail!(
                        format!("headermap:get:{kind}:{place}"),
                        "op {k}: get(key {key}) = {got:?}, plain map says {want:?}"
                    );
                }
                if want.is_some() && !mem.contains(&key) && disk.contains(&key) {
                    nontrivial = true;
                    labels.insert("headermap/get-of-spilled-key");
                    disk.remove(&key);
                    mem.push(key);
                } else if want.is_some() {
                    mem.retain(|x| *x != key);
                    mem.push(key);
                } else {
                    labels.insert("headermap/get-miss");
                }
            }
            HOp::Contains(key) => {
                let got = map.contains_key(&key_hash(key));
                let want = model.contains_key(&key);
                if got != want {
                    let place = if disk.contains(&key) && !mem.contains(&key) { "spilled" } else if disk.contains(&key) { "memory+stale-backend" } else { "memory" };
                    vfail!(
                        format!("headermap:contains_key:{}:{place}", if got { "ghost" } else { "lost" }),
                        "op {k}: contains_key(key {key}) = {got}, plain map says {want}"
                    );
                }
                if want && !mem.contains(&key) && disk.contains(&key) {
                    labels.insert("headermap/contains-of-spilled-key");
                }
            }
            HOp::Remove(key) => {
                map.remove(&key_hash(key));
                if model.remove(&key).is_some() {
                    labels.insert(if !mem.contains(&key) && disk.contains(&key) {
                        "headermap/remove-spilled-key"
                    } else if disk.contains(&key) {
                        "headermap/remove-key-in-both-tiers"
                    } else {
                        "headermap/remove"
                    });
                }
                mem.retain(|x| *x != key);
                disk.remove(&key);
            }
            HOp::Spill => {
                map.verif_limit_memory();
                if mem.len() > case.limit as usize {
                    let n = mem.len() - case.limit as usize;
                    for key in mem.drain(..n) {
                        disk.insert(key);
                    }
                    labels.insert("headermap/spill-moved-entries");
                } else {
                    labels.insert("headermap/spill-noop");
                }
            }
        }
    }
    // final sweep: every key of the universe answers like the plain map
    let universe: BTreeSet<u8> = case
        .ops
        .iter()
        .filter_map(|o| match o {
            HOp::Insert(k, _) | HOp::Get(k) | HOp::Contains(k) | HOp::Remove(k) => Some(*k),
            HOp::Spill => None,
        })
        .collect();
    step.set(case.ops.len());
    for key in universe {
        let c = map.contains_key(&key_hash(key));
        if c != model.contains_key(&key) {
            vfail!(
                format!("headermap:final:contains_key:{}", if c { "ghost" } else { "lost" }),
                "after all ops: contains_key(key {key}) = {c}, plain map says {}",
                model.contains_key(&key)
            );
        }
        let g = map.get(&key_hash(key));
        if g != model.get(&key).cloned() {
            vfail!(
                "headermap:final:get",
                "after all ops: get(key {key}) = {g:?}, plain map says {:?}",
                model.get(&key)
            );
        }
    }
    if case.real_ctor {
        labels.insert("headermap/public-constructor");
        // the parked timer task keeps its Arc: the map is never dropped; its directory goes with the worker
    }
    for l in labels {
        st.label(l);
    }
    if nontrivial {
        nontrivial_capped(st, "headermap", case);
        st.sample(|| json!({"sub": "headermap", "case": case}));
    }
    Ok(())
}

fn headermap_prop(case: &HeaderMapCase, st: &mut Stats) -> Verdict {
    let step = Cell::new(0);
    guarded("headermap", &step, || headermap_exec(case, st, &step))
}


/// Every op sequence of length `len` over 2 keys with a spill possible at every position, memory
/// limit 1 item (a fresh map per sequence; checked after every op and swept at the end).
fn headermap_exhaustive(ctx: &Ctx, len: usize) {
    // memory limit 1 item: the second insert already overflows, so spills matter from length 3 on
    let alphabet = [
        HOp::Insert(0, 1),
        HOp::Insert(1, 2),
        HOp::Insert(0, 4),
        HOp::Get(0),
        HOp::Get(1),
        HOp::Contains(0),
        HOp::Remove(0),
        HOp::Spill,
    ];
    let a = alphabet.len();
    let mut tmp = Stats::default();
    let mut total = 0u64;
    let mut sampled = 0;
    let mut unit = 0usize;
    'outer: for limit in 1..=1u8 {
        for f0 in 0..a {
            for f1 in 0..a {
                unit += 1;
                if (unit - 1) % ctx.nworkers != ctx.worker {
                    continue;
                }
                // a sequence that starts with two reads/removes/spills of the empty map only repeats
                // shorter sequences' states: still run (cheap enough, and nothing is assumed)
                let mut idx = vec![0usize; len];
                idx[0] = f0;
                idx[1] = f1;
                loop {
                    let case = HeaderMapCase {
                        limit,
                        ibd_finished: (idx[len - 1] + limit as usize) % 2 == 0,
                        real_ctor: false,
                        ops: idx.iter().map(|i| alphabet[*i].clone()).collect(),
                    };
                    let before = tmp.nontrivial.len();
                    let v = headermap_prop(&case, &mut tmp);
                    total += 1;
                    if tmp.nontrivial.len() > before && sampled < 4000 {
                        sampled += 1;
                        ctx.stats.borrow_mut().nontrivial(&("headermap-exh", &case));
                    }
                    tmp.nontrivial.clear();
                    tmp.samples.clear();
                    if let Err(mut viol) = ctx.tolerate_known(v) {
                        // shortest failing prefix
                        let mut small = case.clone();
                        for k in 1..case.ops.len() {
                            let mut c = case.clone();
                            c.ops.truncate(k);
                            if let Err(v2) = headermap_prop(&c, &mut tmp) {
                                small = c;
                                viol = v2;
                                break;
                            }
                        }
                        ctx.report("headermap", &serde_json::to_value(&small).unwrap(), viol);
                        break 'outer;
                    }
                    let mut pos = len;
                    let mut done = true;
                    while pos > 2 {
                        pos -= 1;
                        idx[pos] += 1;
                        if idx[pos] < a {
                            done = false;
                            break;
                        }
                        idx[pos] = 0;
                    }
                    if done {
                        break;
                    }
                }
            }
        }
    }
    NT_COUNT.with(|c| {
        c.borrow_mut().remove("headermap");
    });
    let mut st = ctx.stats.borrow_mut();
    st.eval_n("headermap-exhaustive", total);
    for (k, v) in &tmp.labels {
        st.label_n(&k.replace("headermap/", "headermap-exh/"), *v);
    }
    let part = format!(
        "header map: every op sequence of length <= {len} over the {a}-op alphabet (insert k0/k1, overwrite k0, get k0/k1, contains_key k0, remove k0, spill) with a memory limit of 1 item, fresh map per sequence"
    );
    if !st.exhaustive_parts.contains(&part) {
        st.exhaustive_parts.push(part);
    }
}


/// Opt-in demonstration (VERIF_C17_PARTS=headermap-race), not part of the deterministic tiers:
/// `limit_memory` running concurrently with `remove` / `insert` (as the 5 s timer task of
/// `HeaderMap::new` does in a node).  A spill that copied key K before the operation and writes
/// it to the backend afterwards resurrects a removed key / replaces a newer value by the older one.
/// Sound (every reported mismatch is a real answer of the map) but schedule-dependent.
fn headermap_race(ctx: &Ctx) {
    use std::sync::atomic::{AtomicU64, Ordering};
    let dir = hm_scratch_path();
    let map = Arc::new(HeaderMap::verif_new_without_timer(Some(&dir), 1, Arc::new(AtomicBool::new(false))));
    let stop = Arc::new(AtomicBool::new(false));
    let rounds = Arc::new(AtomicU64::new(0));
    let t = {
        let (map, stop, rounds) = (Arc::clone(&map), Arc::clone(&stop), Arc::clone(&rounds));
        std::thread::spawn(move || {
            while !stop.load(Ordering::Relaxed) {
                map.verif_limit_memory();
                rounds.fetch_add(1, Ordering::SeqCst);
            }
        })
    };
    let settle = || {
        // two completed spill rounds: any spill that started before now has finished
        let r = rounds.load(Ordering::SeqCst);
        while rounds.load(Ordering::SeqCst) < r + 2 {
            std::hint::spin_loop();
        }
    };
    let iters = ctx.cases(16_000, 160_000) as u64;
    let (mut ghosts, mut lost) = (0u64, 0u64);
    let mut first: Option<String> = None;
    for i in 0..iters {
        let k = (i % 5) as u8;
        // ghost after remove
        map.insert(mk_view(k, 2));
        map.insert(mk_view(100, 2)); // filler: k is now the oldest entry over the limit
        map.remove(&key_hash(k));
        settle();
        if map.contains_key(&key_hash(k)) {
            ghosts += 1;
            first.get_or_insert_with(|| format!("iteration {i}: contains_key(key {k}) is true after remove(key {k})"));
            map.remove(&key_hash(k));
        }
        // lost update
        map.insert(mk_view(k, 2));
        map.insert(mk_view(101, 2));
        map.insert(mk_view(k, 4));
        settle();
        let want = mk_view(k, 4);
        if map.get(&key_hash(k)).as_ref() != Some(&want) {
            lost += 1;
            first.get_or_insert_with(|| format!("iteration {i}: get(key {k}) does not return the value inserted last"));
        }
        map.remove(&key_hash(k));
        map.remove(&key_hash(100));
        map.remove(&key_hash(101));
        settle();
    }
    stop.store(true, Ordering::Relaxed);
    let _ = t.join();
    let mut st = ctx.stats.borrow_mut();
    st.eval_n("headermap-race", iters * 2);
    st.label_n("headermap-race/ghost-after-remove", ghosts);
    st.label_n("headermap-race/lost-update", lost);
    drop(st);
    eprintln!("[C17 worker {}] headermap-race: {iters} iterations, {ghosts} ghosts after remove, {lost} lost updates", ctx.worker);
    if ghosts + lost > 0 {
        let sig = if ghosts > 0 { "headermap-race:ghost-after-remove:concurrent-limit_memory" } else { "headermap-race:lost-update:concurrent-limit_memory" };
        ctx.report(
            "headermap-race",
            &json!({"iterations": iters, "ghosts": ghosts, "lost_updates": lost}),
            Violation::new(sig, first.unwrap_or_default()),
        );
    }
}

fn headermap_strategy(real_ctor_ratio: u32) -> impl Strategy<Value = HeaderMapCase> {
    (2usize..=9, 0u32..1000).prop_flat_map(move |(nkeys, rc)| {
        (
            prop_oneof![4 => 1u8..=3, 2 => 3u8..=6, 1 => 6u8..=12],
            any::<bool>(),
            proptest::collection::vec((0u8..20, any::<u16>(), any::<u8>()), 1..50),
            // spill density: 0 = only where generated, 1 = after every op
            0u8..4,
        )
            .prop_map(move |(limit, ibd_finished, os, dense)| {
                let mut ops = vec![];
                for (kind, sel, ver) in os {
                    let key = pick_idx(sel as u32, nkeys) as u8;
                    ops.push(match kind {
                        0..=6 => HOp::Insert(key, ver),
                        7..=11 => HOp::Get(key),
                        12..=13 => HOp::Contains(key),
                        14..=15 => HOp::Remove(key),
                        _ => HOp::Spill,
                    });
                    if dense == 3 {
                        ops.push(HOp::Spill);
                    }
                }
                HeaderMapCase { limit, ibd_finished, real_ctor: rc < real_ctor_ratio, ops }
            })
    })
}

// =====================================================================================
// 4. Skip-list ancestors on random header trees
// =====================================================================================

#[derive(Clone, Debug, Serialize, Deserialize, Hash)]
pub struct TreeCase {
    /// parents[i] < i for i >= 1; node 0 is the genesis (parents[0] ignored)
    pub parents: Vec<u32>,
    /// node whose ancestor path is the "main chain" known to fast_scanner
    pub main_tip: u32,
    /// skips built with the fast_scanner shortcut available (as insert_valid_header does)
    pub build_with_scanner: bool,
    /// nodes stored without a skip pointer (as views rebuilt from the block store are)
    pub no_skip: Vec<u32>,
    pub bases: Vec<u32>,
}

fn tree_hash(i: usize) -> Byte32 {
    let mut b = [0u8; 32];
    b[0] = 0x7e;
    b[1..9].copy_from_slice(&(i as u64).wrapping_mul(0x9e37_79b9_7f4a_7c15).to_le_bytes());
    b[20..28].copy_from_slice(&(i as u64).to_be_bytes());
    Byte32::new(b)
}

pub struct BuiltTree {
    pub number: Vec<u64>,
    pub hashes: Vec<Byte32>,
    pub map: HashMap<Byte32, HeaderIndexView>,
    pub on_main: Vec<bool>,
    pub main_at: Vec<usize>,
    pub tip_number: u64,
}

fn tree_exec(case: &TreeCase, st: &mut Stats, step: &Cell<usize>) -> Verdict {
    let n = case.parents.len();
    vensure!(n >= 1 && (case.main_tip as usize) < n, "replay-format", "bad tree");
    for i in 1..n {
        vensure!((case.parents[i] as usize) < i, "replay-format", "parent must precede node {i}");
    }
    let hashes: Vec<Byte32> = (0..n).map(tree_hash).collect();
    let idx_of: HashMap<Byte32, usize> = hashes.iter().cloned().enumerate().map(|(i, h)| (h, i)).collect();
    let mut number = vec![0u64; n];
    for i in 1..n {
        number[i] = number[case.parents[i] as usize] + 1;
    }
    // main chain
    let mut on_main = vec![false; n];
    let tip_number = number[case.main_tip as usize];
    let mut main_at = vec![0usize; tip_number as usize + 1];
    let mut c = case.main_tip as usize;
    loop {
        on_main[c] = true;
        main_at[number[c] as usize] = c;
        if c == 0 {
            break;
        }
        c = case.parents[c] as usize;
    }
    let map: std::cell::RefCell<HashMap<Byte32, HeaderIndexView>> = std::cell::RefCell::new(HashMap::new());
    let getter = |h: &Byte32, _store_first: bool| map.borrow().get(h).cloned();
    let scanner = |want: u64, cur: BlockNumberAndHash| -> Option<HeaderIndexView> {
        let i = *idx_of.get(&cur.hash)?;
        if cur.number <= tip_number && on_main[i] {
            map.borrow().get(&hashes[*main_at.get(want as usize)?]).cloned()
        } else {
            None
        }
    };
    let no_scanner = |_: u64, _: BlockNumberAndHash| -> Option<HeaderIndexView> { None };
    let plain = |i: usize| {
        HeaderIndexView::new(
            hashes[i].clone(),
            number[i],
            EpochNumberWithFraction::new(number[i] / 100, number[i] % 100, 100),
            1_000 + i as u64,
            if i == 0 { Byte32::zero() } else { hashes[case.parents[i] as usize].clone() },
            U256::from(1 + number[i] * 3 + (i as u64 % 3)),
        )
    };
    for i in 0..n {
        step.set(i);
        let mut v = plain(i);
        if case.build_with_scanner {
            v.build_skip(tip_number, getter, scanner);
        } else {
            v.build_skip(tip_number, getter, no_scanner);
        }
        map.borrow_mut().insert(hashes[i].clone(), v);
    }
    for i in &case.no_skip {
        let i = *i as usize;
        vensure!(i < n, "replay-format", "no_skip index");
        map.borrow_mut().insert(hashes[i].clone(), plain(i));
    }
    let naive = |base: usize, h: u64| -> usize {
        let mut c = base;
        while number[c] > h {
            c = case.parents[c] as usize;
        }
        c
    };
    let mut bases: Vec<usize> = case.bases.iter().map(|b| *b as usize).collect();
    let deepest = (0..n).max_by_key(|i| (number[*i], *i)).unwrap();
    bases.push(deepest);
    let mut maxh = 0;
    let mut fork_base = false;
    for (bi, base) in bases.iter().enumerate() {
        step.set(n + bi);
        let base = *base;
        vensure!(base < n, "replay-format", "base index");
        let view = map.borrow().get(&hashes[base]).cloned().unwrap();
        maxh = maxh.max(number[base]);
        if !on_main[base] {
            fork_base = true;
        }
        for h in 0..=number[base] + 2 {
            for with_scanner in [false, true] {
                let got = if with_scanner {
                    view.get_ancestor(tip_number, h, getter, scanner)
                } else {
                    view.get_ancestor(tip_number, h, getter, no_scanner)
                };
                let mode = if with_scanner { "fast_scanner" } else { "plain" };
                if h > number[base] {
                    if let Some(g) = got {
                        vfail!(
                            format!("ancestor:{mode}:some-above-base"),
                            "get_ancestor(base node {base} at {}, {h}) returned height {}",
                            number[base],
                            g.number()
                        );
                    }
                    continue;
                }
                let want = naive(base, h);
                match got {
                    None => vfail!(
                        format!("ancestor:{mode}:none"),
                        "get_ancestor(base node {base} at {}, {h}) = None, parent walk reaches node {want}",
                        number[base]
                    ),
                    Some(g) => {
                        if g.hash() != hashes[want] {
                            let gi = idx_of.get(&g.hash()).copied();
                            let kind = if g.number() != h {
                                "wrong-height"
                            } else {
                                "wrong-branch"
                            };
                            vfail!(
                                format!("ancestor:{mode}:{kind}"),
                                "get_ancestor(base node {base} at {}, {h}) = node {gi:?} at {}, parent walk reaches node {want} (base on main chain: {}, tip {tip_number})",
                                number[base],
                                g.number(),
                                on_main[base]
                            );
                        }
                    }
                }
            }
        }
    }
    st.label(match maxh {
        0..=15 => "ancestor/height<16",
        16..=63 => "ancestor/height16-63",
        64..=255 => "ancestor/height64-255",
        _ => "ancestor/height>=256",
    });
    if fork_base {
        st.label("ancestor/base-on-fork");
    }
    if !case.no_skip.is_empty() {
        st.label("ancestor/some-views-without-skip");
    }
    if maxh >= 64 {
        nontrivial_capped(st, "ancestor", case);
        if st.want_sample() && n < 90 {
            st.sample(|| json!({"sub": "ancestor", "case": case}));
        }
    }
    Ok(())
}

fn tree_prop(case: &TreeCase, st: &mut Stats) -> Verdict {
    let step = Cell::new(0);
    guarded("ancestor", &step, || tree_exec(case, st, &step))
}


/// One linear chain of `n` headers: every base height and every target height, with and without
/// the fast_scanner shortcut (main-chain tip at 2/3 of the chain, so bases above it start outside).
fn chain_all_pairs(ctx: &Ctx, n: usize) {
    let bases: Vec<u32> = (0..n as u32).filter(|b| *b as usize % ctx.nworkers == ctx.worker).collect();
    for (build_with_scanner, no_skip) in [(true, vec![]), (false, vec![(n / 2) as u32, (n / 3) as u32, 64, 1])] {
        let case = TreeCase {
            parents: (0..n as u32).map(|i| i.saturating_sub(1)).collect(),
            main_tip: (n * 2 / 3) as u32,
            build_with_scanner,
            no_skip,
            bases: bases.clone(),
        };
        let mut tmp = Stats::default();
        let v = tree_prop(&case, &mut tmp);
        let pairs: u64 = bases.iter().map(|b| *b as u64 + 1).sum::<u64>() * 2;
        ctx.stats.borrow_mut().eval_n("ancestor-chain-all-pairs", pairs);
        ctx.stats.borrow_mut().label_n("ancestor-chain/base-target-pairs", pairs);
        if let Err(viol) = ctx.tolerate_known(v) {
            // shrink to the single failing base
            let mut small = case.clone();
            for b in &bases {
                let mut c = case.clone();
                c.bases = vec![*b];
                if tree_prop(&c, &mut tmp).is_err() {
                    small = c;
                    break;
                }
            }
            let viol = tree_prop(&small, &mut tmp).err().unwrap_or(viol);
            ctx.report("ancestor", &serde_json::to_value(&small).unwrap(), viol);
            return;
        }
    }
    NT_COUNT.with(|c| {
        c.borrow_mut().remove("ancestor");
    });
    let mut st = ctx.stats.borrow_mut();
    let part = format!(
        "skip-list ancestors: linear chain of {n} headers, every (base height, target height) pair, with and without fast_scanner, skips built with and without the shortcut"
    );
    if !st.exhaustive_parts.contains(&part) {
        st.exhaustive_parts.push(part);
    }
}

fn tree_strategy() -> impl Strategy<Value = TreeCase> {
    (prop_oneof![2 => 2usize..40, 5 => 40usize..300, 2 => 300usize..700], 0u8..4).prop_flat_map(|(n, branchy)| {
        (
            proptest::collection::vec((any::<u8>(), any::<u16>()), n),
            any::<u16>(),
            any::<bool>(),
            proptest::collection::vec(any::<u16>(), 0..6),
            proptest::collection::vec(any::<u16>(), 0..5),
        )
            .prop_map(move |(ps, tip, build_with_scanner, ns, bs)| {
                // extend the newest node most of the time so that chains get long
                let cut = [255u8, 250, 235, 200][branchy as usize];
                let parents: Vec<u32> = ps
                    .iter()
                    .enumerate()
                    .map(|(i, (kind, sel))| {
                        if i == 0 {
                            0
                        } else if *kind <= cut {
                            (i - 1) as u32
                        } else {
                            pick_idx(*sel as u32, i) as u32
                        }
                    })
                    .collect();
                // main tip: prefer late nodes
                let main_tip = (n - 1 - pick_idx(tip as u32, n.min(1 + n / 3))) as u32;
                TreeCase {
                    parents,
                    main_tip,
                    build_with_scanner,
                    no_skip: ns.iter().map(|s| pick_idx(*s as u32, n) as u32).collect(),
                    bases: bs.iter().map(|s| (n - 1 - pick_idx(*s as u32, n)) as u32).collect(),
                }
            })
    })
}

// =====================================================================================
// driver
// =====================================================================================

fn run(ctx: &Ctx) {
    let t = std::time::Instant::now();
    let lap = |what: &str| eprintln!("[C17 worker {}] {what} done at {:.1}s", ctx.worker, t.elapsed().as_secs_f64());
    // debugging aid: VERIF_C17_PARTS=orphan,inflight,... runs a subset (each part has its own seed,
    // so a part behaves identically whether or not the others run)
    let only = std::env::var("VERIF_C17_PARTS").ok();
    let want = |part: &str| only.as_deref().map(|o| o.split(',').any(|p| p == part)).unwrap_or(true);
    // 1. orphan pool
    if want("orphan") {
        orphan_exhaustive(ctx, ctx.tier.pick(6, 7));
        lap("orphan exhaustive");
        ctx.run_prop("orphan", ctx.cases(1_500_000, 40_000_000), orphan_strategy(), orphan_prop);
        lap("orphan random");
    }
    // 2. in-flight table
    if want("inflight") {
        EXCLUDE_KNOWN_STALE.store(
            !ctx.strict && KNOWN_STALE_SIGS.iter().all(|s| ctx.is_known(s)),
            std::sync::atomic::Ordering::Relaxed,
        );
        inflight_exhaustive(ctx, ctx.tier.pick(6, 7));
        lap("inflight exhaustive");
        ctx.run_prop("inflight", ctx.cases(1_200_000, 30_000_000), inflight_strategy(), inflight_prop);
        lap("inflight");
    }
    // 4. skip-list ancestors
    if want("ancestor") {
        chain_all_pairs(ctx, ctx.tier.pick(1200, 4000));
        lap("ancestor chain");
        ctx.run_prop("ancestor", ctx.cases(48_000, 1_000_000), tree_strategy(), tree_prop);
        lap("ancestor");
    }
    // 3. header map (sled open per case dominates)
    if want("headermap") {
        headermap_exhaustive(ctx, ctx.tier.pick(5, 6));
        lap("headermap exhaustive");
        ctx.run_prop("headermap", ctx.cases(48_000, 1_500_000), headermap_strategy(0), headermap_prop);
        ctx.run_prop("headermap-public-ctor", ctx.cases(160, 3_200), headermap_strategy(1000), headermap_prop);
        lap("headermap");
    }
    if only.is_some() && want("headermap-race") {
        headermap_race(ctx);
        lap("headermap-race");
    }
    // 5. node-based ancestor / locator
    if want("locator") {
        locator::run(ctx);
        lap("locator");
    }
    // 6. the in-flight table as the node uses it (BlockFetcher on a node with fake peers)
    if want("fetch") {
        fetch::run(ctx);
        lap("fetch");
    }
    HM_SCRATCH.with(|s| *s.borrow_mut() = None);
}

fn replay(ctx: &Ctx, sub: &str, v: &Value) -> Verdict {
    let mut st = ctx.stats.borrow_mut();
    match sub {
        "orphan" => orphan_prop(&from_case::<OrphanCase>(v)?, &mut st),
        "inflight" => inflight_prop(&from_case::<InflightCase>(v)?, &mut st),
        "headermap" | "headermap-public-ctor" => headermap_prop(&from_case::<HeaderMapCase>(v)?, &mut st),
        "ancestor" => tree_prop(&from_case::<TreeCase>(v)?, &mut st),
        "locator" => locator::replay(v, &mut st),
        "fetch" => fetch::replay(v, &mut st),
        "headermap-race" => Err(Violation::new("replay-format", "headermap-race is schedule-dependent: run VERIF_C17_PARTS=headermap-race instead")),
        _ => Err(Violation::new("replay-format", format!("unknown sub-property {sub}"))),
    }
}
