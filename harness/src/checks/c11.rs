//! C11 — the transaction pool's contents and bookkeeping are always mutually consistent.
//!
//! A case is a pool configuration plus a history of pool operations driven against a real node.
//! After every operation the whole pool is fetched through the `verif-hooks` dump and every
//! clause of the statement is recomputed from scratch from the dumped *contents* (see
//! `c11_oracle.rs`); nothing of the pool's incremental algorithm is replayed.
use crate::c11_oracle::*;
use crate::common::*;
use crate::model::*;
use crate::node::*;
use crate::plan::lock_variant;
use crate::vfail;
use ckb_app_config::{BlockAssemblerConfig, TxPoolConfig};
use ckb_jsonrpc_types::JsonBytes;
use ckb_tx_pool::{PlugTarget, TxEntry};
use ckb_types::{
    bytes::Bytes,
    core::{Capacity, DepType, FeeRate, TransactionBuilder, TransactionView},
    packed::{Byte32, CellDep, CellInput, CellOutput},
    prelude::*,
};
use proptest::prelude::*;
use serde::{Deserialize, Serialize};
use serde_json::{Value, json};
use std::collections::{BTreeMap, BTreeSet};
use std::time::Duration;

/// sub-checks `remote` / `remote-order`: the relay path (submit_remote_tx, verify queue, orphan pool)
#[path = "c11_remote.rs"]
mod remote;

pub fn spec() -> CheckSpec {
    CheckSpec {
        id: "C11",
        level: "exploration",
        rule: "proptest, stateful: a real node with a tiny pool (max_tx_pool_size 2-60 kB, max_ancestors_count 3-8, RBF on/off, expiry 1-3 h under a fake clock, three proposal windows, with and without block assembler) is driven by a generated history (~40 ops quick / ~70 thorough) of submit_local_tx (chains, diamonds, fan-out, shared cell deps on chain and pool cells, consumers of dep'ed cells, header deps, double spends), directed RBF replacements (fee at threshold -1/0/+1, subset / superset / two victims / descendant inputs / deps on victims), remove_local_tx, clock jumps past expiry, model-built blocks proposing / committing subsets of pooled and never-submitted conflicting transactions, reorgs of depth 1-3, plug_entry (arbitrary cycles), clear_pool and verify-queue drains. After EVERY op the pool dump is checked: no shared input; edges.inputs/deps/header_deps = exactly those of the entries; links <=> spends / deps between pooled txs (and inverse); the eight aggregates = sums over the link closure incl. self; index keys = keys recomputed from the entry; index orders sorted; counters = sums; get_all_entry_info / get_tx_pool_info agree; ancestor limit; RBF admitted => fee >= sum(replaced fees) + min_rbf_rate*size/1000, never both present, a same-input replacement paying the threshold is admitted. Non-trivial = the history contains a removal with descendants (eviction, conflict, RBF, removal, detached header/proposal) while an ancestor of the removed subtree stays pooled; distinct by hash of the case. Sub-checks `remote` / `remote-order` (relay path): a plan (DAG of 4-14 transactions over the faucet cells: chains, diamonds, joins of several parents, double spends, cell deps on plan outputs, fees below the minimum) is delivered in a generated order through submit_remote_tx (4 peers, right / wrong declared cycles, held in the verify queue or verified at once, duplicates) and submit_local_tx, mixed with model-built blocks proposing / committing plan transactions the pool never saw, reorgs, remove_local_tx on queued / orphan / pooled transactions, clock jumps past the orphan expiry and floods of 20-106 parentless transactions; after EVERY op the node is quiescent (verify queue empty and no worker / recover-back task / reorg task in flight, from the dump hook, twice in a row) and the dump is judged by (1) all C11 clauses above, (2) the orphan model: no transaction both pooled and orphan or both queued and orphan, by_out_point = exactly the inputs of the orphans, at most 100 orphans, every orphan was submitted remotely with the recorded peer and cycles, no admissible orphan stays parked once every input and dep is live on chain or an output of a pooled transaction, an insertion drops expired orphans, an orphan that left was promoted, removed, committed, expired, evicted at the limit or refused on a retry for which every parent had been available (never while a parent was missing, never although it is admissible), refusals are recorded in recent_reject, (3) verdict equivalence: a transaction tried alone ends in the pool / the orphan pool / nowhere as an independent judgement of the dump before the op says (parents known, nothing spent, fee, declared cycles, ancestor limit); `remote-order`: the final pool (ids, links, eight aggregates, totals) of a conflict-free policy-neutral plan delivered remotely in a generated order equals the pool of a second node fed locally in topological order. Non-trivial (remote) = a promotion of an orphan that had >= 2 missing parents which arrived at different steps, or of an orphan chain of depth >= 2 by one parent.",
        assumptions: &[
            "cycles vary only through the number of script groups (always_success lock variants) and through plug_entry; sizes through data length and input/output counts",
            "the verify queue workers are suspended except inside the explicit drain op, so histories replay deterministically; the concurrent interleaving of queue workers with reorgs is not explored",
            "links created because a transaction consumes a cell that another pooled transaction uses as cell dep are accepted as 'dependency' links but not demanded",
            "plug_entry is a test-only entrance (feature internal); entries plugged through it never double-spend a pooled input except in the dedicated sub-property",
            "remote sub-checks: one verify worker (FIFO, fake clock advanced 1 ms per submission) so histories replay deterministically; held transactions are verified in a step of their own before a block is delivered: a verify worker racing with the pool's reorg task or with a second worker (park-after-parent-accepted) is not explored; peer bans are not observable on the dummy network; this ckb version has no removal of a disconnected peer's orphans",
            "remote sub-checks: cell deps of plan transactions point at plan outputs that no plan transaction spends (the listed cell-ref eviction finding is excluded by construction); after a listed C11 finding was tolerated the history ends (the ancestor-limit judgement would rest on the pool's own stale counters)",
        ],
        workers: |_| 8,
        watchdog_s: |t| t.pick(1500, 7200),
        run,
        replay,
    }
}

// ---------------------------------------------------------------------------------------------
// case

#[derive(Clone, Debug, Serialize, Deserialize, Hash)]
pub struct PoolCfg {
    pub max_pool_size: u32,
    pub max_ancestors: u8,
    pub min_fee_rate: u32,
    /// min_rbf_rate = min_fee_rate + rbf_extra; 0 = RBF disabled
    pub rbf_extra: u32,
    pub expiry_hours: u8,
    pub window: u8,
    pub mine_mode: bool,
}

#[derive(Clone, Debug, Serialize, Deserialize, Hash)]
pub struct TxGen {
    /// (source class, selector): 0 chain cell unspent by the pool, 1 unspent pool output,
    /// 2 cell already spent by a pooled tx, 3 cell used as cell dep by a pooled tx
    pub inputs: Vec<(u8, u16)>,
    pub outputs: u8,
    /// 0 min-1, 1 min, 2 min+1, 3 x2, 4 x5, 5 x20, 6 x100, 7 x1000
    pub fee: u8,
    pub data_len: u8,
    pub lock_variant: u8,
    /// extra cell dep: (0 chain cell / 1 unspent pool output, selector)
    pub dep: Option<(u8, u16)>,
    /// header dep on a main-chain block (selector over the most recent 6)
    pub hdep: Option<u16>,
}

#[derive(Clone, Debug, Serialize, Deserialize, Hash)]
pub enum Op {
    Submit(TxGen),
    /// directed replacement of a pooled tx; shape: 0 same inputs, 1 first input only, 2 + fresh
    /// chain cell, 3 + unspent pool output, 4 + output of a descendant of the victim, 5 inputs of
    /// two victims, 6 same inputs + cell dep on the victim's output;
    /// delta: 0 thr-1, 1 thr, 2 thr+1, 3 thr+1000, 4 thr/2
    Replace { victim: u16, victim2: u16, shape: u8, delta: u8, outputs: u8, lock_variant: u8 },
    Remove { sel: u16 },
    /// advance the clock by pct % of the expiry; optionally mine an empty block right away
    Clock { pct: u8, mine: bool },
    Mine { propose: u16, commit: u16, foreign: Option<TxGen> },
    Reorg { depth: u8, propose: u16, commit: u16, foreign: Option<TxGen> },
    Plug { tx: TxGen, proposed: bool, cycles: u32 },
    Clear,
    Drain,
}

impl Op {
    fn kind(&self) -> &'static str {
        match self {
            Op::Submit(_) => "submit",
            Op::Replace { .. } => "replace",
            Op::Remove { .. } => "remove_local_tx",
            Op::Clock { .. } => "clock",
            Op::Mine { .. } => "block",
            Op::Reorg { .. } => "reorg",
            Op::Plug { .. } => "plug_entry",
            Op::Clear => "clear_pool",
            Op::Drain => "drain_verify_queue",
        }
    }
}

#[derive(Clone, Debug, Serialize, Deserialize, Hash)]
pub struct Case {
    pub cfg: PoolCfg,
    pub ops: Vec<Op>,
}

const WINDOWS: [(u64, u64); 3] = [(1, 2), (2, 4), (2, 10)];

fn cfg_strategy() -> impl Strategy<Value = PoolCfg> {
    (
        prop_oneof![2 => Just(2_000u32), 3 => Just(4_000u32), 3 => Just(8_000u32), 2 => Just(20_000u32), 1 => Just(60_000u32)],
        3u8..=8,
        prop_oneof![1 => Just(0u32), 4 => Just(1000u32)],
        prop_oneof![1 => Just(0u32), 2 => Just(500u32), 1 => Just(1u32), 1 => Just(3000u32)],
        1u8..=3,
        0u8..3,
        prop_oneof![2 => Just(false), 1 => Just(true)],
    )
        .prop_map(|(max_pool_size, max_ancestors, min_fee_rate, rbf_extra, expiry_hours, window, mine_mode)| PoolCfg {
            max_pool_size,
            max_ancestors,
            min_fee_rate,
            rbf_extra,
            expiry_hours,
            window,
            mine_mode,
        })
}

fn txgen_strategy() -> impl Strategy<Value = TxGen> {
    (
        proptest::collection::vec(
            (prop_oneof![4 => Just(0u8), 8 => Just(1u8), 1 => Just(2u8), 2 => Just(3u8)], any::<u16>()),
            1..=3,
        ),
        1u8..=3,
        prop_oneof![1 => Just(0u8), 3 => Just(1u8), 2 => Just(2u8), 4 => Just(3u8), 3 => Just(4u8), 3 => Just(5u8), 2 => Just(6u8), 1 => Just(7u8)],
        prop_oneof![4 => Just(0u8), 3 => 1u8..40, 2 => 40u8..=255],
        0u8..4,
        prop_oneof![5 => Just(None), 3 => (0u8..2, any::<u16>()).prop_map(Some)],
        prop_oneof![9 => Just(None), 1 => any::<u16>().prop_map(Some)],
    )
        .prop_map(|(inputs, outputs, fee, data_len, lock_variant, dep, hdep)| TxGen {
            inputs,
            outputs,
            fee,
            data_len,
            lock_variant,
            dep,
            hdep,
        })
}

fn op_strategy() -> impl Strategy<Value = Op> {
    prop_oneof![
        44 => txgen_strategy().prop_map(Op::Submit),
        12 => (any::<u16>(), any::<u16>(), 0u8..7, 0u8..5, 1u8..=3, 0u8..4).prop_map(|(victim, victim2, shape, delta, outputs, lock_variant)| Op::Replace {
            victim,
            victim2,
            shape,
            delta,
            outputs,
            lock_variant
        }),
        6 => any::<u16>().prop_map(|sel| Op::Remove { sel }),
        5 => (prop_oneof![Just(30u8), Just(60u8), Just(101u8), Just(150u8)], any::<bool>()).prop_map(|(pct, mine)| Op::Clock { pct, mine }),
        15 => (
            prop_oneof![2 => Just(0xffffu16), 2 => any::<u16>(), 1 => Just(0u16)],
            prop_oneof![2 => Just(0xffffu16), 2 => any::<u16>(), 1 => Just(0u16)],
            prop_oneof![3 => Just(None), 1 => txgen_strategy().prop_map(Some)]
        )
            .prop_map(|(propose, commit, foreign)| Op::Mine { propose, commit, foreign }),
        6 => (
            1u8..=3,
            prop_oneof![1 => Just(0xffffu16), 2 => any::<u16>(), 2 => Just(0u16)],
            prop_oneof![1 => Just(0xffffu16), 2 => any::<u16>(), 2 => Just(0u16)],
            prop_oneof![2 => Just(None), 1 => txgen_strategy().prop_map(Some)]
        )
            .prop_map(|(depth, propose, commit, foreign)| Op::Reorg { depth, propose, commit, foreign }),
        5 => (txgen_strategy(), any::<bool>(), prop_oneof![Just(0u32), 1u32..70_000]).prop_map(|(tx, proposed, cycles)| Op::Plug { tx, proposed, cycles }),
        1 => Just(Op::Clear),
        2 => Just(Op::Drain),
    ]
}

pub fn case_strategy(max_ops: usize) -> impl Strategy<Value = Case> {
    (cfg_strategy(), proptest::collection::vec(op_strategy(), 8..=max_ops)).prop_map(|(cfg, ops)| Case { cfg, ops })
}

// ---------------------------------------------------------------------------------------------
// interpreter

const T0: u64 = 1_000_000_000;

type Cells = BTreeMap<CellKey, (CellOutput, usize)>;

struct World<'a> {
    env: &'a Env,
    cfg: &'a PoolCfg,
    node: Node,
    tree: Tree,
    tip: H,
    now: u64,
    clock: ckb_systemtime::FaketimeGuard,
    /// every transaction the history created (submitted, plugged, foreign): candidates for commits
    known: BTreeMap<Id, TransactionView>,
    snap: Snap,
    taint_desc: BTreeSet<Id>,
    taint_anc: BTreeSet<Id>,
    taint_limit: BTreeSet<Id>,
    salt: u64,
    /// (size, fee) of a transaction the current op inserted and evicted again (result `Full`)
    transients: Vec<Transient>,
    abort: std::cell::Cell<bool>,
    /// known signatures tolerated where no Stats handle was at hand
    pending_known: Vec<String>,
    /// a listed ancestors-side finding (under / over counted ancestors_*) was tolerated earlier in
    /// this history: degenerate score keys, mis-sorted re-adds and index corruption can follow
    stale_anc_seen: bool,
    /// the current op was a plug_entry of a double-spending entry (refused by the pool)
    refused_plug: bool,
    strict: bool,
    known_sigs: &'a dyn Fn(&str) -> bool,
    // accounting
    nontrivial: bool,
    summary: Vec<String>,
}

fn min_rbf_rate(cfg: &PoolCfg) -> u64 {
    cfg.min_fee_rate as u64 + cfg.rbf_extra as u64
}

fn pool_config(cfg: &PoolCfg) -> TxPoolConfig {
    let mut c = TxPoolConfig::default();
    c.max_tx_pool_size = cfg.max_pool_size as usize;
    c.min_fee_rate = FeeRate::from_u64(cfg.min_fee_rate as u64);
    c.min_rbf_rate = FeeRate::from_u64(min_rbf_rate(cfg));
    c.max_ancestors_count = cfg.max_ancestors as usize;
    c.expiry_hours = cfg.expiry_hours;
    c.max_tx_verify_workers = 2;
    c
}

fn assembler_config() -> BlockAssemblerConfig {
    let mut h = [0u8; 32];
    for i in 0..32 {
        h[i] = u8::from_str_radix(&ALWAYS_SUCCESS_HASH[2 * i..2 * i + 2], 16).unwrap();
    }
    BlockAssemblerConfig {
        code_hash: ckb_types::H256(h),
        args: JsonBytes::default(),
        message: JsonBytes::default(),
        hash_type: ckb_jsonrpc_types::ScriptHashType::Data,
        use_binary_version_as_message_prefix: false,
        binary_version: String::new(),
        update_interval_millis: 0,
        notify: vec![],
        notify_scripts: vec![],
        notify_timeout_millis: 800,
    }
}

fn spec_cfg(cfg: &PoolCfg) -> SpecCfg {
    SpecCfg {
        permanent_difficulty: true,
        epoch_duration_target: 80,
        faucet_cells: 40,
        proposal_window: WINDOWS[cfg.window as usize % WINDOWS.len()],
        ..Default::default()
    }
}

fn is_spendable(env: &Env, o: &CellOutput) -> bool {
    o.lock().code_hash() == env.always_success_lock.code_hash()
        && o.lock().hash_type() == env.always_success_lock.hash_type()
        && o.type_().to_opt().is_none()
}

fn reject_name<E: std::fmt::Debug>(e: &E) -> String {
    let s = format!("{e:?}");
    s.split(|c: char| !c.is_alphanumeric()).next().unwrap_or("?").to_string()
}

struct BuiltTx {
    tx: TransactionView,
    fee: u64,
}

impl<'a> World<'a> {
    fn chain_cells(&self) -> Cells {
        self.tree
            .get(&self.tip)
            .state
            .live
            .iter()
            .filter(|(_, c)| !(c.cellbase && c.block_number > 0) && is_spendable(self.env, &c.output))
            .map(|(k, c)| (*k, (c.output.clone(), c.data.len())))
            .collect()
    }

    fn pool_outputs(&self) -> Cells {
        let mut m = Cells::new();
        for e in self.snap.entries.values() {
            for (j, (o, d)) in e.tx.outputs_with_data_iter().enumerate() {
                if is_spendable(self.env, &o) {
                    m.insert((e.hash, j as u32), (o, d.len()));
                }
            }
        }
        m
    }

    fn spent_by_pool(&self) -> BTreeSet<CellKey> {
        self.snap.entries.values().flat_map(|e| e.inputs.iter().cloned()).collect()
    }

    fn deps_of_pool(&self) -> BTreeSet<CellKey> {
        self.snap.entries.values().flat_map(|e| e.deps.iter().cloned()).collect()
    }

    /// assemble a transaction from explicit inputs; `fee_of(size)` decides the fee once the size is known
    fn assemble(
        &self,
        inputs: &[(CellKey, u64)],
        outputs: u8,
        data_len: u8,
        lockv: u8,
        extra_dep: Option<CellKey>,
        hdep: Option<Byte32>,
        fee_of: &dyn Fn(u64) -> u64,
    ) -> Option<BuiltTx> {
        if inputs.is_empty() {
            return None;
        }
        let in_cap: u64 = inputs.iter().map(|x| x.1).sum();
        let lock = lock_variant(self.env, lockv);
        let data = Bytes::from(vec![data_len; data_len as usize]);
        let probe = CellOutput::new_builder().lock(lock.clone()).build();
        let min_cap = occupied_shannons(&probe, data.len()) as u64;
        let build = |n: u64, caps: &dyn Fn(u64) -> u64| {
            let mut tb = TransactionBuilder::default().cell_dep(self.env.always_success_dep.clone());
            if let Some(k) = &extra_dep {
                tb = tb.cell_dep(CellDep::new_builder().out_point(out_point_of(k)).dep_type(DepType::Code).build());
            }
            if let Some(h) = &hdep {
                tb = tb.header_dep(h.clone());
            }
            for (k, _) in inputs {
                tb = tb.input(CellInput::new(out_point_of(k), 0));
            }
            for i in 0..n {
                tb = tb
                    .output(CellOutput::new_builder().capacity(Capacity::shannons(caps(i))).lock(lock.clone()).build())
                    .output_data(data.clone());
            }
            tb.build()
        };
        let mut n = outputs.max(1) as u64;
        while n > 1 && in_cap / n < min_cap + 1_000_000 {
            n -= 1;
        }
        let draft = build(n, &|_| 0);
        let size = draft.data().serialized_size_in_block() as u64;
        let fee = fee_of(size);
        if in_cap < fee || in_cap - fee < min_cap * n {
            return None;
        }
        let total = in_cap - fee;
        let each = total / n;
        let tx = build(n, &|i| if i == n - 1 { total - each * (n - 1) } else { each });
        debug_assert_eq!(tx.data().serialized_size_in_block() as u64, size);
        Some(BuiltTx { tx, fee })
    }

    #[allow(dead_code)]
    fn min_fee(&self, size: u64) -> u64 {
        self.cfg.min_fee_rate as u64 * size / 1000
    }

    fn gen_tx(&self, g: &TxGen) -> Option<BuiltTx> {
        let chain = self.chain_cells();
        let pool = self.pool_outputs();
        let spent = self.spent_by_pool();
        let deps = self.deps_of_pool();
        let all: Cells = chain.iter().chain(pool.iter()).map(|(k, v)| (*k, v.clone())).collect();
        let classes: [Vec<CellKey>; 4] = [
            chain.keys().filter(|k| !spent.contains(*k)).cloned().collect(),
            pool.keys().filter(|k| !spent.contains(*k)).cloned().collect(),
            all.keys().filter(|k| spent.contains(*k)).cloned().collect(),
            all.keys().filter(|k| deps.contains(*k) && !spent.contains(*k)).cloned().collect(),
        ];
        let mut inputs: Vec<(CellKey, u64)> = vec![];
        for (class, sel) in &g.inputs {
            let mut c = *class as usize % 4;
            if classes[c].is_empty() {
                c = if classes[1].is_empty() { 0 } else { 1 };
            }
            if classes[c].is_empty() {
                c = 0;
            }
            let cands: Vec<&CellKey> = classes[c].iter().filter(|k| !inputs.iter().any(|x| &x.0 == *k)).collect();
            if cands.is_empty() {
                continue;
            }
            let k = *cands[pick_idx(*sel as u32, cands.len())];
            inputs.push((k, cap(&all[&k].0)));
        }
        let extra_dep = g.dep.and_then(|(class, sel)| {
            let cands: Vec<&CellKey> = classes[if class % 2 == 1 && !classes[1].is_empty() { 1 } else { 0 }]
                .iter()
                .filter(|k| !inputs.iter().any(|x| &x.0 == *k))
                .collect();
            if cands.is_empty() { None } else { Some(*cands[pick_idx(sel as u32, cands.len())]) }
        });
        let hdep = g.hdep.map(|sel| {
            let path = self.tree.path(&self.tip);
            let lo = path.len().saturating_sub(6);
            path[lo + pick_idx(sel as u32, path.len() - lo)].hash.clone()
        });
        let fee_code = g.fee;
        let min_rate = self.cfg.min_fee_rate as u64;
        self.assemble(&inputs, g.outputs, g.data_len, g.lock_variant, extra_dep, hdep, &|size| {
            let m = (min_rate * size / 1000).max(1);
            match fee_code {
                0 => (min_rate * size / 1000).saturating_sub(1),
                1 => min_rate * size / 1000,
                2 => min_rate * size / 1000 + 1,
                3 => m * 2,
                4 => m * 5,
                5 => m * 20,
                6 => m * 100,
                _ => m * 1000,
            }
        })
    }

    fn fetch(&mut self) -> Result<Snap, Violation> {
        let d = self
            .node
            .shared
            .tx_pool_controller()
            .verif_dump();
        match d {
            Ok(d) => Ok(snap_of(&d)),
            Err(e) => {
                // the service task that builds the dump panicked (corrupt multi-index map)
                match node_panic_violation() {
                    Err(mut v) => {
                        if self.stale_anc_seen && (v.signature.ends_with("tx-pool/src/component/pool_map.rs:46") || v.signature.ends_with("tx-pool/src/component/tx_selector.rs:11")) {
                            v.signature = format!("{}:after-stale-ancestor-counts", v.signature);
                        }
                        if !self.strict && (self.known_sigs)(&v.signature) {
                            self.pending_known.push(v.signature);
                            clear_panics();
                            self.abort.set(true);
                            Ok(self.snap.clone())
                        } else {
                            Err(v)
                        }
                    }
                    Ok(()) => Err(Violation::new("harness:verif_dump-failed", e.to_string())),
                }
            }
        }
    }

    /// a panic of a node thread is a violation (signature = panic location) unless it is a listed
    /// known finding: then it is counted and the history goes on; returns true when tolerated
    fn panic_check(&self, st: &mut Stats) -> Result<bool, Violation> {
        match node_panic_violation() {
            Ok(()) => Ok(false),
            Err(mut v) => {
                let index_panic = v.signature.ends_with("tx-pool/src/component/pool_map.rs:46") || v.signature.ends_with("tx-pool/src/component/tx_selector.rs:11");
                if index_panic && self.stale_anc_seen {
                    v.signature = format!("{}:after-stale-ancestor-counts", v.signature);
                }
                if !self.strict && (self.known_sigs)(&v.signature) {
                    *st.known_hits.entry(v.signature).or_insert(0) += 1;
                    clear_panics();
                    if index_panic {
                        // the multi-index map is corrupt (and the panicking task may have been the
                        // reorg loop): the history ends here
                        self.abort.set(true);
                    }
                    Ok(true)
                } else {
                    Err(v)
                }
            }
        }
    }

    fn wait_synced(&self, st: &mut Stats) -> Verdict {
        // a panic of the pool's reorg task would leave the pool behind for ever: look for panics while waiting
        let start = std::time::Instant::now();
        while !self.node.wait_pool_synced(Duration::from_millis(500)) {
            if self.panic_check(st)? {
                // a (listed) panic while the pool should be following the chain: the panicking task
                // was the pool's reorg loop, the pool will never reach the tip again
                st.label("reorg-task-died(known-panic)");
                self.abort.set(true);
                return Ok(());
            }
            if start.elapsed() < Duration::from_secs(60) {
                continue;
            }
            vfail!("harness:pool-sync-timeout", "the pool did not reach the chain tip within 60 s");
        }
        Ok(())
    }

    // ---- block building ----------------------------------------------------------------------

    /// choose commits for a block on `parent`: known txs whose id is committable there, selected by
    /// the mask, valid in sequence (inputs and deps live, header deps on the branch)
    fn choose_commits(&self, parent: &H, mask: u16) -> Vec<TransactionView> {
        let ids = self.tree.committable(parent);
        let st = &self.tree.get(parent).state;
        let mut live: BTreeSet<CellKey> = st.live.keys().cloned().collect();
        let cands: Vec<&TransactionView> = ids
            .iter()
            .filter_map(|id| self.known.get(id))
            .filter(|tx| !st.tx_index.contains_key(&h32(&tx.hash())))
            .collect();
        let mut chosen: Vec<TransactionView> = vec![];
        let mut done: BTreeSet<usize> = BTreeSet::new();
        loop {
            let mut progressed = false;
            for (i, tx) in cands.iter().enumerate() {
                if done.contains(&i) || (mask >> (i % 16)) & 1 == 0 {
                    continue;
                }
                let ins: Vec<CellKey> = tx.inputs().into_iter().map(|x| cell_key(&x.previous_output())).collect();
                let deps_ok = tx.cell_deps().into_iter().all(|d| live.contains(&cell_key(&d.out_point())));
                let hdeps_ok = tx.header_deps().into_iter().all(|h| self.tree.blocks.contains_key(&h) && self.tree.is_ancestor(&h, parent));
                let distinct = ins.iter().collect::<BTreeSet<_>>().len() == ins.len();
                if ins.iter().all(|k| live.contains(k)) && deps_ok && hdeps_ok && distinct {
                    for k in &ins {
                        live.remove(k);
                    }
                    for j in 0..tx.outputs().len() {
                        live.insert((h32(&tx.hash()), j as u32));
                    }
                    chosen.push((*tx).clone());
                    done.insert(i);
                    progressed = true;
                }
            }
            if !progressed {
                break;
            }
        }
        chosen
    }

    fn build_block(&mut self, parent: &H, propose: u16, commit: u16, extra_proposals: &[Id], st: &mut Stats) -> Result<H, Violation> {
        let mut proposals: Vec<ckb_types::packed::ProposalShortId> = vec![];
        for (i, id) in self.snap.entries.keys().enumerate() {
            if (propose >> (i % 16)) & 1 == 1 {
                proposals.push(ckb_types::packed::ProposalShortId::from_slice(id).unwrap());
            }
        }
        for id in extra_proposals {
            let p = ckb_types::packed::ProposalShortId::from_slice(id).unwrap();
            if !proposals.contains(&p) {
                proposals.push(p);
            }
        }
        let txs = self.choose_commits(parent, commit);
        self.salt += 1;
        let spec = BlockSpec {
            timestamp: self.tree.get(parent).block.timestamp() + 1000 + (self.salt % 7),
            proposals,
            txs,
            miner_lock: Some(self.env.always_success_lock.clone()),
            message: self.salt.to_le_bytes().to_vec(),
            ..Default::default()
        };
        let opts = BuildOpts { use_node_reward_quirk: true, ..Default::default() };
        let mb = self
            .tree
            .build(parent, &spec, &opts)
            .map_err(|e| Violation::new("harness:model-cannot-build-block", e))?;
        let h = self.tree.insert(mb);
        let r = self.node.process(&self.tree.get(&h).block);
        // the chain service resumes the verify-queue workers right after the callback of every
        // block it verifies: give it a moment, then suspend them again (replay determinism only;
        // no oracle clause depends on it)
        std::thread::sleep(Duration::from_millis(2));
        self.node
            .shared
            .tx_pool_controller()
            .suspend_chunk_process()
            .map_err(|e| Violation::new("harness:chunk-cmd", e.to_string()))?;
        if let Err(e) = r {
            self.panic_check(st)?;
            vfail!("harness:node-rejected-model-block", "block #{} built by the model was rejected: {e}", self.tree.get(&h).number);
        }
        Ok(h)
    }

    // ---- ops ---------------------------------------------------------------------------------

    fn submit(&mut self, bt: &BuiltTx, st: &mut Stats, directed: Option<(u8, u8)>) -> Verdict {
        let tx = &bt.tx;
        let id = pid(&tx.proposal_short_id());
        self.known.insert(id, tx.clone());
        let p0 = self.snap.clone();
        let _ = self.node.shared.tx_pool_controller().suspend_chunk_process();
        let r = self
            .node
            .shared
            .tx_pool_controller()
            .submit_local_tx(tx.clone())
            .map_err(|e| Violation::new("harness:submit-channel", e.to_string()));
        if self.panic_check(st)? {
            st.label("submit:service-task-panicked(known)");
            self.summary.push("submit -> PANIC (known)".into());
            self.snap = self.fetch()?;
            return Ok(());
        }
        let r = r?;
        let p1 = self.fetch()?;
        if self.abort.get() {
            return Ok(());
        }
        match &r {
            Ok(()) => st.label("submit:accepted"),
            Err(e) => st.label(&format!("submit:rejected:{}", reject_name(e))),
        }
        self.summary.push(format!("{} -> {}", if directed.is_some() { "replace" } else { "submit" }, match &r {
            Ok(()) => "ok".to_string(),
            Err(e) => reject_name(e),
        }));
        // RBF clause
        let size = tx.data().serialized_size_in_block() as u64;
        let ins: BTreeSet<CellKey> = tx.inputs().into_iter().map(|x| cell_key(&x.previous_output())).collect();
        let v = rbf_clause(&p0, &p1, &id, &ins, size, bt.fee, min_rbf_rate(self.cfg), self.cfg.rbf_extra > 0, r.is_ok(), tx, self.cfg.max_pool_size as u64, self.cfg.max_ancestors as u64, st);
        if matches!(&r, Err(ckb_tx_pool::error::Reject::Full(_))) && !p1.entries.contains_key(&id) {
            self.transients.push(transient_of(tx, bt.fee));
        }
        self.snap = p1;
        v
    }

    fn op_replace(&mut self, victim: u16, victim2: u16, shape: u8, delta: u8, outputs: u8, lockv: u8, st: &mut Stats) -> Verdict {
        if self.snap.entries.is_empty() {
            st.label("replace:skipped-empty-pool");
            return Ok(());
        }
        let ids: Vec<Id> = self.snap.entries.keys().cloned().collect();
        let v = &self.snap.entries[&ids[pick_idx(victim as u32, ids.len())]];
        let all: Cells = self.chain_cells().into_iter().chain(self.pool_outputs()).collect();
        let cap_of = |k: &CellKey| all.get(k).map(|x| cap(&x.0));
        let spent = self.spent_by_pool();
        let mut inputs: Vec<CellKey> = match shape {
            1 => v.inputs.iter().take(1).cloned().collect(),
            _ => v.inputs.clone(),
        };
        let bait: Option<(CellKey, u64)> = if shape == 1 && v.inputs.len() >= 2 { v.inputs.last().and_then(|k| cap_of(k).map(|c| (*k, c))) } else { None };
        let mut extra_dep = None;
        match shape {
            2 => {
                if let Some(k) = self.chain_cells().keys().find(|k| !spent.contains(*k)) {
                    inputs.push(*k);
                }
            }
            3 => {
                if let Some(k) = self.pool_outputs().keys().find(|k| !spent.contains(*k) && k.0 != v.hash) {
                    inputs.push(*k);
                }
            }
            4 => {
                let desc = self.snap.closure(&v.id, false);
                let k = self.pool_outputs().keys().find(|k| !spent.contains(*k) && desc.iter().any(|d| self.snap.entries[d].hash == k.0 && *d != v.id)).cloned();
                if let Some(k) = k {
                    inputs.push(k);
                }
            }
            5 => {
                let v2 = &self.snap.entries[&ids[pick_idx(victim2 as u32, ids.len())]];
                for k in &v2.inputs {
                    if !inputs.contains(k) {
                        inputs.push(*k);
                    }
                }
            }
            6 => {
                extra_dep = Some((v.hash, 0u32));
            }
            _ => {}
        }
        let with_caps: Vec<(CellKey, u64)> = inputs.iter().filter_map(|k| cap_of(k).map(|c| (*k, c))).collect();
        if with_caps.len() != inputs.len() {
            // an input cell of the victim is no longer known (its parent left the pool): nothing to build
            st.label("replace:skipped-victim-input-unknown");
            return Ok(());
        }
        // threshold from the dumped contents: all entries sharing an input + their descendants
        let inset: BTreeSet<CellKey> = inputs.iter().cloned().collect();
        let replaced = replaced_set(&self.snap, &inset);
        let sum: u64 = replaced.iter().map(|i| self.snap.entries[i].fee).sum();
        let rate = min_rbf_rate(self.cfg);
        let minf = self.cfg.min_fee_rate as u64;
        // same output count as the victim (shape 0) keeps the size equal or smaller
        let n_out = if shape == 0 { (v.tx.outputs().len() as u8).min(outputs.max(1)) } else { outputs };
        let data_len = 0u8;
        let bt = self.assemble(&with_caps, n_out, data_len, lockv, extra_dep, None, &|size| {
            let thr = sum + rate * size / 1000;
            let f = match delta {
                0 => thr.saturating_sub(1),
                1 => thr,
                2 => thr + 1,
                3 => thr + 1000,
                _ => thr / 2,
            };
            f.max(minf * size / 1000)
        });
        let bt = match bt {
            Some(b) => b,
            None => {
                st.label("replace:skipped-unbuildable");
                return Ok(());
            }
        };
        if self.snap.entries.contains_key(&pid(&bt.tx.proposal_short_id())) {
            st.label("replace:skipped-identical-to-victim");
            return Ok(());
        }
        st.label(&format!("replace:shape{shape}:delta{delta}"));
        if shape != 1 {
            let rid = pid(&bt.tx.proposal_short_id());
            let had_conflict = !replaced.is_empty();
            self.submit(&bt, st, Some((shape, delta)))?;
            if had_conflict && self.snap.entries.contains_key(&rid) {
                // transactions refused earlier may be handed to the verify queue ("recover back")
                return self.op_drain(st, 20);
            }
            return Ok(());
        }
        if shape == 1 {
            // first offer a cheap double spend of the victim's LAST input: it is refused and kept in
            // the conflicts cache; when the replacement below frees that input the pool pushes it
            // to the verify queue ("may be recovered"), which the drain then lets run
            let mut offered = false;
            if let Some((k, c)) = bait {
                let minf = self.cfg.min_fee_rate as u64;
                if let Some(b) = self.assemble(&[(k, c)], 1, 1, lockv ^ 1, None, None, &|size| minf * size / 1000 + 1) {
                    st.label("replace:bait-double-spend-offered");
                    self.submit(&b, st, Some((shape, 9)))?;
                    offered = !self.snap.entries.contains_key(&pid(&b.tx.proposal_short_id()));
                }
            }
            let rid = pid(&bt.tx.proposal_short_id());
            self.submit(&bt, st, Some((shape, delta)))?;
            let expect = offered && self.snap.entries.contains_key(&rid);
            if offered {
                st.label(if expect { "replace:bait-refused-then-replacement-admitted" } else { "replace:bait-refused-then-replacement-refused" });
            }
            return self.op_drain(st, if expect { 200 } else { 0 });
        }
        self.submit(&bt, st, Some((shape, delta)))
    }

    fn op_mine(&mut self, propose: u16, commit: u16, foreign: &Option<TxGen>, st: &mut Stats) -> Verdict {
        let mut extra = vec![];
        if let Some(g) = foreign {
            if let Some(bt) = self.gen_tx(g) {
                let id = pid(&bt.tx.proposal_short_id());
                self.known.insert(id, bt.tx.clone());
                extra.push(id);
                st.label("block:proposes-foreign-tx");
            }
        }
        let tip = self.tip.clone();
        let h = self.build_block(&tip, propose, commit, &extra, st)?;
        let nc = self.tree.get(&h).block.transactions().len() - 1;
        if nc > 0 {
            st.label("block:with-commits");
        }
        self.summary.push(format!("block #{} proposals {} commits {}", self.tree.get(&h).number, self.tree.get(&h).block.data().proposals().len(), nc));
        self.tip = h;
        self.wait_synced(st)
    }

    fn op_reorg(&mut self, depth: u8, propose: u16, commit: u16, foreign: &Option<TxGen>, st: &mut Stats) -> Verdict {
        let tipn = self.tree.get(&self.tip).number;
        let depth = (depth as u64).min(tipn);
        if depth == 0 {
            return self.op_mine(propose, commit, foreign, st);
        }
        let mut extra = vec![];
        if let Some(g) = foreign {
            if let Some(bt) = self.gen_tx(g) {
                let id = pid(&bt.tx.proposal_short_id());
                self.known.insert(id, bt.tx.clone());
                extra.push(id);
                st.label("reorg:branch-proposes-foreign-tx");
            }
        }
        let base = self.tree.ancestor(&self.tip, tipn - depth).unwrap().hash.clone();
        // transactions of the blocks about to be detached: the pool re-adds them and may evict
        // them again inside the same notification
        let mut detached: Vec<Transient> = vec![];
        {
            let mut cur = self.tree.get(&self.tip);
            while cur.hash != base {
                for (i, tx) in cur.block.transactions().iter().enumerate().skip(1) {
                    detached.push(transient_of(tx, cur.txs_fees[i - 1]));
                }
                cur = self.tree.get(&cur.parent);
            }
        }
        self.transients = detached;
        let mut cur = base;
        let mut commits = 0;
        for i in 0..=depth {
            let p = propose.rotate_left(i as u32);
            let c = commit.rotate_left(i as u32);
            cur = self.build_block(&cur, p, c, if i == 0 { &extra } else { &[] }, st)?;
            commits += self.tree.get(&cur).block.transactions().len() - 1;
        }
        st.label(&format!("reorg:depth{depth}"));
        if commits > 0 {
            st.label("reorg:new-branch-commits");
        }
        self.summary.push(format!("reorg depth {depth} commits-on-new-branch {commits}"));
        self.tip = cur;
        self.wait_synced(st)?;
        if self.node.tip_hash() != self.tip {
            vfail!("harness:reorg-did-not-switch", "node tip {} is not the longer model branch {}", self.node.tip_hash(), self.tip);
        }
        Ok(())
    }

    fn op_plug(&mut self, g: &TxGen, proposed: bool, cycles: u32, st: &mut Stats, allow_conflict: bool) -> Verdict {
        let mut g = g.clone();
        if !allow_conflict {
            for i in g.inputs.iter_mut() {
                if i.0 % 4 == 2 {
                    i.0 = 1;
                }
            }
        }
        let bt = match self.gen_tx(&g) {
            Some(b) => b,
            None => {
                st.label("plug:skipped-unbuildable");
                return Ok(());
            }
        };
        let id = pid(&bt.tx.proposal_short_id());
        if self.snap.entries.contains_key(&id) {
            return Ok(());
        }
        // stay inside the ancestor limit: plug_entry `expect`s success (test-only entrance)
        let ins: BTreeSet<CellKey> = bt.tx.inputs().into_iter().map(|x| cell_key(&x.previous_output())).collect();
        let deps: BTreeSet<CellKey> = bt.tx.cell_deps().into_iter().map(|d| cell_key(&d.out_point())).collect();
        let mut parents: BTreeSet<Id> = BTreeSet::new();
        for e in self.snap.entries.values() {
            if ins.iter().chain(deps.iter()).any(|k| k.0 == e.hash) || e.deps.iter().any(|d| ins.contains(d)) {
                parents.insert(e.id);
            }
        }
        let mut anc: BTreeSet<Id> = BTreeSet::new();
        for p in &parents {
            anc.extend(self.snap.closure(p, true));
        }
        if anc.len() + 1 > self.cfg.max_ancestors as usize {
            st.label("plug:skipped-ancestor-limit");
            return Ok(());
        }
        let conflicting = self.snap.entries.values().any(|e| e.inputs.iter().any(|k| ins.contains(k)));
        self.known.insert(id, bt.tx.clone());
        let size = bt.tx.data().serialized_size_in_block();
        let cyc = if cycles == 0 { 537 } else { cycles as u64 * 1000 };
        let entry = TxEntry::dummy_resolve(bt.tx.clone(), cyc, Capacity::shannons(bt.fee), size);
        let target = if proposed { PlugTarget::Proposed } else { PlugTarget::Pending };
        let r = self.node.shared.tx_pool_controller().plug_entry(vec![entry], target);
        if conflicting {
            // the service task panics on `expect("Plug entry add_pending error")`: by design of the
            // test entrance; what the pool looks like afterwards is what the sub-property is about
            clear_panics();
            self.refused_plug = true;
            st.label("plug:double-spend-refused");
            let _ = r;
        } else {
            self.panic_check(st)?;
            r.map_err(|e| Violation::new("harness:plug-channel", e.to_string()))?;
            st.label("plug:ok");
        }
        self.summary.push(format!("plug {} cycles {cyc}", if proposed { "proposed" } else { "pending" }));
        Ok(())
    }

    fn op_drain(&mut self, st: &mut Stats, wait_ms: u64) -> Verdict {
        let expect = wait_ms > 0;
        let c = self.node.shared.tx_pool_controller().clone();
        let mut before = self.fetch()?.verify_queue_len;
        if expect {
            // the pool hands "may be recovered" transactions to the queue from a spawned task
            let start = std::time::Instant::now();
            while before == 0 && start.elapsed() < Duration::from_millis(wait_ms) {
                std::thread::sleep(Duration::from_millis(1));
                before = self.fetch()?.verify_queue_len;
            }
        }
        if before == 0 {
            if wait_ms >= 200 {
                st.label("drain:expected-but-queue-empty");
            }
            return Ok(());
        }
        st.label("drain:queue-non-empty");
        c.continue_chunk_process().map_err(|e| Violation::new("harness:chunk-cmd", e.to_string()))?;
        let start = std::time::Instant::now();
        let mut stable = 0;
        let mut last: Option<(u64, usize)> = None;
        loop {
            std::thread::sleep(Duration::from_millis(5));
            let s = self.fetch()?;
            if self.abort.get() {
                return Ok(());
            }
            let now = (s.verify_queue_len, s.entries.len());
            if s.verify_queue_len == 0 && last == Some(now) {
                stable += 1;
            } else {
                stable = 0;
            }
            last = Some(now);
            if stable >= 6 {
                break;
            }
            if start.elapsed() > Duration::from_secs(30) {
                vfail!("harness:drain-timeout", "verify queue still holds {} txs after 30 s", s.verify_queue_len);
            }
        }
        c.suspend_chunk_process().map_err(|e| Violation::new("harness:chunk-cmd", e.to_string()))?;
        std::thread::sleep(Duration::from_millis(5));
        self.panic_check(st)?;
        Ok(())
    }

    fn apply(&mut self, op: &Op, st: &mut Stats, allow_plug_conflict: bool) -> Verdict {
        match op {
            Op::Submit(g) => match self.gen_tx(g) {
                Some(bt) => {
                    if self.snap.entries.contains_key(&pid(&bt.tx.proposal_short_id())) {
                        return Ok(());
                    }
                    self.submit(&bt, st, None)
                }
                None => {
                    st.label("submit:skipped-unbuildable");
                    Ok(())
                }
            },
            Op::Replace { victim, victim2, shape, delta, outputs, lock_variant } => self.op_replace(*victim, *victim2, *shape, *delta, *outputs, *lock_variant, st),
            Op::Remove { sel } => {
                if self.snap.entries.is_empty() {
                    return Ok(());
                }
                let ids: Vec<Id> = self.snap.entries.keys().cloned().collect();
                let e = &self.snap.entries[&ids[pick_idx(*sel as u32, ids.len())]];
                let h = Byte32::from_slice(&e.hash).unwrap();
                let r = self
                    .node
                    .shared
                    .tx_pool_controller()
                    .remove_local_tx(h)
                    .map_err(|e| Violation::new("harness:remove-channel", e.to_string()))?;
                st.label(if r { "remove:true" } else { "remove:false" });
                self.summary.push("remove_local_tx".into());
                Ok(())
            }
            Op::Clock { pct, mine } => {
                self.now += self.cfg.expiry_hours as u64 * 3_600_000 * *pct as u64 / 100;
                self.clock.set_faketime(self.now);
                self.summary.push(format!("clock +{pct}% of expiry"));
                if *mine { self.op_mine(0, 0, &None, st) } else { Ok(()) }
            }
            Op::Mine { propose, commit, foreign } => self.op_mine(*propose, *commit, foreign, st),
            Op::Reorg { depth, propose, commit, foreign } => self.op_reorg(*depth, *propose, *commit, foreign, st),
            Op::Plug { tx, proposed, cycles } => self.op_plug(tx, *proposed, *cycles, st, allow_plug_conflict),
            Op::Clear => {
                let snapshot = self.node.shared.snapshot();
                self.node
                    .shared
                    .tx_pool_controller()
                    .clear_pool(std::sync::Arc::clone(&snapshot))
                    .map_err(|e| Violation::new("harness:clear-channel", e.to_string()))?;
                self.summary.push("clear_pool".into());
                Ok(())
            }
            Op::Drain => self.op_drain(st, 0),
        }
    }

    /// the oracle after an op: `p0` is the dump before it
    fn check_after(&mut self, op: &Op, p0: &Snap, st: &mut Stats) -> Verdict {
        self.check_after_kind(op.kind(), p0, st)
    }

    /// the same oracle for an operation named by its kind (`block`, `reorg`, `clock` are chain
    /// operations; everything else is a pool operation)
    fn check_after_kind(&mut self, kind: &'static str, p0: &Snap, st: &mut Stats) -> Verdict {
        // dump, the two public queries, dump again: the queries are only compared with a dump when
        // nothing moved in between (verify-queue workers may still be finishing after a drain)
        let mut tries = 0;
        let (p1, info, all) = loop {
            let a = self.fetch()?;
            if self.abort.get() {
                return Ok(());
            }
            let c = self.node.shared.tx_pool_controller();
            let info = c.get_tx_pool_info().map_err(|e| Violation::new("harness:info-channel", e.to_string()))?;
            let all = c.get_all_entry_info().map_err(|e| Violation::new("harness:info-channel", e.to_string()))?;
            let b = self.fetch()?;
            if self.abort.get() {
                return Ok(());
            }
            let same = a.entries.keys().eq(b.entries.keys())
                && a.counts == b.counts
                && a.total_tx_size == b.total_tx_size
                && a.total_tx_cycles == b.total_tx_cycles
                && a.tip_hash == b.tip_hash
                && a.verify_queue_len == b.verify_queue_len
                && a.orphans.keys().eq(b.orphans.keys())
                && a.entries.values().zip(b.entries.values()).all(|(x, y)| x.anc == y.anc && x.desc == y.desc && x.status == y.status);
            if same {
                break (b, info, all);
            }
            tries += 1;
            if tries > 200 {
                vfail!("harness:pool-not-quiescent", "the pool kept changing between two dumps for 200 rounds");
            }
            std::thread::sleep(Duration::from_millis(2));
        };
        if self.panic_check(st)? && matches!(kind, "block" | "reorg" | "clock") {
            // a (listed) panic during a chain notification: the panicking task was the pool's reorg
            // loop (the write guard is released by the unwinding, so the pool looks synced once);
            // later notifications are never processed: the history ends here
            st.label("reorg-task-died(known-panic)");
            self.abort.set(true);
            return Ok(());
        }
        if std::env::var_os("VERIF_C11_TRACE").is_some() {
            eprintln!("--- after {kind} [{}] now={}", self.summary.last().cloned().unwrap_or_default(), self.now);
            for e in p1.entries.values() {
                eprintln!(
                    "  {} st{} size {} fee {} ts {} anc {:?} desc {:?} parents {:?} children {:?} inputs {:?} deps {:?}",
                    hex(&e.id[..4]),
                    e.status,
                    e.size,
                    e.fee,
                    e.ts,
                    e.anc,
                    e.desc,
                    p1.parents.get(&e.id).map(|s| s.iter().map(|i| hex(&i[..4])).collect::<Vec<_>>()),
                    p1.children.get(&e.id).map(|s| s.iter().map(|i| hex(&i[..4])).collect::<Vec<_>>()),
                    e.inputs.iter().map(|k| format!("{}#{}", hex(&k.0[..4]), k.1)).collect::<Vec<_>>(),
                    e.deps.iter().skip(1).map(|k| format!("{}#{}", hex(&k.0[..4]), k.1)).collect::<Vec<_>>(),
                );
            }
        }
        let with_kind = |v: Verdict| v.map_err(|mut e| {
            e.detail = format!("after {kind}: {}", e.detail);
            e
        });
        if let Err(mut v) = with_kind(check_structure(&p1)) {
            if self.refused_plug {
                v.signature = format!("{}:after-refused-double-spending-plug_entry", v.signature);
            } else if self.stale_anc_seen && v.signature.starts_with("index:") {
                v.signature = format!("{}:after-stale-ancestor-counts", v.signature);
            }
            if !self.strict && (self.known_sigs)(&v.signature) {
                // a listed structural corruption: counted; the history ends here because every
                // later dump would show the same stale record
                *st.known_hits.entry(v.signature).or_insert(0) += 1;
                self.abort.set(true);
                self.snap = p1;
                return Ok(());
            }
            return Err(v);
        }
        // API agreement
        with_kind(check_api(&p1, &info, &all))?;
        // forget taints of entries that left
        self.taint_desc.retain(|i| p1.entries.contains_key(i));
        self.taint_anc.retain(|i| p1.entries.contains_key(i));
        self.taint_limit.retain(|i| p1.entries.contains_key(i));
        // a re-added entry (detached proposal) keeps its id: its own statistics were reset
        let committed: BTreeSet<Id> = self.committed_ids();
        let expiry_ms = self.cfg.expiry_hours as u64 * 3_600_000;
        let expired: BTreeSet<Id> = if matches!(kind, "block" | "reorg" | "clock") {
            p0.entries.values().filter(|e| e.ts + expiry_ms < self.now).map(|e| e.id).collect()
        } else {
            BTreeSet::new()
        };
        let mut tolerated_listed = false;
        let mismatches = aggregate_mismatches(&p1, self.cfg.max_ancestors as u64);
        // a dump that shows a listed aggregate finding is stale as a whole: the other mismatches of the
        // same dump are not attributed (the listed root causes - entries added above their pooled
        // descendants, the cut link - show on several related entries at once)
        let dump_has_listed = !self.strict
            && mismatches.iter().any(|m| {
                let tainted = match m.side {
                    Side::Anc => self.taint_anc.contains(&m.id),
                    Side::Limit => self.taint_limit.contains(&m.id),
                    Side::Desc => self.taint_desc.contains(&m.id),
                };
                !tainted && (self.known_sigs)(&classify(m, p0, &p1, kind, &committed, &self.transients, &expired))
            });
        for m in mismatches {
            let tainted = match m.side {
                Side::Anc => self.taint_anc.contains(&m.id),
                Side::Limit => self.taint_limit.contains(&m.id),
                Side::Desc => self.taint_desc.contains(&m.id),
            };
            if tainted {
                continue;
            }
            let mut sig = classify(&m, p0, &p1, kind, &committed, &self.transients, &expired);
            if self.stale_anc_seen && (sig == "aggregates:descendants:too-low:descendant-readded-after-detached-proposal" || sig == "aggregates:ancestors:too-low:ancestor-readded-after-detached-proposal") {
                // remove_by_detached_proposal re-adds the subtree sorted by the (stale) ancestors_count
                sig = format!("{sig}:after-stale-ancestor-counts");
            }
            let detail = format!("after {kind}: {} [{}]", m.detail, self.summary.join("; "));
            if !self.strict && (self.known_sigs)(&sig) {
                if sig.starts_with("aggregates:ancestors:") || sig.starts_with("ancestor-limit:") {
                    self.stale_anc_seen = true;
                }
                *st.known_hits.entry(sig).or_insert(0) += 1;
                match m.side {
                    Side::Anc => self.taint_anc.insert(m.id),
                    Side::Limit => self.taint_limit.insert(m.id),
                    Side::Desc => self.taint_desc.insert(m.id),
                };
                // the pool's counters are stale from here on and the staleness spreads to related
                // entries through the saturating add / sub of later operations: what a later dump
                // shows cannot be attributed any more, so the history ends here (counted)
                tolerated_listed = true;
                continue;
            }
            if dump_has_listed {
                st.label("aggregates:not-attributed:same-dump-as-a-listed-finding");
                continue;
            }
            return Err(Violation::new(sig, detail));
        }
        if tolerated_listed {
            st.label("history:ended-after-a-listed-aggregate-finding");
            self.abort.set(true);
        }
        // non-trivial rule: an entry left the pool without being committed while one of its
        // ancestors (closure of the links before the op) is still pooled
        for (id, _) in p0.entries.iter() {
            if p1.entries.contains_key(id) || committed.contains(id) {
                continue;
            }
            if p0.closure(id, true).iter().any(|a| a != id && p1.entries.contains_key(a)) {
                if !self.nontrivial {
                    st.label("history:removal-with-descendants-under-surviving-ancestor");
                }
                self.nontrivial = true;
                st.label(&format!("removal-under-surviving-ancestor:by-{kind}"));
                break;
            }
        }
        shape_labels(p0, &p1, st);
        self.snap = p1;
        Ok(())
    }

    fn committed_ids(&self) -> BTreeSet<Id> {
        let st = &self.tree.get(&self.tip).state;
        self.known.iter().filter(|(_, tx)| st.tx_index.contains_key(&h32(&tx.hash()))).map(|(id, _)| *id).collect()
    }
}

fn transient_of(tx: &TransactionView, fee: u64) -> Transient {
    Transient {
        hash: h32(&tx.hash()),
        inputs: tx.inputs().into_iter().map(|i| cell_key(&i.previous_output())).collect(),
        deps: tx.cell_deps().into_iter().map(|d| cell_key(&d.out_point())).collect(),
        size: tx.data().serialized_size_in_block() as u64,
        fee,
    }
}

fn shape_labels(p0: &Snap, p1: &Snap, st: &mut Stats) {
    let n = p1.entries.len();
    if n > p0.entries.len() {
        for (id, e) in &p1.entries {
            if p0.entries.contains_key(id) {
                continue;
            }
            let anc = p1.closure(id, true).len();
            if anc >= 4 {
                st.label("shape:new-entry-with>=3-ancestors");
            }
            if p1.parents.get(id).map(|p| p.len()).unwrap_or(0) >= 2 {
                st.label("shape:new-entry-with>=2-parents");
            }
            if e.deps.len() >= 2 {
                st.label("shape:new-entry-with-extra-cell-dep");
            }
            if !e.hdeps.is_empty() {
                st.label("shape:new-entry-with-header-dep");
            }
            if p1.children.get(id).map(|c| !c.is_empty()).unwrap_or(false) {
                st.label("shape:new-entry-is-parent-of-pooled");
            }
        }
    }
    if n >= 8 {
        st.label("pool:>=8-entries");
    }
    if p1.entries.values().any(|e| e.status != 0) {
        st.label("pool:has-gap-or-proposed");
    }
}

fn run_case(case: &Case, st: &mut Stats, strict: bool, known: &dyn Fn(&str) -> bool, allow_plug_conflict: bool) -> Verdict {
    install_panic_recorder();
    clear_panics();
    let env = build_env(&spec_cfg(&case.cfg));
    let clock = ckb_systemtime::faketime();
    clock.set_faketime(T0);
    let node = Node::start(&env, NodeCfg {
        tx_pool: Some(pool_config(&case.cfg)),
        block_assembler: if case.cfg.mine_mode { Some(assembler_config()) } else { None },
        ..Default::default()
    })
    .map_err(|e| Violation::new("harness:node-start", e))?;
    node.shared
        .tx_pool_controller()
        .suspend_chunk_process()
        .map_err(|e| Violation::new("harness:chunk-cmd", e.to_string()))?;
    let tree = Tree::new(env.consensus.clone());
    let tip = tree.genesis.clone();
    let mut w = World {
        env: &env,
        cfg: &case.cfg,
        node,
        tree,
        tip,
        now: T0,
        clock,
        known: BTreeMap::new(),
        snap: Snap::default(),
        taint_desc: BTreeSet::new(),
        taint_anc: BTreeSet::new(),
        taint_limit: BTreeSet::new(),
        salt: 0,
        transients: vec![],
        abort: std::cell::Cell::new(false),
        pending_known: vec![],
        stale_anc_seen: false,
        refused_plug: false,
        strict,
        known_sigs: known,
        nontrivial: false,
        summary: vec![],
    };
    w.snap = w.fetch()?;
    st.label(if case.cfg.rbf_extra > 0 { "cfg:rbf-on" } else { "cfg:rbf-off" });
    if case.cfg.mine_mode {
        st.label("cfg:mine-mode");
    }
    let mut result = Ok(());
    for (i, op) in case.ops.iter().enumerate() {
        let p0 = w.snap.clone();
        w.transients.clear();
        w.refused_plug = false;
        st.label(&format!("op:{}", op.kind()));
        let r = w.apply(op, st, allow_plug_conflict).and_then(|_| if w.abort.get() { Ok(()) } else { w.check_after(op, &p0, st) });
        if let Err(mut v) = r {
            if v.signature.starts_with("harness:") {
                // inconclusive cases are not saved by the driver: keep the input for triage
                let path = verif_dir().join("work").join(format!("C11-inconclusive-{:016x}.json", fxhash64(&serde_json::to_string(case).unwrap_or_default())));
                let _ = std::fs::create_dir_all(path.parent().unwrap());
                let _ = std::fs::write(&path, serde_json::to_vec(&json!({"property": "C11", "sub": "history", "signature": v.signature, "case": case})).unwrap_or_default());
                v.detail = format!("{} [case kept in {}]", v.detail, path.display());
            }
            v.detail = format!("op {i} ({}): {}", op.kind(), v.detail);
            result = Err(v);
            break;
        }
        if w.abort.get() {
            break;
        }
    }
    for sig in w.pending_known.drain(..) {
        *st.known_hits.entry(sig).or_insert(0) += 1;
    }
    if result.is_ok() {
        if w.nontrivial {
            st.nontrivial(case);
            if st.want_sample() {
                let summary = w.summary.clone();
                let cfg = case.cfg.clone();
                let n = case.ops.len();
                st.sample(|| json!({"cfg": cfg, "ops": n, "trace": summary}));
            }
        }
    }
    w.node.stop();
    result
}

fn run(ctx: &Ctx) {
    ctx.shrink_iters.set(150);
    // development aid: VERIF_C11_ONLY=remote runs the relay-path sub-checks alone
    if std::env::var("VERIF_C11_ONLY").map(|v| v == "remote").unwrap_or(false) {
        remote::run(ctx);
        return;
    }
    let max_ops = ctx.tier.pick(40, 70);
    let cases = ctx.cases(800, 8000);
    let known = |s: &str| ctx.is_known(s);
    ctx.run_prop("history", cases, case_strategy(max_ops), |c, st| run_case(c, st, ctx.strict, &known, false));
    // dedicated sub-property: plug_entry of a double-spending entry (DESIGN §4 item 4)
    let cases = ctx.cases(100, 1000);
    ctx.run_prop("history-with-conflicting-plug", cases, case_strategy(24), |c, st| run_case(c, st, ctx.strict, &known, true));
    remote::run(ctx);
}

fn replay(ctx: &Ctx, sub: &str, v: &Value) -> Verdict {
    if sub.starts_with("remote") {
        return remote::replay(ctx, sub, v);
    }
    let c: Case = from_case(v)?;
    let mut st = ctx.stats.borrow_mut();
    let known = |s: &str| ctx.is_known(s);
    // development aid: VERIF_C11_LENIENT=1 replays like the search does (known findings tolerated)
    let strict = ctx.strict && std::env::var_os("VERIF_C11_LENIENT").is_none();
    let r = run_case(&c, &mut st, strict, &known, sub == "history-with-conflicting-plug");
    if !strict {
        for (k, n) in &st.known_hits {
            println!("  tolerated known signature: {k} x{n}");
        }
    }
    r
}
