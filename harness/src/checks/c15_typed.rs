//! Typed layers of C15: values of the interpreter are turned into packed values through the
//! hand-written builders / Pack conversions (`mk_*`) and read back through getters / Unpack
//! conversions (`rd_*`); both must agree with the interpreter's bytes and tree.
use super::c15::{generate, guarded, hx, note_nontrivial, run_sub, world};
use super::{c15_hash, c15_json};
use crate::common::*;
use crate::molschema::{Kind, Schema, Val, fld, fld_mut};
use crate::{vensure, vfail};
use ckb_types::bytes::Bytes;
use ckb_types::core::Capacity;
use ckb_types::prelude::*;
use ckb_types::{H256, packed};
use proptest::prelude::*;
use serde::{Deserialize, Serialize};
use serde_json::{Value, json};

// ------------------------------------------------------------------------------------------
// semantic normalisation ("structurally valid values")
// ------------------------------------------------------------------------------------------

/// Script.hash_type into the ScriptHashType value set, CellDep.dep_type into {0,1}, Bool into
/// {0,1}; optionally RawHeader fields into the domain of the advanced HeaderBuilder.
pub fn normalize(s: &Schema, ty: &str, v: &mut Val, header_domain: bool) {
    match ty {
        "Script" => {
            let h = fld_mut(s, ty, v, "hash_type");
            let b = h.byte();
            if b % 2 == 1 && b != 1 {
                *h = Val::Byte(b & 0xfe);
            }
        }
        "CellDep" => {
            let d = fld_mut(s, ty, v, "dep_type");
            *d = Val::Byte(d.byte() & 1);
        }
        "Bool" => {
            let b = v.raw()[0] & 1;
            *v = Val::Raw(vec![b]);
        }
        "RawHeader" if header_domain => {
            let ct = fld_mut(s, ty, v, "compact_target");
            if ct.u32() == 0 {
                *ct = Val::Raw(1u32.to_le_bytes().to_vec());
            }
            let number = fld(s, ty, v, "number").u64();
            let e = fld_mut(s, ty, v, "epoch");
            let x = e.u64();
            let (num, mut idx, mut len) = (x & 0xff_ffff, (x >> 24) & 0xffff, (x >> 40) & 0xffff);
            if number != 0 && !(len > 0 && idx < len) {
                if len == 0 {
                    len = 1;
                }
                idx %= len;
                let nx = (x & 0xff00_0000_0000_0000) | (len << 40) | (idx << 24) | num;
                *e = Val::Raw(nx.to_le_bytes().to_vec());
            }
        }
        _ => {}
    }
    match (s.kind(ty).clone(), v) {
        (Kind::Struct { fields }, Val::Seq(xs)) | (Kind::Table { fields }, Val::Seq(xs)) => {
            for (f, x) in fields.iter().zip(xs.iter_mut()) {
                normalize(s, &f.1, x, header_domain);
            }
        }
        (Kind::Vector { item }, Val::Seq(xs)) | (Kind::Array { item, .. }, Val::Seq(xs)) => {
            for x in xs.iter_mut() {
                normalize(s, &item, x, header_domain);
            }
        }
        (Kind::Option { item }, Val::Some(x)) => normalize(s, &item, x, header_domain),
        (Kind::Union { items }, Val::Union(id, x)) => {
            if let Some(it) = items.iter().find(|i| i.1 == *id) {
                normalize(s, &it.0, x, header_domain);
            }
        }
        _ => {}
    }
}

/// build a struct/table value from named fields, in schema order
pub fn named(s: &Schema, ty: &str, mut fields: Vec<(&str, Val)>) -> Val {
    let decl = match s.kind(ty) {
        Kind::Struct { fields } | Kind::Table { fields } => fields.clone(),
        _ => panic!("{ty} is not a struct/table"),
    };
    assert_eq!(decl.len(), fields.len(), "{ty}: field count");
    let mut out = vec![];
    for (n, _) in &decl {
        let i = fields.iter().position(|f| f.0 == n).unwrap_or_else(|| panic!("{ty}: no field {n} given"));
        out.push(fields.swap_remove(i).1);
    }
    Val::Seq(out)
}

// ------------------------------------------------------------------------------------------
// Val -> packed (builders, Pack, From)
// ------------------------------------------------------------------------------------------

fn a32(v: &Val) -> [u8; 32] {
    v.raw().try_into().expect("32 bytes")
}

pub fn mk_byte32(v: &Val, r: u8) -> packed::Byte32 {
    match r % 4 {
        0 => a32(v).pack(),
        1 => H256(a32(v)).pack(),
        2 => packed::Byte32::new(a32(v)),
        _ => (&a32(v)).into(),
    }
}

pub fn mk_u32(v: &Val, r: u8) -> packed::Uint32 {
    match r % 3 {
        0 => v.u32().pack(),
        1 => v.u32().into(),
        _ => (v.u32() as usize).pack(),
    }
}

pub fn mk_u64(v: &Val, r: u8) -> packed::Uint64 {
    match r % 3 {
        0 => v.u64().pack(),
        1 => v.u64().into(),
        _ => Capacity::shannons(v.u64()).pack(),
    }
}

pub fn mk_u128(v: &Val, r: u8) -> packed::Uint128 {
    if r % 2 == 0 { v.u128().pack() } else { v.u128().into() }
}

pub fn mk_bytes(v: &Val, r: u8) -> packed::Bytes {
    let raw = v.raw();
    match r % 5 {
        0 => Bytes::from(raw.to_vec()).pack(),
        1 => raw.pack(),
        2 => packed::Bytes::new_builder().extend(raw.iter().map(|b| packed::Byte::new(*b))).build(),
        3 => packed::Bytes::from(raw),
        _ => {
            let mut b = packed::Bytes::new_builder();
            for x in raw {
                b = b.push(*x);
            }
            b.build()
        }
    }
}

pub fn mk_short_id(v: &Val, r: u8) -> packed::ProposalShortId {
    let a: [u8; 10] = v.raw().try_into().expect("10 bytes");
    if r % 2 == 0 { a.pack() } else { packed::ProposalShortId::new(a) }
}

pub fn mk_script(s: &Schema, v: &Val, r: u8) -> packed::Script {
    let t = "Script";
    packed::Script::new_builder()
        .args(mk_bytes(fld(s, t, v, "args"), r))
        .hash_type(fld(s, t, v, "hash_type").byte())
        .code_hash(mk_byte32(fld(s, t, v, "code_hash"), r))
        .build()
}

pub fn mk_out_point(s: &Schema, v: &Val, r: u8) -> packed::OutPoint {
    let t = "OutPoint";
    let h = mk_byte32(fld(s, t, v, "tx_hash"), r);
    if r % 2 == 0 {
        packed::OutPoint::new(h, fld(s, t, v, "index").u32())
    } else {
        packed::OutPoint::new_builder().index(mk_u32(fld(s, t, v, "index"), r)).tx_hash(h).build()
    }
}

pub fn mk_cell_input(s: &Schema, v: &Val, r: u8) -> packed::CellInput {
    let t = "CellInput";
    let op = mk_out_point(s, fld(s, t, v, "previous_output"), r);
    if r % 2 == 0 {
        packed::CellInput::new(op, fld(s, t, v, "since").u64())
    } else {
        packed::CellInput::new_builder().previous_output(op).since(mk_u64(fld(s, t, v, "since"), r)).build()
    }
}

pub fn mk_script_opt(s: &Schema, v: &Val, r: u8) -> packed::ScriptOpt {
    let o = v.opt().map(|x| mk_script(s, x, r));
    match r % 3 {
        0 => o.pack(),
        1 => packed::ScriptOpt::new_builder().set(o).build(),
        _ => o.into(),
    }
}

pub fn mk_cell_output(s: &Schema, v: &Val, r: u8) -> packed::CellOutput {
    let t = "CellOutput";
    packed::CellOutput::new_builder()
        .type_(mk_script_opt(s, fld(s, t, v, "type_"), r))
        .capacity(mk_u64(fld(s, t, v, "capacity"), r))
        .lock(mk_script(s, fld(s, t, v, "lock"), r))
        .build()
}

pub fn mk_cell_dep(s: &Schema, v: &Val, r: u8) -> packed::CellDep {
    let t = "CellDep";
    packed::CellDep::new_builder()
        .dep_type(fld(s, t, v, "dep_type").byte())
        .out_point(mk_out_point(s, fld(s, t, v, "out_point"), r))
        .build()
}

pub fn mk_bytes_vec(v: &Val, r: u8) -> packed::BytesVec {
    let items: Vec<packed::Bytes> = v.seq().iter().map(|x| mk_bytes(x, r)).collect();
    match r % 4 {
        0 => items.into(),
        1 => PackVec::pack(items),
        2 => packed::BytesVec::new_builder().set(items).build(),
        _ => {
            let raws: Vec<Bytes> = v.seq().iter().map(|x| Bytes::from(x.raw().to_vec())).collect();
            raws.pack()
        }
    }
}

pub fn mk_byte32_vec(v: &Val, r: u8) -> packed::Byte32Vec {
    let items: Vec<packed::Byte32> = v.seq().iter().map(|x| mk_byte32(x, r)).collect();
    match r % 3 {
        0 => items.into(),
        1 => PackVec::pack(items),
        _ => {
            let mut b = packed::Byte32Vec::new_builder();
            for i in items {
                b = b.push(i);
            }
            b.build()
        }
    }
}

pub fn mk_short_id_vec(v: &Val, r: u8) -> packed::ProposalShortIdVec {
    let items: Vec<packed::ProposalShortId> = v.seq().iter().map(|x| mk_short_id(x, r)).collect();
    match r % 3 {
        0 => items.into(),
        1 => PackVec::pack(items),
        _ => packed::ProposalShortIdVec::new_builder().extend(items).build(),
    }
}

pub fn mk_raw_tx(s: &Schema, v: &Val, r: u8) -> packed::RawTransaction {
    let t = "RawTransaction";
    let deps: Vec<packed::CellDep> = fld(s, t, v, "cell_deps").seq().iter().map(|x| mk_cell_dep(s, x, r)).collect();
    let inputs: Vec<packed::CellInput> = fld(s, t, v, "inputs").seq().iter().map(|x| mk_cell_input(s, x, r)).collect();
    let outputs: Vec<packed::CellOutput> =
        fld(s, t, v, "outputs").seq().iter().map(|x| mk_cell_output(s, x, r)).collect();
    let b = packed::RawTransaction::new_builder()
        .outputs_data(mk_bytes_vec(fld(s, t, v, "outputs_data"), r))
        .version(mk_u32(fld(s, t, v, "version"), r))
        .header_deps(mk_byte32_vec(fld(s, t, v, "header_deps"), r));
    if r % 2 == 0 {
        b.cell_deps(deps).inputs(inputs).outputs(outputs).build()
    } else {
        b.cell_deps(PackVec::pack(deps)).inputs(PackVec::pack(inputs)).outputs(PackVec::pack(outputs)).build()
    }
}

pub fn mk_tx(s: &Schema, v: &Val, r: u8) -> packed::Transaction {
    let t = "Transaction";
    packed::Transaction::new_builder()
        .witnesses(mk_bytes_vec(fld(s, t, v, "witnesses"), r))
        .raw(mk_raw_tx(s, fld(s, t, v, "raw"), r))
        .build()
}

pub fn mk_raw_header(s: &Schema, v: &Val, r: u8) -> packed::RawHeader {
    let t = "RawHeader";
    packed::RawHeader::new_builder()
        .dao(mk_byte32(fld(s, t, v, "dao"), r))
        .extra_hash(mk_byte32(fld(s, t, v, "extra_hash"), r))
        .proposals_hash(mk_byte32(fld(s, t, v, "proposals_hash"), r))
        .transactions_root(mk_byte32(fld(s, t, v, "transactions_root"), r))
        .parent_hash(mk_byte32(fld(s, t, v, "parent_hash"), r))
        .epoch(mk_u64(fld(s, t, v, "epoch"), r))
        .number(mk_u64(fld(s, t, v, "number"), r))
        .timestamp(mk_u64(fld(s, t, v, "timestamp"), r))
        .compact_target(mk_u32(fld(s, t, v, "compact_target"), r))
        .version(mk_u32(fld(s, t, v, "version"), r))
        .build()
}

pub fn mk_header(s: &Schema, v: &Val, r: u8) -> packed::Header {
    let t = "Header";
    packed::Header::new_builder()
        .nonce(mk_u128(fld(s, t, v, "nonce"), r))
        .raw(mk_raw_header(s, fld(s, t, v, "raw"), r))
        .build()
}

pub fn mk_uncle(s: &Schema, v: &Val, r: u8) -> packed::UncleBlock {
    let t = "UncleBlock";
    packed::UncleBlock::new_builder()
        .proposals(mk_short_id_vec(fld(s, t, v, "proposals"), r))
        .header(mk_header(s, fld(s, t, v, "header"), r))
        .build()
}

pub fn mk_uncle_vec(s: &Schema, v: &Val, r: u8) -> packed::UncleBlockVec {
    let items: Vec<packed::UncleBlock> = v.seq().iter().map(|x| mk_uncle(s, x, r)).collect();
    if r % 2 == 0 { items.into() } else { PackVec::pack(items) }
}

pub fn mk_tx_vec(s: &Schema, v: &Val, r: u8) -> packed::TransactionVec {
    let items: Vec<packed::Transaction> = v.seq().iter().map(|x| mk_tx(s, x, r)).collect();
    if r % 2 == 0 { items.into() } else { PackVec::pack(items) }
}

pub fn mk_block(s: &Schema, v: &Val, r: u8) -> packed::Block {
    let t = "Block";
    packed::Block::new_builder()
        .proposals(mk_short_id_vec(fld(s, t, v, "proposals"), r))
        .transactions(mk_tx_vec(s, fld(s, t, v, "transactions"), r))
        .uncles(mk_uncle_vec(s, fld(s, t, v, "uncles"), r))
        .header(mk_header(s, fld(s, t, v, "header"), r))
        .build()
}

pub fn mk_block_v1(s: &Schema, v: &Val, r: u8) -> packed::BlockV1 {
    let t = "BlockV1";
    packed::BlockV1::new_builder()
        .extension(mk_bytes(fld(s, t, v, "extension"), r))
        .proposals(mk_short_id_vec(fld(s, t, v, "proposals"), r))
        .transactions(mk_tx_vec(s, fld(s, t, v, "transactions"), r))
        .uncles(mk_uncle_vec(s, fld(s, t, v, "uncles"), r))
        .header(mk_header(s, fld(s, t, v, "header"), r))
        .build()
}

pub fn mk_bytes_opt(v: &Val, r: u8) -> packed::BytesOpt {
    match r % 3 {
        0 => Pack::<packed::BytesOpt>::pack(&v.opt().map(|x| mk_bytes(x, r))),
        1 => Pack::<packed::BytesOpt>::pack(&v.opt().map(|x| Bytes::from(x.raw().to_vec()))),
        _ => packed::BytesOpt::new_builder().set(v.opt().map(|x| mk_bytes(x, r))).build(),
    }
}

pub fn mk_witness_args(s: &Schema, v: &Val, r: u8) -> packed::WitnessArgs {
    let t = "WitnessArgs";
    packed::WitnessArgs::new_builder()
        .output_type(mk_bytes_opt(fld(s, t, v, "output_type"), r))
        .input_type(mk_bytes_opt(fld(s, t, v, "input_type"), r))
        .lock(mk_bytes_opt(fld(s, t, v, "lock"), r))
        .build()
}

pub fn mk_cellbase_witness(s: &Schema, v: &Val, r: u8) -> packed::CellbaseWitness {
    let t = "CellbaseWitness";
    packed::CellbaseWitness::new_builder()
        .message(mk_bytes(fld(s, t, v, "message"), r))
        .lock(mk_script(s, fld(s, t, v, "lock"), r))
        .build()
}

pub fn mk_index_tx_vec(s: &Schema, v: &Val, r: u8) -> packed::IndexTransactionVec {
    let t = "IndexTransaction";
    let items: Vec<packed::IndexTransaction> = v
        .seq()
        .iter()
        .map(|x| {
            packed::IndexTransaction::new_builder()
                .transaction(mk_tx(s, fld(s, t, x, "transaction"), r))
                .index(mk_u32(fld(s, t, x, "index"), r))
                .build()
        })
        .collect();
    items.into()
}

pub fn mk_compact_block(s: &Schema, v: &Val, r: u8) -> packed::CompactBlock {
    let t = "CompactBlock";
    packed::CompactBlock::new_builder()
        .proposals(mk_short_id_vec(fld(s, t, v, "proposals"), r))
        .uncles(mk_byte32_vec(fld(s, t, v, "uncles"), r))
        .prefilled_transactions(mk_index_tx_vec(s, fld(s, t, v, "prefilled_transactions"), r))
        .short_ids(mk_short_id_vec(fld(s, t, v, "short_ids"), r))
        .header(mk_header(s, fld(s, t, v, "header"), r))
        .build()
}

// ------------------------------------------------------------------------------------------
// packed -> Val (getters, Unpack, iterators)
// ------------------------------------------------------------------------------------------

pub fn rd_byte32(p: &packed::Byte32, r: u8) -> Val {
    Val::Raw(match r % 3 {
        0 => Unpack::<H256>::unpack(p).0.to_vec(),
        1 => Unpack::<[u8; 32]>::unpack(p).to_vec(),
        _ => p.raw_data().to_vec(),
    })
}

pub fn rd_u32(p: &packed::Uint32, r: u8) -> Val {
    let x: u32 = if r % 2 == 0 { p.unpack() } else { Unpack::<usize>::unpack(p) as u32 };
    Val::Raw(x.to_le_bytes().to_vec())
}

pub fn rd_u64(p: &packed::Uint64, r: u8) -> Val {
    let x: u64 = if r % 2 == 0 { p.unpack() } else { Unpack::<Capacity>::unpack(p).as_u64() };
    Val::Raw(x.to_le_bytes().to_vec())
}

pub fn rd_u128(p: &packed::Uint128) -> Val {
    let x: u128 = p.unpack();
    Val::Raw(x.to_le_bytes().to_vec())
}

pub fn rd_bytes(p: &packed::Bytes, r: u8) -> Val {
    Val::Raw(match r % 4 {
        0 => Unpack::<Bytes>::unpack(p).to_vec(),
        1 => p.raw_data().to_vec(),
        2 => Unpack::<Vec<u8>>::unpack(p),
        _ => {
            let mut v = vec![];
            for i in 0..p.len() {
                v.push(u8::from(p.get(i).expect("index < len")));
            }
            v
        }
    })
}

pub fn rd_short_id(p: &packed::ProposalShortId) -> Val {
    Val::Raw(Unpack::<[u8; 10]>::unpack(p).to_vec())
}

pub fn rd_script(s: &Schema, p: &packed::Script, r: u8) -> Val {
    named(
        s,
        "Script",
        vec![
            ("code_hash", rd_byte32(&p.code_hash(), r)),
            ("hash_type", Val::Byte(p.hash_type().into())),
            ("args", rd_bytes(&p.args(), r)),
        ],
    )
}

pub fn rd_out_point(s: &Schema, p: &packed::OutPoint, r: u8) -> Val {
    named(s, "OutPoint", vec![("tx_hash", rd_byte32(&p.tx_hash(), r)), ("index", rd_u32(&p.index(), r))])
}

pub fn rd_cell_input(s: &Schema, p: &packed::CellInput, r: u8) -> Val {
    named(
        s,
        "CellInput",
        vec![("since", rd_u64(&p.since(), r)), ("previous_output", rd_out_point(s, &p.previous_output(), r))],
    )
}

pub fn rd_script_opt(s: &Schema, p: &packed::ScriptOpt, r: u8) -> Val {
    match p.to_opt() {
        Some(x) => {
            assert!(p.is_some() && !p.is_none());
            Val::Some(Box::new(rd_script(s, &x, r)))
        }
        None => Val::None,
    }
}

pub fn rd_cell_output(s: &Schema, p: &packed::CellOutput, r: u8) -> Val {
    named(
        s,
        "CellOutput",
        vec![
            ("capacity", rd_u64(&p.capacity(), r)),
            ("lock", rd_script(s, &p.lock(), r)),
            ("type_", rd_script_opt(s, &p.type_(), r)),
        ],
    )
}

pub fn rd_cell_dep(s: &Schema, p: &packed::CellDep, r: u8) -> Val {
    named(
        s,
        "CellDep",
        vec![("out_point", rd_out_point(s, &p.out_point(), r)), ("dep_type", Val::Byte(p.dep_type().into()))],
    )
}

pub fn rd_bytes_vec(p: &packed::BytesVec, r: u8) -> Val {
    match r % 3 {
        0 => Val::Seq(p.clone().into_iter().map(|x| rd_bytes(&x, r)).collect()),
        1 => Val::Seq(Unpack::<Vec<Bytes>>::unpack(p).into_iter().map(|b| Val::Raw(b.to_vec())).collect()),
        _ => Val::Seq((0..p.len()).map(|i| rd_bytes(&p.get(i).expect("index < len"), r)).collect()),
    }
}

pub fn rd_byte32_vec(p: &packed::Byte32Vec, r: u8) -> Val {
    if r % 2 == 0 {
        Val::Seq(p.clone().into_iter().map(|x| rd_byte32(&x, r)).collect())
    } else {
        Val::Seq(p.as_reader().iter().map(|x| Val::Raw(x.raw_data().to_vec())).collect())
    }
}

pub fn rd_short_id_vec(p: &packed::ProposalShortIdVec) -> Val {
    Val::Seq(p.clone().into_iter().map(|x| rd_short_id(&x)).collect())
}

pub fn rd_raw_tx(s: &Schema, p: &packed::RawTransaction, r: u8) -> Val {
    named(
        s,
        "RawTransaction",
        vec![
            ("version", rd_u32(&p.version(), r)),
            ("cell_deps", Val::Seq(p.cell_deps().into_iter().map(|x| rd_cell_dep(s, &x, r)).collect())),
            ("header_deps", rd_byte32_vec(&p.header_deps(), r)),
            ("inputs", Val::Seq(p.inputs().into_iter().map(|x| rd_cell_input(s, &x, r)).collect())),
            ("outputs", Val::Seq(p.outputs().into_iter().map(|x| rd_cell_output(s, &x, r)).collect())),
            ("outputs_data", rd_bytes_vec(&p.outputs_data(), r)),
        ],
    )
}

pub fn rd_tx(s: &Schema, p: &packed::Transaction, r: u8) -> Val {
    named(
        s,
        "Transaction",
        vec![("raw", rd_raw_tx(s, &p.raw(), r)), ("witnesses", rd_bytes_vec(&p.witnesses(), r))],
    )
}

pub fn rd_raw_header(s: &Schema, p: &packed::RawHeader, r: u8) -> Val {
    named(
        s,
        "RawHeader",
        vec![
            ("version", rd_u32(&p.version(), r)),
            ("compact_target", rd_u32(&p.compact_target(), r)),
            ("timestamp", rd_u64(&p.timestamp(), r)),
            ("number", rd_u64(&p.number(), r)),
            ("epoch", rd_u64(&p.epoch(), r)),
            ("parent_hash", rd_byte32(&p.parent_hash(), r)),
            ("transactions_root", rd_byte32(&p.transactions_root(), r)),
            ("proposals_hash", rd_byte32(&p.proposals_hash(), r)),
            ("extra_hash", rd_byte32(&p.extra_hash(), r)),
            ("dao", rd_byte32(&p.dao(), r)),
        ],
    )
}

pub fn rd_header(s: &Schema, p: &packed::Header, r: u8) -> Val {
    named(s, "Header", vec![("raw", rd_raw_header(s, &p.raw(), r)), ("nonce", rd_u128(&p.nonce()))])
}

pub fn rd_uncle(s: &Schema, p: &packed::UncleBlock, r: u8) -> Val {
    named(
        s,
        "UncleBlock",
        vec![("header", rd_header(s, &p.header(), r)), ("proposals", rd_short_id_vec(&p.proposals()))],
    )
}

fn rd_block_fields<'a>(s: &Schema, p: &packed::Block, r: u8) -> Vec<(&'a str, Val)> {
    vec![
        ("header", rd_header(s, &p.header(), r)),
        ("uncles", Val::Seq(p.uncles().into_iter().map(|x| rd_uncle(s, &x, r)).collect())),
        ("transactions", Val::Seq(p.transactions().into_iter().map(|x| rd_tx(s, &x, r)).collect())),
        ("proposals", rd_short_id_vec(&p.proposals())),
    ]
}

pub fn rd_block(s: &Schema, p: &packed::Block, r: u8) -> Val {
    named(s, "Block", rd_block_fields(s, p, r))
}

/// a packed::Block that carries the BlockV1 layout (as_v0), read with the Block accessors +
/// `extension()`
pub fn rd_block_v1_via_v0(s: &Schema, p: &packed::Block, r: u8) -> Val {
    let mut f = rd_block_fields(s, p, r);
    let ext = p.extension().expect("BlockV1 layout has an extension");
    f.push(("extension", rd_bytes(&ext, r)));
    named(s, "BlockV1", f)
}

pub fn rd_bytes_opt(p: &packed::BytesOpt, r: u8) -> Val {
    match p.to_opt() {
        Some(x) => Val::Some(Box::new(rd_bytes(&x, r))),
        None => Val::None,
    }
}

pub fn rd_witness_args(s: &Schema, p: &packed::WitnessArgs, r: u8) -> Val {
    named(
        s,
        "WitnessArgs",
        vec![
            ("lock", rd_bytes_opt(&p.lock(), r)),
            ("input_type", rd_bytes_opt(&p.input_type(), r)),
            ("output_type", rd_bytes_opt(&p.output_type(), r)),
        ],
    )
}

pub fn rd_compact_block(s: &Schema, p: &packed::CompactBlock, r: u8) -> Val {
    let pre = p
        .prefilled_transactions()
        .into_iter()
        .map(|x| {
            named(
                s,
                "IndexTransaction",
                vec![("index", rd_u32(&x.index(), r)), ("transaction", rd_tx(s, &x.transaction(), r))],
            )
        })
        .collect();
    named(
        s,
        "CompactBlock",
        vec![
            ("header", rd_header(s, &p.header(), r)),
            ("short_ids", rd_short_id_vec(&p.short_ids())),
            ("prefilled_transactions", Val::Seq(pre)),
            ("uncles", rd_byte32_vec(&p.uncles(), r)),
            ("proposals", rd_short_id_vec(&p.proposals())),
        ],
    )
}

// ------------------------------------------------------------------------------------------
// sub-property "typed"
// ------------------------------------------------------------------------------------------

pub const TYPED: &[&str] = &[
    "Script",
    "OutPoint",
    "CellInput",
    "CellOutput",
    "CellDep",
    "RawTransaction",
    "Transaction",
    "RawHeader",
    "Header",
    "UncleBlock",
    "Block",
    "BlockV1",
    "CompactBlock",
    "ProposalShortIdVec",
    "WitnessArgs",
    "CellbaseWitness",
    "BytesVec",
    "Byte32Vec",
    "BytesOpt",
    "ScriptOpt",
    "Bytes",
];

#[derive(Clone, Debug, Serialize, Deserialize)]
pub struct TypedCase {
    pub ty: String,
    pub tape: Vec<u8>,
    /// which of the alternative builder / conversion routes to use
    pub route: u8,
}

pub fn tape_strategy() -> impl Strategy<Value = Vec<u8>> {
    prop_oneof![
        2 => proptest::collection::vec(any::<u8>(), 0..64),
        4 => proptest::collection::vec(any::<u8>(), 32..1500),
        2 => proptest::collection::vec(prop_oneof![2 => 120u8..=255, 1 => any::<u8>()], 16..400),
    ]
}

fn typed_strategy() -> impl Strategy<Value = TypedCase> {
    (0..TYPED.len(), tape_strategy(), any::<u8>()).prop_map(|(i, tape, route)| TypedCase {
        ty: TYPED[i].to_string(),
        tape,
        route,
    })
}

/// (bytes produced by the typed builders, tree read back by the typed getters from `bytes`)
fn typed_roundtrip(s: &Schema, ty: &str, v: &Val, bytes: &[u8], r: u8) -> Result<(Vec<u8>, Val), String> {
    macro_rules! go {
        ($t:ident, $mk:expr, $rd:expr) => {{
            let built: packed::$t = $mk;
            let p = packed::$t::from_slice(bytes).map_err(|e| e.to_string())?;
            #[allow(clippy::redundant_closure_call)]
            let back: Val = ($rd)(&p);
            Ok((built.as_slice().to_vec(), back))
        }};
    }
    match ty {
        "Script" => go!(Script, mk_script(s, v, r), |p| rd_script(s, p, r)),
        "OutPoint" => go!(OutPoint, mk_out_point(s, v, r), |p| rd_out_point(s, p, r)),
        "CellInput" => go!(CellInput, mk_cell_input(s, v, r), |p| rd_cell_input(s, p, r)),
        "CellOutput" => go!(CellOutput, mk_cell_output(s, v, r), |p| rd_cell_output(s, p, r)),
        "CellDep" => go!(CellDep, mk_cell_dep(s, v, r), |p| rd_cell_dep(s, p, r)),
        "RawTransaction" => go!(RawTransaction, mk_raw_tx(s, v, r), |p| rd_raw_tx(s, p, r)),
        "Transaction" => go!(Transaction, mk_tx(s, v, r), |p| rd_tx(s, p, r)),
        "RawHeader" => go!(RawHeader, mk_raw_header(s, v, r), |p| rd_raw_header(s, p, r)),
        "Header" => go!(Header, mk_header(s, v, r), |p| rd_header(s, p, r)),
        "UncleBlock" => go!(UncleBlock, mk_uncle(s, v, r), |p| rd_uncle(s, p, r)),
        "Block" => go!(Block, mk_block(s, v, r), |p| rd_block(s, p, r)),
        "BlockV1" => {
            let built = mk_block_v1(s, v, r);
            let p = packed::BlockV1::from_slice(bytes).map_err(|e| e.to_string())?;
            let back = rd_block_v1_via_v0(s, &p.as_v0(), r);
            Ok((built.as_slice().to_vec(), back))
        }
        "CompactBlock" => go!(CompactBlock, mk_compact_block(s, v, r), |p| rd_compact_block(s, p, r)),
        "ProposalShortIdVec" => go!(ProposalShortIdVec, mk_short_id_vec(v, r), |p| rd_short_id_vec(p)),
        "WitnessArgs" => go!(WitnessArgs, mk_witness_args(s, v, r), |p| rd_witness_args(s, p, r)),
        "CellbaseWitness" => go!(CellbaseWitness, mk_cellbase_witness(s, v, r), |p: &packed::CellbaseWitness| named(
            s,
            "CellbaseWitness",
            vec![("lock", rd_script(s, &p.lock(), r)), ("message", rd_bytes(&p.message(), r))]
        )),
        "BytesVec" => go!(BytesVec, mk_bytes_vec(v, r), |p| rd_bytes_vec(p, r)),
        "Byte32Vec" => go!(Byte32Vec, mk_byte32_vec(v, r), |p| rd_byte32_vec(p, r)),
        "BytesOpt" => go!(BytesOpt, mk_bytes_opt(v, r), |p| rd_bytes_opt(p, r)),
        "ScriptOpt" => go!(ScriptOpt, mk_script_opt(s, v, r), |p| rd_script_opt(s, p, r)),
        "Bytes" => go!(Bytes, mk_bytes(v, r), |p| rd_bytes(p, r)),
        other => Err(format!("no typed route for {other}")),
    }
}

fn prop_typed(c: &TypedCase, st: &mut Stats) -> Verdict {
    let w = world();
    let s = &w.schema;
    let ty = c.ty.as_str();
    let val = generate(ty, &c.tape);
    let bytes = s.encode(ty, &val);
    let sh = s.shape(ty, &val);
    st.label(&format!("typed:{ty}"));
    if sh.nondefault_deep > 0 {
        st.label("typed:nontrivial");
        note_nontrivial(st, &("typed", ty, &bytes));
    }
    let r = c.route;
    let (built, back) = match guarded("typed builders/getters", ty, || typed_roundtrip(s, ty, &val, &bytes, r))? {
        Ok(x) => x,
        Err(e) => vfail!(format!("typed:rejected:{ty}"), "{ty}: {e} on canonical {}", hx(&bytes)),
    };
    vensure!(
        built == bytes,
        format!("typed:builders-differ-from-canonical:{ty}"),
        "{ty} built field by field through the builders/Pack conversions (route {r}) = {} but the canonical encoding of the same value is {}",
        hx(&built),
        hx(&bytes)
    );
    vensure!(
        back == val,
        format!("typed:getters-differ-from-value:{ty}"),
        "{ty} read through getters/Unpack (route {r}) = {back:?} but the bytes {} encode {val:?}",
        hx(&bytes)
    );
    Ok(())
}

// ------------------------------------------------------------------------------------------
// run / replay
// ------------------------------------------------------------------------------------------

pub fn run(ctx: &Ctx) {
    run_sub(ctx, "typed", ctx.cases(600_000, 9_000_000), typed_strategy(), prop_typed);
    c15_json::run(ctx);
    c15_hash::run(ctx);
}

pub fn replay(sub: &str, v: &Value, st: &mut Stats) -> Verdict {
    match sub {
        "typed" => prop_typed(&from_case(v)?, st),
        other => {
            if let Some(r) = c15_json::replay(other, v, st) {
                return r;
            }
            if let Some(r) = c15_hash::replay(other, v, st) {
                return r;
            }
            Err(Violation::new("replay-format", format!("unknown sub-property {other}")))
        }
    }
}

#[allow(dead_code)]
fn _unused() -> Value {
    json!(null)
}
