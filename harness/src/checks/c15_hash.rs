//! Hash layer of C15: every hash the library caches or computes is recomputed here from the
//! documented definition over the interpreter's bytes (blake2b-256 personalised
//! "ckb-default-hash" through the blake2b-ref crate, CBMT of RFC 0006 written out below), after
//! every builder path; single-field mutations must move exactly the hashes that bind the field.
use super::c15::{generate, guarded, hx, note_nontrivial, run_sub, world};
use super::c15_typed::{self as t, normalize, tape_strategy};
use crate::common::*;
use crate::molschema::{Kind, Schema, Val, fld, fld_mut};
use crate::{vensure, vfail};
use ckb_types::prelude::*;
use ckb_types::{core, packed};
use proptest::prelude::*;
use serde::{Deserialize, Serialize};
use serde_json::Value;

pub type H = [u8; 32];

pub fn ckbhash(parts: &[&[u8]]) -> H {
    let mut b = blake2b_ref::Blake2bBuilder::new(32).personal(b"ckb-default-hash").build();
    for p in parts {
        b.update(p);
    }
    let mut out = [0u8; 32];
    b.finalize(&mut out);
    out
}

/// RFC 0006 complete binary merkle tree: n leaves occupy the last n slots of an array of 2n-1
/// nodes; node i = H(node 2i+1 || node 2i+2); empty = zero hash, a single leaf is the root.
pub fn cbmt_root(leaves: &[H]) -> H {
    let n = leaves.len();
    if n == 0 {
        return [0u8; 32];
    }
    let mut nodes = vec![[0u8; 32]; 2 * n - 1];
    nodes[n - 1..].copy_from_slice(leaves);
    for i in (0..n - 1).rev() {
        nodes[i] = ckbhash(&[&nodes[2 * i + 1], &nodes[2 * i + 2]]);
    }
    nodes[0]
}

#[derive(Clone, Debug, PartialEq)]
pub struct BlockExpect {
    pub header_hash: H,
    pub tx_hashes: Vec<H>,
    pub witness_hashes: Vec<H>,
    pub uncle_hashes: Vec<H>,
    pub transactions_root: H,
    pub proposals_hash: H,
    pub uncles_hash: H,
    pub extension_hash: Option<H>,
    pub extra_hash: H,
}

pub fn tx_hashes(s: &Schema, tx: &Val) -> (H, H) {
    let raw = s.encode("RawTransaction", fld(s, "Transaction", tx, "raw"));
    let all = s.encode("Transaction", tx);
    (ckbhash(&[&raw]), ckbhash(&[&all]))
}

/// `ty` = "Block" | "BlockV1"
pub fn block_expect(s: &Schema, ty: &str, b: &Val) -> BlockExpect {
    let header = s.encode("Header", fld(s, ty, b, "header"));
    let mut txh = vec![];
    let mut wh = vec![];
    for tx in fld(s, ty, b, "transactions").seq() {
        let (a, c) = tx_hashes(s, tx);
        txh.push(a);
        wh.push(c);
    }
    let uncle_hashes: Vec<H> = fld(s, ty, b, "uncles")
        .seq()
        .iter()
        .map(|u| ckbhash(&[&s.encode("Header", fld(s, "UncleBlock", u, "header"))]))
        .collect();
    let props = fld(s, ty, b, "proposals").seq();
    let proposals_hash = if props.is_empty() {
        [0u8; 32]
    } else {
        let all: Vec<u8> = props.iter().flat_map(|p| p.raw().to_vec()).collect();
        ckbhash(&[&all])
    };
    let uncles_hash = if uncle_hashes.is_empty() {
        [0u8; 32]
    } else {
        let all: Vec<u8> = uncle_hashes.iter().flat_map(|h| h.to_vec()).collect();
        ckbhash(&[&all])
    };
    let extension_hash = if ty == "BlockV1" { Some(ckbhash(&[fld(s, ty, b, "extension").raw()])) } else { None };
    let extra_hash = match &extension_hash {
        None => uncles_hash,
        Some(e) => ckbhash(&[&uncles_hash, e]),
    };
    let transactions_root = cbmt_root(&[cbmt_root(&txh), cbmt_root(&wh)]);
    BlockExpect {
        header_hash: ckbhash(&[&header]),
        tx_hashes: txh,
        witness_hashes: wh,
        uncle_hashes,
        transactions_root,
        proposals_hash,
        uncles_hash,
        extension_hash,
        extra_hash,
    }
}

/// the block with transactions_root / proposals_hash / extra_hash of its header recomputed
pub fn with_reset_header(s: &Schema, ty: &str, b: &Val) -> Val {
    let x = block_expect(s, ty, b);
    let mut out = b.clone();
    let raw = fld_mut(s, "Header", fld_mut(s, ty, &mut out, "header"), "raw");
    *fld_mut(s, "RawHeader", raw, "transactions_root") = Val::Raw(x.transactions_root.to_vec());
    *fld_mut(s, "RawHeader", raw, "proposals_hash") = Val::Raw(x.proposals_hash.to_vec());
    *fld_mut(s, "RawHeader", raw, "extra_hash") = Val::Raw(x.extra_hash.to_vec());
    out
}

// ------------------------------------------------------------------------------------------
// generic single-field mutation of a value tree
// ------------------------------------------------------------------------------------------

/// Mutates one node chosen by `sel` among all nodes (pre-order); returns the path of field names
/// / indices to the node, or None when nothing changed.
pub fn mutate_val(s: &Schema, ty: &str, v: &mut Val, sel: u16, how: u8, arg: u8) -> Option<Vec<String>> {
    let mut nodes: Vec<(Vec<String>, Vec<usize>, String)> = vec![];
    collect_nodes(s, ty, v, &mut vec![], &mut vec![], &mut nodes);
    if nodes.is_empty() {
        return None;
    }
    let (path, idx, nty) = nodes[pick_idx(sel as u32, nodes.len())].clone();
    let mut cur: &mut Val = v;
    for i in &idx {
        cur = match cur {
            Val::Seq(xs) | Val::TableX(xs, _) => &mut xs[*i],
            Val::Some(x) | Val::Union(_, x) => &mut **x,
            _ => return None,
        };
    }
    let before = cur.clone();
    match (s.kind(&nty).clone(), &mut *cur) {
        (Kind::Byte, Val::Byte(b)) => *b ^= arg | 1,
        (Kind::Array { .. }, Val::Raw(r)) => {
            if !r.is_empty() {
                let i = arg as usize % r.len();
                r[i] ^= 1 << (how % 8);
            }
        }
        (Kind::Vector { .. }, Val::Raw(r)) => match how % 3 {
            0 => r.push(arg),
            1 if !r.is_empty() => {
                r.remove(arg as usize % r.len());
            }
            _ if !r.is_empty() => {
                let i = arg as usize % r.len();
                r[i] ^= 0x5a;
            }
            _ => r.push(arg),
        },
        (Kind::Vector { item }, Val::Seq(xs)) => match how % 4 {
            0 => {
                let mut nv = s.default_val(&item);
                // a non-default new element when the item has some raw content
                if let Val::Raw(r) = &mut nv {
                    if r.is_empty() {
                        r.push(arg);
                    } else {
                        r[0] = arg | 1;
                    }
                }
                let at = if xs.is_empty() { 0 } else { arg as usize % (xs.len() + 1) };
                xs.insert(at, nv);
            }
            1 if !xs.is_empty() => {
                xs.remove(arg as usize % xs.len());
            }
            2 if xs.len() >= 2 => {
                let i = arg as usize % xs.len();
                let k = (i + 1 + (how as usize / 4) % (xs.len() - 1)) % xs.len();
                xs.swap(i, k);
            }
            3 if !xs.is_empty() => {
                let i = arg as usize % xs.len();
                let d = xs[i].clone();
                xs.insert(i, d);
            }
            _ => xs.push(s.default_val(&item)),
        },
        (Kind::Option { item }, o) => {
            *o = match o {
                Val::None => Val::Some(Box::new(s.default_val(&item))),
                _ => Val::None,
            }
        }
        _ => return None,
    }
    if *cur == before { None } else { Some(path) }
}

fn collect_nodes(
    s: &Schema,
    ty: &str,
    v: &Val,
    path: &mut Vec<String>,
    idx: &mut Vec<usize>,
    out: &mut Vec<(Vec<String>, Vec<usize>, String)>,
) {
    match (s.kind(ty), v) {
        (Kind::Byte, _) | (Kind::Array { .. }, Val::Raw(_)) | (Kind::Vector { .. }, Val::Raw(_)) => {
            out.push((path.clone(), idx.clone(), ty.to_string()));
        }
        (Kind::Struct { fields }, Val::Seq(xs)) | (Kind::Table { fields }, Val::Seq(xs)) => {
            for (k, (f, x)) in fields.iter().zip(xs).enumerate() {
                path.push(f.0.clone());
                idx.push(k);
                collect_nodes(s, &f.1, x, path, idx, out);
                idx.pop();
                path.pop();
            }
        }
        (Kind::Vector { item }, Val::Seq(xs)) => {
            out.push((path.clone(), idx.clone(), ty.to_string()));
            for (k, x) in xs.iter().enumerate() {
                path.push(format!("[{k}]"));
                idx.push(k);
                collect_nodes(s, item, x, path, idx, out);
                idx.pop();
                path.pop();
            }
        }
        (Kind::Option { item }, o) => {
            out.push((path.clone(), idx.clone(), ty.to_string()));
            if let Val::Some(x) = o {
                path.push("?".into());
                idx.push(0);
                collect_nodes(s, item, x, path, idx, out);
                idx.pop();
                path.pop();
            }
        }
        _ => {}
    }
}

fn h32(p: &packed::Byte32) -> H {
    p.as_slice().try_into().expect("32 bytes")
}

// ------------------------------------------------------------------------------------------
// sub-property "txhash"
// ------------------------------------------------------------------------------------------

#[derive(Clone, Debug, Serialize, Deserialize)]
pub struct TxCase {
    pub tape: Vec<u8>,
    pub route: u8,
    /// single-field mutations (node selector, how, arg), applied one after the other
    pub muts: Vec<(u16, u8, u8)>,
}

fn tx_strategy() -> impl Strategy<Value = TxCase> {
    (
        tape_strategy(),
        any::<u8>(),
        proptest::collection::vec((any::<u16>(), any::<u8>(), any::<u8>()), 1..4),
    )
        .prop_map(|(tape, route, muts)| TxCase { tape, route, muts })
}

fn check_tx_view(what: &str, v: &core::TransactionView, bytes: &[u8], want: (H, H)) -> Verdict {
    vensure!(
        v.data().as_slice() == bytes,
        format!("txhash:{what}:data-differs"),
        "{what}: data {} != {}",
        hx(v.data().as_slice()),
        hx(bytes)
    );
    vensure!(
        h32(&v.hash()) == want.0,
        format!("txhash:{what}:cached-hash-differs-from-ckbhash(raw)"),
        "{what}: hash() = {} but ckbhash(raw transaction) = {}; tx {}",
        hx(v.hash().as_slice()),
        hx(&want.0),
        hx(bytes)
    );
    vensure!(
        h32(&v.witness_hash()) == want.1,
        format!("txhash:{what}:cached-witness-hash-differs-from-ckbhash(tx)"),
        "{what}: witness_hash() = {} but ckbhash(transaction) = {}; tx {}",
        hx(v.witness_hash().as_slice()),
        hx(&want.1),
        hx(bytes)
    );
    {
        // derived accessors restate the packed data
        let raw = v.data().raw();
        let n_out = raw.outputs().len();
        let pts = v.output_pts();
        vensure!(
            pts.len() == n_out
                && pts.iter().enumerate().all(|(i, p)| h32(&p.tx_hash()) == want.0 && Into::<u32>::into(p.index()) == i as u32)
                && v.output_pts_iter().map(|p| p.as_slice().to_vec()).collect::<Vec<_>>() == pts.iter().map(|p| p.as_slice().to_vec()).collect::<Vec<_>>(),
            format!("txhash:{what}:output_pts"),
            "{what}: output_pts() are not (ckbhash(raw), 0..{n_out})"
        );
        vensure!(
            v.input_pts_iter().map(|p| p.as_slice().to_vec()).collect::<Vec<_>>()
                == raw.inputs().into_iter().map(|i| i.previous_output().as_slice().to_vec()).collect::<Vec<_>>()
                && v.cell_deps_iter().map(|p| p.as_slice().to_vec()).collect::<Vec<_>>() == raw.cell_deps().into_iter().map(|d| d.as_slice().to_vec()).collect::<Vec<_>>()
                && v.header_deps_iter().map(|p| p.as_slice().to_vec()).collect::<Vec<_>>() == raw.header_deps().into_iter().map(|d| d.as_slice().to_vec()).collect::<Vec<_>>(),
            format!("txhash:{what}:input/dep-iterators"),
            "{what}: input_pts_iter / cell_deps_iter / header_deps_iter differ from the raw transaction"
        );
        let parents: std::collections::BTreeSet<Vec<u8>> = v.unique_parents().into_iter().map(|h| h.as_slice().to_vec()).collect();
        let want_parents: std::collections::BTreeSet<Vec<u8>> = raw.inputs().into_iter().map(|i| i.previous_output().tx_hash().as_slice().to_vec()).collect();
        vensure!(parents == want_parents, format!("txhash:{what}:unique_parents"), "{what}: unique_parents() is not the set of input transaction hashes");
        let n_data = raw.outputs_data().len();
        for i in 0..=n_out {
            vensure!(
                v.output(i).map(|o| o.as_slice().to_vec()) == raw.outputs().get(i).map(|o| o.as_slice().to_vec()),
                format!("txhash:{what}:output(i)"),
                "{what}: output({i}) differs from the raw transaction"
            );
            // output_with_data documents well-formed transactions (outputs_data as long as outputs)
            if n_data >= n_out {
                let got = v.output_with_data(i).map(|(o, d)| (o.as_slice().to_vec(), d.to_vec()));
                let wantd = raw.outputs().get(i).map(|o| (o.as_slice().to_vec(), raw.outputs_data().get(i).map(|d| d.raw_data().to_vec()).unwrap_or_default()));
                vensure!(got == wantd, format!("txhash:{what}:output_with_data(i)"), "{what}: output_with_data({i}) differs from the raw transaction");
            }
        }
        let zipped: Vec<(Vec<u8>, Vec<u8>)> = v.outputs_with_data_iter().map(|(o, d)| (o.as_slice().to_vec(), d.to_vec())).collect();
        let want_zip: Vec<(Vec<u8>, Vec<u8>)> = raw
            .outputs()
            .into_iter()
            .zip(raw.outputs_data().into_iter())
            .map(|(o, d)| (o.as_slice().to_vec(), d.raw_data().to_vec()))
            .collect();
        vensure!(zipped == want_zip, format!("txhash:{what}:outputs_with_data_iter"), "{what}: outputs_with_data_iter differs from the raw transaction");
        // the repository's definition (gen-types shortcut.rs): one input, the null out point, one witness
        let null_input = raw.inputs().len() == 1
            && v.data().witnesses().len() == 1
            && raw.inputs().get(0).map(|i| i.previous_output().tx_hash().as_slice().iter().all(|b| *b == 0) && Into::<u32>::into(i.previous_output().index()) == u32::MAX).unwrap_or(false);
        vensure!(
            v.is_cellbase() == null_input,
            format!("txhash:{what}:is_cellbase"),
            "{what}: is_cellbase() = {} but the transaction {} exactly one input with the null out point and one witness",
            v.is_cellbase(),
            if null_input { "has" } else { "does not have" }
        );
    }
    vensure!(
        v.proposal_short_id().as_slice() == &want.0[..10],
        format!("txhash:{what}:proposal-short-id"),
        "{what}: proposal_short_id {} is not the first 10 bytes of {}",
        hx(v.proposal_short_id().as_slice()),
        hx(&want.0)
    );
    Ok(())
}

/// every route from bytes / fields to a TransactionView
fn tx_views(s: &Schema, val: &Val, bytes: &[u8], r: u8, base: Option<&core::TransactionView>) -> Result<Vec<(&'static str, core::TransactionView)>, String> {
    let p = packed::Transaction::from_slice(bytes).map_err(|e| e.to_string())?;
    let mut out = vec![];
    out.push(("into_view", p.clone().into_view()));
    out.push(("packed.as_advanced_builder.build", p.as_advanced_builder().build()));
    out.push(("view.as_advanced_builder.build", p.clone().into_view().as_advanced_builder().build()));
    let raw = fld(s, "Transaction", val, "raw");
    let rt = "RawTransaction";
    // start from another view's builder (its cached hashes must not leak) or from a new builder
    let b = match base {
        Some(v) => v.as_advanced_builder(),
        None => core::TransactionView::new_advanced_builder(),
    };
    let built = b
        .version(t::mk_u32(fld(s, rt, raw, "version"), r))
        .set_cell_deps(fld(s, rt, raw, "cell_deps").seq().iter().map(|x| t::mk_cell_dep(s, x, r)).collect())
        .set_header_deps(fld(s, rt, raw, "header_deps").seq().iter().map(|x| t::mk_byte32(x, r)).collect())
        .set_inputs(fld(s, rt, raw, "inputs").seq().iter().map(|x| t::mk_cell_input(s, x, r)).collect())
        .set_outputs(fld(s, rt, raw, "outputs").seq().iter().map(|x| t::mk_cell_output(s, x, r)).collect())
        .set_outputs_data(fld(s, rt, raw, "outputs_data").seq().iter().map(|x| t::mk_bytes(x, r)).collect())
        .set_witnesses(fld(s, "Transaction", val, "witnesses").seq().iter().map(|x| t::mk_bytes(x, r)).collect())
        .build();
    out.push((if base.is_some() { "other-view.as_advanced_builder.set_*.build" } else { "new_advanced_builder.set_*.build" }, built));
    // storage form: packed::TransactionView (hash, witness_hash, data) <-> core
    let stored: packed::TransactionView = out[0].1.pack();
    let back: core::TransactionView = stored.unpack();
    out.push(("storage pack/unpack", back));
    Ok(out)
}

fn prop_tx(c: &TxCase, st: &mut Stats) -> Verdict {
    let w = world();
    let s = &w.schema;
    let val = generate("Transaction", &c.tape);
    let bytes = s.encode("Transaction", &val);
    let want = tx_hashes(s, &val);
    if s.shape("Transaction", &val).nondefault_deep > 0 {
        note_nontrivial(st, &("txhash", &bytes, &c.muts));
    }
    let p = match packed::Transaction::from_slice(&bytes) {
        Ok(p) => p,
        Err(e) => vfail!("txhash:canonical-rejected", "{e}"),
    };
    vensure!(
        h32(&p.calc_tx_hash()) == want.0 && h32(&p.calc_witness_hash()) == want.1,
        "txhash:calc-differs-from-definition",
        "calc_tx_hash {} / calc_witness_hash {} but ckbhash(raw) {} / ckbhash(tx) {} for {}",
        hx(p.calc_tx_hash().as_slice()),
        hx(p.calc_witness_hash().as_slice()),
        hx(&want.0),
        hx(&want.1),
        hx(&bytes)
    );
    let views = match guarded("transaction view builders", "Transaction", || tx_views(s, &val, &bytes, c.route, None))? {
        Ok(v) => v,
        Err(e) => vfail!("txhash:canonical-rejected", "{e}"),
    };
    for (what, v) in &views {
        check_tx_view(what, v, &bytes, want)?;
    }
    // single-field mutations
    let mut cur = val.clone();
    let mut cur_bytes = bytes.clone();
    let mut cur_want = want;
    let mut cur_view = views[0].1.clone();
    for (sel, how, arg) in &c.muts {
        let mut next = cur.clone();
        // a third of the mutations are aimed at the witnesses (few nodes among many)
        let mutated = if *how >= 170 {
            mutate_val(s, "BytesVec", fld_mut(s, "Transaction", &mut next, "witnesses"), *sel, *how, *arg).map(|mut p| {
                p.insert(0, "witnesses".to_string());
                p
            })
        } else {
            mutate_val(s, "Transaction", &mut next, *sel, *how, *arg)
        };
        let path = match mutated {
            Some(p) => p,
            None => {
                st.label("txhash:mutation-noop");
                continue;
            }
        };
        let nbytes = s.encode("Transaction", &next);
        if nbytes == cur_bytes {
            st.label("txhash:mutation-noop");
            continue;
        }
        let witness_only = path.first().map(|p| p == "witnesses").unwrap_or(false);
        st.label(if witness_only { "txhash:mutated-witnesses" } else { "txhash:mutated-raw-field" });
        let nwant = tx_hashes(s, &next);
        let nviews = match guarded("transaction view builders", "Transaction", || {
            tx_views(s, &next, &nbytes, c.route, Some(&cur_view))
        })? {
            Ok(v) => v,
            Err(e) => vfail!("txhash:canonical-rejected", "{e}"),
        };
        for (what, v) in &nviews {
            check_tx_view(what, v, &nbytes, nwant)?;
        }
        let real_old = (h32(&cur_view.hash()), h32(&cur_view.witness_hash()));
        let real_new = (h32(&nviews[3].1.hash()), h32(&nviews[3].1.witness_hash()));
        let field = path.iter().filter(|p| !p.starts_with('[')).cloned().collect::<Vec<_>>().join(".");
        if witness_only {
            vensure!(
                real_new.0 == real_old.0,
                "txhash:hash-changed-by-witness-only-mutation",
                "changing only {} changed the transaction hash {} -> {}",
                path.join("."),
                hx(&real_old.0),
                hx(&real_new.0)
            );
        } else {
            vensure!(
                real_new.0 != real_old.0,
                format!("txhash:hash-does-not-commit-to:{field}"),
                "changing {} left the transaction hash at {}; before {} after {}",
                path.join("."),
                hx(&real_new.0),
                hx(&cur_bytes),
                hx(&nbytes)
            );
        }
        vensure!(
            real_new.1 != real_old.1,
            format!("txhash:witness-hash-does-not-commit-to:{field}"),
            "changing {} left the witness hash at {}",
            path.join("."),
            hx(&real_new.1)
        );
        let _ = cur_want;
        cur = next;
        cur_bytes = nbytes;
        cur_want = nwant;
        cur_view = nviews[3].1.clone();
    }
    Ok(())
}

// ------------------------------------------------------------------------------------------
// sub-property "block"
// ------------------------------------------------------------------------------------------

#[derive(Clone, Debug, Serialize, Deserialize)]
pub struct BlockCase {
    pub tape: Vec<u8>,
    pub with_extension: bool,
    pub route: u8,
    pub muts: Vec<(u16, u8, u8)>,
}

fn block_strategy() -> impl Strategy<Value = BlockCase> {
    (
        prop_oneof![
            1 => proptest::collection::vec(any::<u8>(), 0..64),
            3 => proptest::collection::vec(any::<u8>(), 200..2500),
            3 => proptest::collection::vec(prop_oneof![3 => 100u8..=249, 1 => any::<u8>()], 200..2000),
        ],
        any::<bool>(),
        any::<u8>(),
        proptest::collection::vec((any::<u16>(), any::<u8>(), any::<u8>()), 0..4),
    )
        .prop_map(|(tape, with_extension, route, muts)| BlockCase { tape, with_extension, route, muts })
}

/// Block value of the case: a BlockV1 tree, or a Block tree (extension dropped)
fn block_val(s: &Schema, c: &BlockCase) -> (&'static str, Val) {
    let mut v = generate("BlockV1", &c.tape);
    normalize(s, "BlockV1", &mut v, true);
    if c.with_extension {
        ("BlockV1", v)
    } else {
        v.seq_mut().truncate(4);
        ("Block", v)
    }
}

fn packed_block(s: &Schema, ty: &str, v: &Val) -> Result<packed::Block, String> {
    let bytes = s.encode(ty, v);
    if ty == "BlockV1" {
        packed::BlockV1::from_slice(&bytes).map(|b| b.as_v0()).map_err(|e| e.to_string())
    } else {
        packed::Block::from_slice(&bytes).map_err(|e| e.to_string())
    }
}

fn check_block_view(what: &str, s: &Schema, ty: &str, want_val: &Val, v: &core::BlockView) -> Verdict {
    let bytes = s.encode(ty, want_val);
    let x = block_expect(s, ty, want_val);
    vensure!(
        v.data().as_slice() == bytes,
        format!("block:{what}:data-differs"),
        "{what}: data {} but expected {}",
        hx(v.data().as_slice()),
        hx(&bytes)
    );
    vensure!(
        h32(&v.hash()) == x.header_hash,
        format!("block:{what}:cached-hash-differs-from-ckbhash(header)"),
        "{what}: hash() = {} but ckbhash(header) = {}",
        hx(v.hash().as_slice()),
        hx(&x.header_hash)
    );
    let txh: Vec<H> = v.tx_hashes().iter().map(h32).collect();
    let wh: Vec<H> = v.tx_witness_hashes().iter().map(h32).collect();
    let uh: Vec<H> = v.uncle_hashes().into_iter().map(|h| h32(&h)).collect();
    vensure!(txh == x.tx_hashes, format!("block:{what}:cached-tx-hashes-differ"), "{what}: tx_hashes {:?} want {:?}", txh.iter().map(|h| hx(h)).collect::<Vec<_>>(), x.tx_hashes.iter().map(|h| hx(h)).collect::<Vec<_>>());
    vensure!(wh == x.witness_hashes, format!("block:{what}:cached-tx-witness-hashes-differ"), "{what}: tx_witness_hashes differ from ckbhash(tx) of each transaction");
    vensure!(uh == x.uncle_hashes, format!("block:{what}:cached-uncle-hashes-differ"), "{what}: uncle_hashes differ from ckbhash(header) of each uncle");
    vensure!(
        h32(&v.calc_transactions_root()) == x.transactions_root,
        format!("block:{what}:calc_transactions_root-differs-from-definition"),
        "{what}: calc_transactions_root {} want {}",
        hx(v.calc_transactions_root().as_slice()),
        hx(&x.transactions_root)
    );
    vensure!(
        h32(&v.calc_proposals_hash()) == x.proposals_hash,
        format!("block:{what}:calc_proposals_hash-differs-from-definition"),
        "{what}: calc_proposals_hash {} want {}",
        hx(v.calc_proposals_hash().as_slice()),
        hx(&x.proposals_hash)
    );
    let eh = v.calc_extra_hash();
    vensure!(
        h32(&eh.extra_hash()) == x.extra_hash
            && h32(&eh.uncles_hash()) == x.uncles_hash
            && eh.extension_hash().map(|h| h32(&h)) == x.extension_hash
            && h32(&v.calc_uncles_hash()) == x.uncles_hash
            && v.calc_extension_hash().map(|h| h32(&h)) == x.extension_hash,
        format!("block:{what}:calc_extra_hash-differs-from-definition"),
        "{what}: calc_extra_hash {} want extra {} uncles {} extension {:?}",
        eh,
        hx(&x.extra_hash),
        hx(&x.uncles_hash),
        x.extension_hash.map(|h| hx(&h))
    );
    // views handed out by the block view carry the same caches
    for (i, tv) in v.transactions().iter().enumerate() {
        vensure!(
            h32(&tv.hash()) == x.tx_hashes[i] && h32(&tv.witness_hash()) == x.witness_hashes[i],
            format!("block:{what}:transaction-view-hashes-differ"),
            "{what}: transactions()[{i}] carries wrong hashes"
        );
    }
    for (i, uv) in v.uncles().into_iter().enumerate() {
        vensure!(
            h32(&uv.hash()) == x.uncle_hashes[i],
            format!("block:{what}:uncle-view-hash-differs"),
            "{what}: uncles()[{i}] carries a wrong hash"
        );
    }
    // accessors by index hand out the same data and the same caches as the list accessors
    let txs = v.transactions();
    for i in 0..=txs.len() {
        match (v.transaction(i), txs.get(i)) {
            (None, None) => {}
            (Some(t), Some(l)) => {
                vensure!(
                    t.data().as_slice() == l.data().as_slice()
                        && h32(&t.hash()) == x.tx_hashes[i]
                        && h32(&t.witness_hash()) == x.witness_hashes[i],
                    format!("block:{what}:transaction(i)-differs-from-transactions()[i]"),
                    "{what}: transaction({i}) hash {} witness_hash {} but ckbhash(raw) {} ckbhash(tx) {}",
                    hx(t.hash().as_slice()),
                    hx(t.witness_hash().as_slice()),
                    hx(&x.tx_hashes[i]),
                    hx(&x.witness_hashes[i])
                );
                let outs = l.data().raw().outputs();
                for oi in 0..=outs.len() {
                    vensure!(
                        v.output(i, oi).map(|o| o.as_slice().to_vec()) == outs.get(oi).map(|o| o.as_slice().to_vec())
                            && l.output(oi).map(|o| o.as_slice().to_vec()) == outs.get(oi).map(|o| o.as_slice().to_vec()),
                        format!("block:{what}:output(tx,i)-differs"),
                        "{what}: output({i}, {oi}) is not output {oi} of transaction {i}"
                    );
                }
            }
            (a, b) => vfail!(
                format!("block:{what}:transaction(i)-presence-differs"),
                "{what}: transaction({i}) is_some={} but transactions() has {} entries",
                a.is_some(),
                if b.is_some() { "more" } else { "fewer" }
            ),
        }
    }
    vensure!(v.output(txs.len(), 0).is_none(), format!("block:{what}:output(tx,i)-differs"), "{what}: output of a transaction past the end");
    let uncles = v.uncles();
    let n_uncles = uncles.data().len();
    for i in 0..=n_uncles {
        match uncles.get(i) {
            None => vensure!(i == n_uncles, format!("block:{what}:uncles.get(i)-differs"), "{what}: uncles().get({i}) is None, {n_uncles} uncles"),
            Some(u) => {
                vensure!(
                    i < n_uncles
                        && h32(&u.hash()) == x.uncle_hashes[i]
                        && u.data().as_slice() == v.data().uncles().get(i).map(|d| d.as_slice().to_vec()).unwrap_or_default().as_slice()
                        && h32(&u.header().hash()) == x.uncle_hashes[i],
                    format!("block:{what}:uncles.get(i)-differs"),
                    "{what}: uncles().get({i}) carries hash {} want {:?}",
                    hx(u.hash().as_slice()),
                    x.uncle_hashes.get(i).map(|h| hx(h))
                );
            }
        }
    }
    {
        let au = v.as_uncle();
        vensure!(
            h32(&au.hash()) == x.header_hash
                && au.data().header().as_slice() == v.data().header().as_slice()
                && au.data().proposals().as_slice() == v.data().proposals().as_slice(),
            format!("block:{what}:as_uncle-differs"),
            "{what}: as_uncle() does not carry the block's header, proposals and hash"
        );
        let mut want_ids: std::collections::BTreeSet<Vec<u8>> = v.data().proposals().into_iter().map(|p| p.as_slice().to_vec()).collect();
        for u in v.data().uncles().into_iter() {
            want_ids.extend(u.proposals().into_iter().map(|p| p.as_slice().to_vec()));
        }
        let got_ids: std::collections::BTreeSet<Vec<u8>> = v.union_proposal_ids().into_iter().map(|p| p.as_slice().to_vec()).collect();
        vensure!(got_ids == want_ids, format!("block:{what}:union_proposal_ids-differs"), "{what}: union_proposal_ids() is not the union of the block's and its uncles' proposals");
    }
    vensure!(
        h32(&v.header().hash()) == x.header_hash && v.header().data().as_slice() == s.encode("Header", fld(s, ty, want_val, "header")),
        format!("block:{what}:header-view-differs"),
        "{what}: header() view differs"
    );
    Ok(())
}

/// all builder paths; each entry: (name, view, header-reset?)
fn block_views(s: &Schema, ty: &str, val: &Val, r: u8, base: Option<&core::BlockView>) -> Result<Vec<(&'static str, core::BlockView, bool)>, String> {
    let p = packed_block(s, ty, val)?;
    let mut out = vec![];
    out.push(("into_view_without_reset_header", p.clone().into_view_without_reset_header(), false));
    out.push(("into_view", p.clone().into_view(), true));
    out.push(("packed.as_advanced_builder.build", p.as_advanced_builder().build(), true));
    out.push(("packed.as_advanced_builder.build_unchecked", p.as_advanced_builder().build_unchecked(), false));
    let v0 = p.clone().into_view_without_reset_header();
    out.push(("view.as_advanced_builder.build", v0.as_advanced_builder().build(), true));
    out.push(("view.as_advanced_builder.build_unchecked", v0.as_advanced_builder().build_unchecked(), false));
    // new_unchecked from component views
    let header = t::mk_header(s, fld(s, ty, val, "header"), r).into_view();
    let uncles_p = t::mk_uncle_vec(s, fld(s, ty, val, "uncles"), r);
    let hashes: Vec<packed::Byte32> = uncles_p.clone().into_iter().map(|u| u.calc_header_hash()).collect();
    let uv: core::UncleBlockVecView =
        packed::UncleBlockVecView::new_builder().data(uncles_p).hashes(hashes).build().unpack();
    let body: Vec<core::TransactionView> =
        fld(s, ty, val, "transactions").seq().iter().map(|x| t::mk_tx(s, x, r).into_view()).collect();
    let props = t::mk_short_id_vec(fld(s, ty, val, "proposals"), r);
    if ty == "BlockV1" {
        let ext = t::mk_bytes(fld(s, ty, val, "extension"), r);
        out.push(("new_unchecked_with_extension", core::BlockView::new_unchecked_with_extension(header.clone(), uv.clone(), body.clone(), props.clone(), ext), false));
    } else {
        out.push(("new_unchecked", core::BlockView::new_unchecked(header.clone(), uv.clone(), body.clone(), props.clone()), false));
    }
    // advanced builder fed field by field, starting from another view when given
    let b = match base {
        Some(v) => v.as_advanced_builder(),
        None => core::BlockView::new_advanced_builder(),
    };
    let uncle_views: Vec<core::UncleBlockView> = uv.clone().into_iter().collect();
    let ext = if ty == "BlockV1" { Some(t::mk_bytes(fld(s, ty, val, "extension"), r)) } else { None };
    let built = b
        .header(header)
        .set_uncles(uncle_views)
        .set_transactions(body)
        .set_proposals(props.into_iter().collect())
        .extension(ext)
        .build();
    out.push((if base.is_some() { "other-view.as_advanced_builder.set_*.build" } else { "new_advanced_builder.set_*.build" }, built, true));
    Ok(out)
}

fn prop_block(c: &BlockCase, st: &mut Stats) -> Verdict {
    let w = world();
    let s = &w.schema;
    let (ty, val) = block_val(s, c);
    let bytes = s.encode(ty, &val);
    st.label(if c.with_extension { "block:with-extension" } else { "block:without-extension" });
    let ntx = fld(s, ty, &val, "transactions").seq().len();
    let nun = fld(s, ty, &val, "uncles").seq().len();
    st.label(match ntx {
        0 => "block:txs=0",
        1 => "block:txs=1",
        2..=3 => "block:txs=2-3",
        _ => "block:txs>=4",
    });
    if nun > 0 {
        st.label("block:has-uncles");
    }
    if !fld(s, ty, &val, "proposals").seq().is_empty() {
        st.label("block:has-proposals");
    }
    if s.shape(ty, &val).nondefault_deep > 0 {
        note_nontrivial(st, &("block", &bytes, &c.muts));
    }
    let reset = with_reset_header(s, ty, &val);
    // packed-level calculators
    let p = match packed_block(s, ty, &val) {
        Ok(p) => p,
        Err(e) => vfail!("block:canonical-rejected", "{e}; {}", hx(&bytes)),
    };
    let x = block_expect(s, ty, &val);
    let real_txh: Vec<H> = p.calc_tx_hashes().iter().map(h32).collect();
    let real_wh: Vec<H> = p.calc_tx_witness_hashes().iter().map(h32).collect();
    vensure!(
        real_txh == x.tx_hashes && real_wh == x.witness_hashes,
        "block:packed-calc-tx-hashes-differ-from-definition",
        "calc_tx_hashes / calc_tx_witness_hashes differ from ckbhash(raw) / ckbhash(tx)"
    );
    vensure!(
        h32(&p.calc_header_hash()) == x.header_hash
            && h32(&p.calc_proposals_hash()) == x.proposals_hash
            && h32(&p.calc_uncles_hash()) == x.uncles_hash
            && p.calc_extension_hash().map(|h| h32(&h)) == x.extension_hash
            && h32(&p.calc_extra_hash().extra_hash()) == x.extra_hash,
        "block:packed-calc-hashes-differ-from-definition",
        "packed::Block calc_* differ from the definitions for {}",
        hx(&bytes)
    );
    // serialized_size.rs: "the serialized size of Block without uncle proposals"
    let mut stripped = val.clone();
    for u in fld_mut(s, ty, &mut stripped, "uncles").seq_mut() {
        *fld_mut(s, "UncleBlock", u, "proposals") = Val::Seq(vec![]);
    }
    let want_size = s.encode(ty, &stripped).len();
    let got_size = guarded("serialized_size_without_uncle_proposals", ty, || p.serialized_size_without_uncle_proposals())?;
    vensure!(
        got_size == want_size,
        "block:serialized_size_without_uncle_proposals-differs",
        "serialized_size_without_uncle_proposals = {got_size}, the block without uncle proposals encodes to {want_size} bytes"
    );
    for (i, tx) in p.transactions().into_iter().enumerate() {
        // a transaction in a block costs its encoding plus one offset word of the TransactionVec
        let tl = s.encode("Transaction", &fld(s, ty, &val, "transactions").seq()[i]).len();
        vensure!(
            tx.serialized_size_in_block() == tl + 4,
            "block:serialized_size_in_block-differs",
            "transaction {i}: serialized_size_in_block {} != {} + 4",
            tx.serialized_size_in_block(),
            tl
        );
    }
    let reset_real = guarded("reset_header", ty, || p.clone().reset_header())?;
    vensure!(
        reset_real.as_slice() == s.encode(ty, &reset),
        "block:reset_header-differs-from-definition",
        "reset_header gives {} want {}",
        hx(reset_real.as_slice()),
        hx(&s.encode(ty, &reset))
    );
    let views = match guarded("block view builders", ty, || block_views(s, ty, &val, c.route, None))? {
        Ok(v) => v,
        Err(e) => vfail!("block:canonical-rejected", "{e}"),
    };
    for (what, v, is_reset) in &views {
        check_block_view(what, s, ty, if *is_reset { &reset } else { &val }, v)?;
    }
    // mutations of the body: roots must follow
    let mut cur = reset.clone();
    let mut cur_view = views[1].1.clone();
    for (sel, how, arg) in &c.muts {
        let mut next = cur.clone();
        // mutate everything except the header (field 0): select inside a body-only copy
        let mut body = Val::Seq(next.seq()[1..].to_vec());
        let body_ty = BodyTy(ty);
        let path = match body_ty.mutate(s, &mut body, *sel, *how, *arg) {
            Some(p) => p,
            None => {
                st.label("block:mutation-noop");
                continue;
            }
        };
        for (i, b) in body.seq().iter().enumerate() {
            next.seq_mut()[i + 1] = b.clone();
        }
        if next == cur {
            st.label("block:mutation-noop");
            continue;
        }
        st.label(&format!("block:mutated-{}", path[0]));
        let next_reset = with_reset_header(s, ty, &next);
        let nviews = match guarded("block view builders", ty, || block_views(s, ty, &next, c.route, Some(&cur_view)))? {
            Ok(v) => v,
            Err(e) => vfail!("block:canonical-rejected", "{e}"),
        };
        for (what, v, is_reset) in &nviews {
            check_block_view(what, s, ty, if *is_reset { &next_reset } else { &next }, v)?;
        }
        let newv = &nviews.last().unwrap().1;
        let (o, n) = (cur_view.data().header().raw(), newv.data().header().raw());
        let field = path[0].as_str();
        let uncle_header_or_set = field == "uncles" && (path.len() <= 2 || path.get(2).map(|p| p == "header").unwrap_or(false));
        match field {
            "transactions" => {
                vensure!(
                    o.transactions_root().as_slice() != n.transactions_root().as_slice(),
                    format!("block:transactions_root-does-not-bind:{}", path.iter().filter(|p| !p.starts_with('[')).cloned().collect::<Vec<_>>().join(".")),
                    "mutating {} left transactions_root at {}",
                    path.join("."),
                    hx(n.transactions_root().as_slice())
                );
                vensure!(
                    o.proposals_hash().as_slice() == n.proposals_hash().as_slice() && o.extra_hash().as_slice() == n.extra_hash().as_slice(),
                    "block:unrelated-root-moved",
                    "mutating {} moved proposals_hash/extra_hash",
                    path.join(".")
                );
            }
            "proposals" => vensure!(
                o.proposals_hash().as_slice() != n.proposals_hash().as_slice(),
                "block:proposals_hash-does-not-bind-proposals",
                "mutating {} left proposals_hash at {}",
                path.join("."),
                hx(n.proposals_hash().as_slice())
            ),
            "extension" => vensure!(
                o.extra_hash().as_slice() != n.extra_hash().as_slice(),
                "block:extra_hash-does-not-bind-extension",
                "mutating {} left extra_hash at {}",
                path.join("."),
                hx(n.extra_hash().as_slice())
            ),
            "uncles" if uncle_header_or_set => vensure!(
                o.extra_hash().as_slice() != n.extra_hash().as_slice(),
                "block:extra_hash-does-not-bind-uncles",
                "mutating {} left extra_hash at {}",
                path.join("."),
                hx(n.extra_hash().as_slice())
            ),
            _ => {}
        }
        cur = next_reset;
        cur_view = newv.clone();
    }
    Ok(())
}

/// the body of a block (everything but the header) as a pseudo table for `mutate_val`
struct BodyTy(&'static str);

impl BodyTy {
    fn mutate(&self, s: &Schema, body: &mut Val, sel: u16, how: u8, arg: u8) -> Option<Vec<String>> {
        // pick the field first (monotone), then mutate inside it
        let fields: Vec<(String, String)> = match s.kind(self.0) {
            Kind::Table { fields } => fields[1..].to_vec(),
            _ => return None,
        };
        let k = pick_idx((how as u32) << 8, fields.len());
        let (fname, fty) = &fields[k];
        let mut p = mutate_val(s, fty, &mut body.seq_mut()[k], sel, how / 4, arg)?;
        p.insert(0, fname.clone());
        Some(p)
    }
}

// ------------------------------------------------------------------------------------------
// sub-property "storage": packed storage records <-> core types
// ------------------------------------------------------------------------------------------

#[derive(Clone, Debug, Serialize, Deserialize)]
pub struct StorageCase {
    pub ty: String,
    pub tape: Vec<u8>,
}

const STORAGE: &[&str] = &["HeaderView", "TransactionView", "UncleBlockVecView", "BlockExt", "BlockExtV1", "EpochExt", "TransactionInfo"];

fn storage_strategy() -> impl Strategy<Value = StorageCase> {
    (0..STORAGE.len(), tape_strategy()).prop_map(|(i, tape)| StorageCase { ty: STORAGE[i].to_string(), tape })
}

fn prop_storage(c: &StorageCase, st: &mut Stats) -> Verdict {
    let w = world();
    let s = &w.schema;
    let ty = c.ty.as_str();
    st.label(&format!("storage:{ty}"));
    let mut val = generate(ty, &c.tape);
    normalize(s, ty, &mut val, false);
    let bytes = s.encode(ty, &val);
    if s.shape(ty, &val).nondefault_deep > 0 {
        note_nontrivial(st, &("storage", ty, &bytes));
    }
    macro_rules! rt {
        ($t:ident, $core:ty) => {{
            let p = match packed::$t::from_slice(&bytes) {
                Ok(p) => p,
                Err(e) => vfail!(format!("storage:canonical-rejected:{ty}"), "{e}"),
            };
            let c: $core = guarded("Unpack", ty, || p.unpack())?;
            let back: packed::$t = guarded("Pack", ty, || c.pack())?;
            back.as_slice().to_vec()
        }};
    }
    let (back, want) = match ty {
        "HeaderView" => (rt!(HeaderView, core::HeaderView), bytes.clone()),
        "TransactionView" => (rt!(TransactionView, core::TransactionView), bytes.clone()),
        "UncleBlockVecView" => (rt!(UncleBlockVecView, core::UncleBlockVecView), bytes.clone()),
        "EpochExt" => (rt!(EpochExt, core::EpochExt), bytes.clone()),
        "TransactionInfo" => (rt!(TransactionInfo, core::TransactionInfo), bytes.clone()),
        "BlockExtV1" => (rt!(BlockExtV1, core::BlockExt), bytes.clone()),
        "BlockExt" => {
            // old record -> core -> new record: same fields, cycles / txs_sizes absent
            let p = match packed::BlockExt::from_slice(&bytes) {
                Ok(p) => p,
                Err(e) => vfail!("storage:canonical-rejected:BlockExt", "{e}"),
            };
            let c: core::BlockExt = guarded("Unpack", ty, || p.unpack())?;
            let back: packed::BlockExtV1 = guarded("Pack", ty, || c.pack())?;
            let mut v1 = val.clone();
            v1.seq_mut().push(Val::None);
            v1.seq_mut().push(Val::None);
            (back.as_slice().to_vec(), s.encode("BlockExtV1", &v1))
        }
        other => return Err(Violation::new("replay-format", format!("no storage route for {other}"))),
    };
    vensure!(
        back == want,
        format!("storage:packed-core-packed-not-identity:{ty}"),
        "{ty}: unpack -> pack gives {} instead of {}",
        hx(&back),
        hx(&want)
    );
    Ok(())
}

pub fn run(ctx: &Ctx) {
    run_sub(ctx, "txhash", ctx.cases(240_000, 3_600_000), tx_strategy(), prop_tx);
    run_sub(ctx, "block", ctx.cases(96_000, 1_440_000), block_strategy(), prop_block);
    run_sub(ctx, "storage", ctx.cases(240_000, 3_600_000), storage_strategy(), prop_storage);
}

/// Not part of C15 (no generated search): executable reproductions of two observations that
/// belong to C16 ("bytes from peers never crash the node"), kept so they can be replayed.
fn c16_probe(v: &Value) -> Verdict {
    let w = world();
    let s = &w.schema;
    match v.get("kind").and_then(|k| k.as_str()).unwrap_or("") {
        "sendblock-garbage-extension" => {
            // a SendBlock whose block carries ONE extra field that is not a valid `Bytes`
            let mut block = s.default_val("Block");
            s.add_extras(&mut block, &[], vec![vec![0xaa, 0xbb, 0xcc]]);
            let msg = Val::Union(3, Box::new(Val::Seq(vec![block])));
            let bytes = s.encode("SyncMessage", &msg);
            let reader = match packed::SyncMessageReader::from_compatible_slice(&bytes) {
                Ok(r) => r,
                Err(e) => vfail!("c16probe:not-accepted", "{e}"),
            };
            let passes_guard = match reader.to_enum() {
                packed::SyncMessageUnionReader::SendBlock(r) => !(r.has_extra_fields() || r.block().count_extra_fields() > 1),
                _ => false,
            };
            vensure!(passes_guard, "c16probe:guard-rejects", "the synchronizer's guard rejects the message");
            let r = std::panic::catch_unwind(|| match packed::SyncMessageReader::from_compatible_slice(&bytes).unwrap().to_enum() {
                packed::SyncMessageUnionReader::SendBlock(r) => r.block().to_entity().into_view().hash(),
                _ => unreachable!(),
            });
            vensure!(
                r.is_ok(),
                "c16probe:sendblock-extension-unwrap-panics",
                "SyncMessage {} passes from_compatible_slice and the extra-field guard of Synchronizer::received, then block().to_entity().into_view() (BlockProcess) panics in Block::extension(): BytesReader::from_slice(extra field).unwrap()",
                hx(&bytes)
            );
            Ok(())
        }
        "bool-out-of-range" => {
            let msg = Val::Union(0, Box::new(Val::Seq(vec![Val::Raw(vec![2])])));
            let bytes = s.encode("LightClientMessage", &msg);
            let reader = match packed::LightClientMessageReader::from_slice(&bytes) {
                Ok(r) => r,
                Err(e) => vfail!("c16probe:not-accepted", "{e}"),
            };
            let _ = reader;
            let r = std::panic::catch_unwind(|| match packed::LightClientMessageReader::from_slice(&bytes).unwrap().to_enum() {
                packed::LightClientMessageUnionReader::GetLastState(r) => {
                    let b: bool = r.subscribe().into();
                    b
                }
                _ => unreachable!(),
            });
            vensure!(
                r.is_ok(),
                "c16probe:bool-unreachable-panics",
                "LightClientMessage {} (GetLastState.subscribe = 0x02) passes strict from_slice; GetLastStateProcess::execute does `self.message.subscribe().into()` which hits unreachable!() in From<BoolReader> for bool",
                hx(&bytes)
            );
            Ok(())
        }
        other => Err(Violation::new("replay-format", format!("unknown probe {other}"))),
    }
}

pub fn replay(sub: &str, v: &Value, st: &mut Stats) -> Option<Verdict> {
    match sub {
        "c16probe" => Some(c16_probe(v)),
        "txhash" => Some(from_case(v).and_then(|c| prop_tx(&c, st))),
        "block" => Some(from_case(v).and_then(|c| prop_block(&c, st))),
        "storage" => Some(from_case(v).and_then(|c| prop_storage(&c, st))),
        _ => None,
    }
}
