use crate::common::CheckSpec;

pub mod c01;
pub mod c04;
pub mod c02;
pub mod c03;
pub mod c05;
pub mod c06;
pub mod c07;
mod c07_tree;
pub mod c08;
pub mod c09;
pub mod c10;
pub mod c11;
pub mod c12;
pub mod c13;
pub mod c14;
pub mod c14_syscell;
pub mod c15;
mod c15_hash;
mod c15_json;
mod c15_typed;
pub mod c16;
pub mod c17;
pub mod c18;
pub mod c19;
pub mod c20;
pub mod smoke;

pub fn all() -> Vec<CheckSpec> {
    vec![
        c01::spec(),
        c04::spec(),
        c02::spec(),
        c03::spec(),
        c05::spec(),
        c06::spec(),
        c07::spec(),
        c08::spec(),
        c09::spec(),
        c10::spec(),
        c11::spec(),
        c12::spec(),
        c13::spec(),
        c14::spec(),
        c15::spec(),
        c16::spec(),
        c17::spec(),
        c18::spec(),
        c19::spec(),
        c20::spec(),
        smoke::spec(),
    ]
}

pub fn find(id: &str) -> Option<CheckSpec> {
    all().into_iter().find(|s| s.id == id)
}
