use crate::common::CheckSpec;

pub mod c09;

pub fn all() -> Vec<CheckSpec> {
    vec![c09::spec()]
}

pub fn find(id: &str) -> Option<CheckSpec> {
    all().into_iter().find(|s| s.id == id)
}
