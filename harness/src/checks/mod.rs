use crate::common::CheckSpec;

pub mod c01;
pub mod c09;
pub mod smoke;

pub fn all() -> Vec<CheckSpec> {
    vec![c01::spec(), c09::spec(), smoke::spec()]
}

pub fn find(id: &str) -> Option<CheckSpec> {
    all().into_iter().find(|s| s.id == id)
}
