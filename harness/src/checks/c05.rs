//! C05 — script verdict and cycle count do not depend on how execution is chunked.
//!
//! Programs: repository test binaries driven by generated data (spawn_dag, spawn_cases,
//! spawn_fuzzing, exec/spawn_configurable, load_code…) and programs generated as C, compiled with
//! clang for RV64 at check time.  Schedules: cycle-limited chunks through
//! resumable_verify/resume_from_state, `complete` from intermediate states, states cloned and
//! rebuilt from their public fields, signalled runs (Suspend/Resume/Stop), budgets around the
//! exact cost; exhaustive split-point sweeps for small programs.
//! Oracle (metamorphic): baseline = verify(u64::MAX).
use crate::c05gen::*;
use crate::common::*;
use ckb_script::types::{DebugPrinter, FullSuspendedState, Machine, SgData, VmContext, VmId};
use ckb_script::{
    ChunkCommand, TransactionScriptsVerifier, TransactionState, VerifyResult, VmState,
    generate_ckb_syscalls,
};
use ckb_vm::{
    DefaultMachineRunner, Error as VMError, Register, SupportMachine, Syscalls, registers::A7,
};
use proptest::prelude::*;
use serde::{Deserialize, Serialize};
use serde_json::{Value, json};
use std::sync::Arc;
use std::sync::atomic::{AtomicBool, Ordering};

pub fn spec() -> CheckSpec {
    CheckSpec {
        id: "C05",
        level: "exploration",
        rule: "a case is one (transaction, schedule) pair. transaction = prebuilt repository binaries driven by generated data (spawn_dag process DAGs encoded per spawn_dag.mol, spawn_cases 1..19, spawn_fuzzing command bytes, exec/spawn_configurable from every data location, load_code libraries, current_cycles/vm_version/exec/spawn chains) or clang-compiled generated C programs (bounded loops, loads/stores, 12 load syscalls with partial offsets/lengths, load_cell_data_as_code, current_cycles, vm_version, exec, spawn/pipe/read/write/wait/close/inherited_fd/process_id trees of up to 8 processes) used as lock and type scripts in 1..n script groups (optionally a TYPE_ID group, lazily loaded cells, by-type-hash references) under VM 0/1/2. schedule = chunk-limit sequence through resumable_verify/resume_from_state (optionally with debug-pause suspensions, states cloned and rebuilt from public fields, complete(max) from every intermediate state), complete() with a budget around the cost, signalled run under Suspend/Resume/Stop commands with a budget around the cost, plus budget runs (cost-1, cost, cost+1, 0, cost/2) of verify; baseline verify(u64::MAX). families: prebuilt, offset-load (exec / spawn of a programme at a non-zero offset of a witness under every flag of the configurable caller, chunked with pauses and rebuilt states), generated, tiny-sweep (every single split point when cost<3000, with resume, complete(max|cost|cost-1) at each), pair-sweep (every pair of split points when cost<400: ecall-free programs ending in a VM fault), signal-long (10^6..10^7-cycle programs, millisecond command delays), signal-stop (non-terminating programs, commands ending with Stop). non-trivial = the schedule suspended at least once while >=2 VMs existed or inside a syscall-heavy program (>=8 dynamic syscalls), or the case is an exhaustive split-point sweep, or a signalled run of a non-terminating program with a Suspend; distinct = hash of (transaction descriptor, schedule)",
        assumptions: &[
            "limits passed to resumable_verify/resume_from_state are per-call limits (as the scheduler implements and the repository tests use them); a call that makes no progress is repeated with a doubled limit",
            "a debug-pause syscall (number 2178, as in the repository's own tests) is added by the harness through the public new_with_generator API to obtain suspensions at program-chosen points",
            "signal timing is real time; the oracle only demands timing-independent facts (never a wrong success, Stop => Interrupts or the baseline result); the only timed clause is the liveness of Stop on a non-terminating program: a run that goes on for more than 400 ms after the final Stop was published and ends by exhausting >= 6*10^8 cycles",
            "failing baselines: the smallest budget at which verify reports the failure rather than the cycle limit (binary search) plays the role of the cost",
            "debug assertions are on (profile of the harness, as in the repository's own test profile); findings that exist only because of a debug_assert carry debug-only in their signature",
        ],
        workers: |_| 12,
        watchdog_s: |t| t.pick(1200, 5400),
        run,
        replay,
    }
}

// ---------------------------------------------------------------------------------------------
// verifier plumbing
// ---------------------------------------------------------------------------------------------

#[derive(Clone)]
pub struct PauseCtx {
    printer: DebugPrinter,
    skip: Arc<AtomicBool>,
}

struct PauseSys {
    skip: Arc<AtomicBool>,
}

impl<Mac: SupportMachine> Syscalls<Mac> for PauseSys {
    fn initialize(&mut self, _machine: &mut Mac) -> Result<(), VMError> {
        Ok(())
    }
    fn ecall(&mut self, machine: &mut Mac) -> Result<bool, VMError> {
        if machine.registers()[A7].to_u64() != 2178 {
            return Ok(false);
        }
        if self.skip.load(Ordering::SeqCst) {
            return Ok(true);
        }
        Err(VMError::Pause)
    }
}

fn gen_syscalls<M: SupportMachine>(
    vm_id: &VmId,
    sg_data: &SgData<MockLoader>,
    vm_context: &VmContext<MockLoader>,
    ctx: &PauseCtx,
) -> Vec<Box<dyn Syscalls<M>>> {
    let mut v = generate_ckb_syscalls(vm_id, sg_data, vm_context, &ctx.printer);
    v.push(Box::new(PauseSys { skip: Arc::clone(&ctx.skip) }));
    v
}

type Verifier = TransactionScriptsVerifier<MockLoader, PauseCtx, Machine>;

struct Env {
    v: Verifier,
    skip: Arc<AtomicBool>,
}

fn make_env(b: &Built) -> Env {
    let skip = Arc::new(AtomicBool::new(true));
    let ctx = PauseCtx {
        printer: Arc::new(|_h, _m| {}),
        skip: Arc::clone(&skip),
    };
    let v: Verifier = TransactionScriptsVerifier::new_with_generator(
        Arc::clone(&b.asm.rtx),
        b.asm.loader.clone(),
        consensus_cached(),
        tx_env(b.level),
        gen_syscalls::<<Machine as DefaultMachineRunner>::Inner>,
        ctx,
    );
    Env { v, skip }
}

fn consensus_cached() -> Arc<ckb_chain_spec::consensus::Consensus> {
    thread_local! {
        static C: Arc<ckb_chain_spec::consensus::Consensus> = consensus();
    }
    C.with(Arc::clone)
}

#[derive(Clone, Debug, PartialEq, Eq)]
enum Outcome {
    Ok(u64),
    Err(String),
}

fn norm_err(e: &ckb_error::Error) -> String {
    let s = e.to_string();
    // the limit quoted by ExceededMaximumCycles legitimately differs between runs
    if let Some(p) = s.find("expect cycles <= ") {
        let head = &s[..p + "expect cycles <= ".len()];
        let tail: String = s[p + "expect cycles <= ".len()..]
            .chars()
            .skip_while(|c| c.is_ascii_digit())
            .collect();
        format!("{head}_{tail}")
    } else {
        s
    }
}

impl Outcome {
    fn of(r: Result<u64, ckb_error::Error>) -> Outcome {
        match r {
            Ok(c) => Outcome::Ok(c),
            Err(e) => Outcome::Err(norm_err(&e)),
        }
    }
    fn is_exceeded(&self) -> bool {
        matches!(self, Outcome::Err(s) if s.contains("ExceededMaximumCycles"))
    }
    fn is_interrupt(&self) -> bool {
        matches!(self, Outcome::Err(s) if s.contains("VM Interrupts"))
    }
    /// short structural tag of an outcome, used in signatures
    fn tag(&self) -> String {
        match self {
            Outcome::Ok(_) => "ok".into(),
            Outcome::Err(s) => {
                if s.contains("ExceededMaximumCycles") {
                    "exceeded-cycles".into()
                } else if s.contains("ValidationFailure") {
                    "exit-code".into()
                } else if s.contains("VM Interrupts") {
                    "interrupts".into()
                } else if let Some(p) = s.find("VM Internal Error: ") {
                    let rest = &s[p + "VM Internal Error: ".len()..];
                    let mut t = String::new();
                    for c in rest.chars().take(48) {
                        if c.is_ascii_alphanumeric() {
                            t.push(c);
                        } else if !t.ends_with('-') {
                            t.push('-');
                        }
                    }
                    let t: String = t.trim_matches('-').chars().take(40).collect();
                    format!("vm-error-{t}")
                } else {
                    "other-error".into()
                }
            }
        }
    }
    fn short(&self) -> String {
        match self {
            Outcome::Ok(c) => format!("Ok({c})"),
            Outcome::Err(s) => format!("Err({})", s.chars().take(260).collect::<String>()),
        }
    }
}

/// catches panics of the code under test: a panic is a verdict that differs from every baseline
fn guarded<T>(what: &str, f: impl FnOnce() -> T) -> Result<T, Violation> {
    match std::panic::catch_unwind(std::panic::AssertUnwindSafe(f)) {
        Ok(v) => Ok(v),
        Err(p) => {
            let msg = p
                .downcast_ref::<String>()
                .cloned()
                .or_else(|| p.downcast_ref::<&str>().map(|s| s.to_string()))
                .unwrap_or_default();
            let head: String = msg.chars().take(60).collect();
            Err(Violation::new(
                format!("panic:{}", head.replace(|c: char| c.is_ascii_digit(), "#")),
                format!("{what} panicked: {msg}"),
            ))
        }
    }
}

// ---------------------------------------------------------------------------------------------
// schedules
// ---------------------------------------------------------------------------------------------

/// (relative, v): relative => limit = cost*v/65536 (at least 1), else limit = v (at least 1)
pub type Lim = (bool, u16);

#[derive(Clone, Debug, Serialize, Deserialize, Hash)]
pub enum Budget {
    Max,
    Cost,
    CostPlus1,
    CostMinus1,
    Zero,
    /// cost * n / 256
    Frac(u8),
}

#[derive(Clone, Debug, Serialize, Deserialize, Hash)]
pub enum Sched {
    Chunks { limits: Vec<Lim>, pause: bool, rebuild: bool, complete_each: bool },
    Complete { limits: Vec<Lim>, budget: Budget },
    /// (delay in microseconds, command 0 = Suspend, 1 = Resume, 2 = Stop)
    /// `pauses`: the programme's debug-pause syscalls are live and the driver keeps publishing
    /// Resume (deterministic suspensions inside one script group, as a Suspend landing there would)
    Signal {
        cmds: Vec<(u16, u8)>,
        budget: Budget,
        #[serde(default)]
        pauses: bool,
    },
}

fn lim_value(l: &Lim, scale: u64) -> u64 {
    if l.0 {
        ((scale as u128 * l.1 as u128) >> 16).max(1) as u64
    } else {
        (l.1 as u64).max(1)
    }
}

fn budget_value(b: &Budget, cost: u64) -> u64 {
    match b {
        Budget::Max => u64::MAX,
        Budget::Cost => cost,
        Budget::CostPlus1 => cost.saturating_add(1),
        Budget::CostMinus1 => cost.saturating_sub(1),
        Budget::Zero => 0,
        Budget::Frac(n) => ((cost as u128 * *n as u128) >> 8) as u64,
    }
}

fn rebuild_state(st: &TransactionState) -> TransactionState {
    let inner = st.state.as_ref().map(|s| FullSuspendedState {
        total_cycles: s.total_cycles,
        iteration_cycles: s.iteration_cycles,
        next_vm_id: s.next_vm_id,
        next_fd_slot: s.next_fd_slot,
        vms: s.vms.iter().map(|(id, state, snap)| (*id, state.clone(), snap.clone())).collect(),
        fds: s.fds.clone(),
        inherited_fd: s.inherited_fd.clone(),
        terminated_vms: s.terminated_vms.clone(),
        instantiated_ids: s.instantiated_ids.clone(),
    });
    TransactionState::new(inner, st.current, st.current_cycles, st.limit_cycles)
}

#[derive(Default, Clone, Debug)]
struct Obs {
    suspensions: u32,
    multi_vm: u32,
    many_vm: u32,
    io_wait: u32,
    none_state: u32,
    max_vms: usize,
    /// suspended states holding a read/write that the scheduler's IO pass would have completed
    /// (matching reader+writer on one pipe, or a waiter whose other end is closed)
    unprocessed_io: u32,
}

fn has_unprocessed_io(s: &FullSuspendedState) -> bool {
    let open: std::collections::BTreeSet<u64> = s.fds.iter().map(|(f, _)| f.0).collect();
    let writers: std::collections::BTreeSet<u64> = s
        .vms
        .iter()
        .filter_map(|(_, st, _)| match st {
            VmState::WaitForWrite(w) => Some(w.fd.0),
            _ => None,
        })
        .collect();
    s.vms.iter().any(|(_, st, _)| match st {
        VmState::WaitForRead(r) => !open.contains(&(r.fd.0 ^ 1)) || writers.contains(&(r.fd.0 ^ 1)),
        VmState::WaitForWrite(w) => !open.contains(&(w.fd.0 ^ 1)),
        _ => false,
    })
}

impl Obs {
    fn see(&mut self, st: &TransactionState) {
        self.suspensions += 1;
        match &st.state {
            None => self.none_state += 1,
            Some(s) => {
                let n = s.vms.len();
                self.max_vms = self.max_vms.max(n);
                if n >= 2 {
                    self.multi_vm += 1;
                }
                if n > 4 {
                    self.many_vm += 1;
                }
                if s.vms.iter().any(|(_, st, _)| {
                    matches!(st, VmState::WaitForRead(_) | VmState::WaitForWrite(_) | VmState::Wait { .. })
                }) {
                    self.io_wait += 1;
                }
                if has_unprocessed_io(s) {
                    self.unprocessed_io += 1;
                }
            }
        }
    }
    fn class(&self) -> &'static str {
        if self.unprocessed_io > 0 {
            "state-with-unprocessed-pipe-io"
        } else if self.many_vm > 0 {
            "vms>4"
        } else if self.multi_vm > 0 {
            "vms>=2"
        } else if self.none_state > 0 {
            "type-id"
        } else if self.suspensions > 0 {
            "single-vm"
        } else {
            "no-suspension"
        }
    }
}

fn progress_key(st: &TransactionState) -> (usize, u64, u64) {
    (
        st.current,
        st.current_cycles,
        st.state.as_ref().map(|s| s.total_cycles).unwrap_or(u64::MAX),
    )
}

const MAX_CHUNKS: usize = 60;

struct Checker<'a> {
    env: &'a Env,
    base: Outcome,
    /// cost for scaling relative limits (baseline cycles, or a default for failing baselines)
    scale: u64,
    known: &'a [String],
    strict: bool,
    rt: &'a tokio::runtime::Runtime,
    partial_code_load: bool,
    expect: Option<String>,
}

impl<'a> Checker<'a> {
    /// known findings are counted and tolerated so that the search goes on behind them
    fn flag(&self, st: &mut Stats, v: Violation) -> Verdict {
        let tolerated = self.known.iter().any(|k| *k == v.signature)
            && (!self.strict || self.expect.as_deref().map(|e| e != v.signature).unwrap_or(false));
        if tolerated {
            if !st.is_frozen() {
                *st.known_hits.entry(v.signature.clone()).or_insert(0) += 1;
            }
            Ok(())
        } else {
            Err(v)
        }
    }

    /// A divergence observed after a suspension whose structural trigger is one of the two
    /// state-capture triggers below gets that trigger's signature, whatever form it takes
    /// (deadlock, other cycle count, other exit code, ...); everything else keeps `default`.
    fn sig(&self, class: &str, default: String) -> String {
        if class == "state-with-unprocessed-pipe-io" {
            "resume:diverges-after-suspension-with-unprocessed-pipe-io".to_string()
        } else if (matches!(class, "vms>4" | "vms>=2" | "single-vm" | "type-id") || class.starts_with("debug-pauses:")) && self.partial_code_load {
            // (signalled runs with live debug pauses: every pause is an iteration boundary at which the
            // scheduler may suspend another VM into a snapshot, the same root cause)
            "resume:diverges-after-snapshot-of-partial-page-code-load".to_string()
        } else {
            default
        }
    }

    fn expect_base(&self, st: &mut Stats, api: &str, class: &str, got: &Outcome, ctx: &str) -> Verdict {
        if *got == self.base {
            return Ok(());
        }
        let kind = match (&self.base, got) {
            (Outcome::Ok(_), Outcome::Ok(_)) => "cycles-differ",
            (Outcome::Ok(_), Outcome::Err(_)) => "success-became-failure",
            (Outcome::Err(_), Outcome::Ok(_)) => "failure-became-success",
            (Outcome::Err(_), Outcome::Err(_)) => "error-differs",
        };
        self.flag(
            st,
            Violation::new(
                self.sig(
                    class,
                    if matches!(got, Outcome::Err(_)) {
                        format!("{api}:{kind}:{class}:{}", got.tag())
                    } else {
                        format!("{api}:{kind}:{class}")
                    },
                ),
                format!("baseline verify(u64::MAX) = {} but {api} gave {} [{ctx}]", self.base.short(), got.short()),
            ),
        )
    }

    /// chunked run; returns the observation record
    fn run_chunks(
        &self,
        st: &mut Stats,
        limits: &[Lim],
        pause: bool,
        rebuild: bool,
        complete_each: bool,
    ) -> Result<Obs, Violation> {
        let v = &self.env.v;
        self.env.skip.store(!pause, Ordering::SeqCst);
        let mut obs = Obs::default();
        let mut trace: Vec<u64> = vec![];
        let first = lim_value(&limits[0], self.scale);
        trace.push(first);
        let mut res = guarded("resumable_verify", || v.resumable_verify(first))?;
        let mut i = 0usize;
        let mut boost: u32 = 0;
        let mut prev: Option<(usize, u64, u64)> = None;
        let fin = loop {
            match res {
                Ok(VerifyResult::Completed(c)) => break Outcome::Ok(c),
                Err(e) => break Outcome::Err(norm_err(&e)),
                Ok(VerifyResult::Suspended(state)) => {
                    obs.see(&state);
                    let key = progress_key(&state);
                    if prev == Some(key) {
                        boost = (boost + 1).min(63);
                    } else {
                        boost = 0;
                    }
                    prev = Some(key);
                    let state = if rebuild { rebuild_state(&state.clone()) } else { state };
                    if i >= MAX_CHUNKS {
                        // programs that pause thousands of times: finish without further pauses
                        self.env.skip.store(true, Ordering::SeqCst);
                    }
                    if complete_each && i < 24 {
                        self.env.skip.store(true, Ordering::SeqCst);
                        let r = Outcome::of(guarded("complete", || v.complete(&state, u64::MAX))?);
                        self.env.skip.store(!pause || i >= MAX_CHUNKS, Ordering::SeqCst);
                        self.expect_base(
                            st,
                            "complete(max)",
                            obs.class(),
                            &r,
                            &format!("after chunks {trace:?}"),
                        )?;
                    }
                    i += 1;
                    let l = if i < limits.len() && i < MAX_CHUNKS {
                        lim_value(&limits[i], self.scale).saturating_mul(1u64 << boost.min(62))
                    } else if i < MAX_CHUNKS && boost < 40 && !limits.is_empty() {
                        // keep cycling through the list until the programme ends
                        lim_value(&limits[i % limits.len()], self.scale).saturating_mul(1u64 << boost.min(62))
                    } else {
                        u64::MAX
                    };
                    trace.push(l);
                    res = guarded("resume_from_state", || v.resume_from_state(&state, l))?;
                }
            }
        };
        self.env.skip.store(true, Ordering::SeqCst);
        let shown: Vec<u64> = trace.iter().copied().take(24).collect();
        self.expect_base(
            st,
            "resume",
            obs.class(),
            &fin,
            &format!("{} chunks, limits {shown:?}{}", trace.len(), if rebuild { ", state rebuilt" } else { "" }.to_string() + if pause { ", debug-pause syscall active" } else { "" }),
        )?;
        Ok(obs)
    }

    /// run some chunks, then complete(state, budget)
    fn run_complete(&self, st: &mut Stats, limits: &[Lim], budget: &Budget) -> Result<Obs, Violation> {
        let v = &self.env.v;
        self.env.skip.store(true, Ordering::SeqCst);
        let mut obs = Obs::default();
        let mut trace = vec![];
        let mut state: Option<TransactionState> = None;
        for (i, l) in limits.iter().enumerate() {
            let l = lim_value(l, self.scale);
            trace.push(l);
            let r = if i == 0 {
                guarded("resumable_verify", || v.resumable_verify(l))?
            } else {
                let s = state.as_ref().unwrap();
                guarded("resume_from_state", || v.resume_from_state(s, l))?
            };
            match r {
                Ok(VerifyResult::Suspended(s)) => {
                    obs.see(&s);
                    state = Some(s);
                }
                Ok(VerifyResult::Completed(c)) => {
                    self.expect_base(st, "resume", obs.class(), &Outcome::Ok(c), &format!("limits {trace:?}"))?;
                    return Ok(obs);
                }
                Err(e) => {
                    self.expect_base(
                        st,
                        "resume",
                        obs.class(),
                        &Outcome::Err(norm_err(&e)),
                        &format!("limits {trace:?}"),
                    )?;
                    return Ok(obs);
                }
            }
        }
        let Some(state) = state else { return Ok(obs) };
        self.check_complete(st, &state, budget, obs.class(), &format!("after chunks {trace:?}"))?;
        Ok(obs)
    }

    fn check_complete(
        &self,
        st: &mut Stats,
        state: &TransactionState,
        budget: &Budget,
        class: &str,
        ctx: &str,
    ) -> Verdict {
        let v = &self.env.v;
        match &self.base {
            Outcome::Ok(cost) => {
                let b = budget_value(budget, *cost);
                let r = Outcome::of(guarded("complete", || v.complete(state, b))?);
                if b >= *cost {
                    self.expect_base(st, "complete(budget>=cost)", class, &r, &format!("budget {b}, {ctx}"))
                } else if let Outcome::Ok(c) = r {
                    self.flag(
                        st,
                        Violation::new(
                            "complete:budget-below-cost-succeeds",
                            format!(
                                "uninterrupted cost is {cost}; complete(state, max_cycles={b}) returned Ok({c}) (state: group {}, cycles of finished groups {}, cycles already used by the suspended group {:?}) [{ctx}]",
                                state.current,
                                state.current_cycles,
                                state.state.as_ref().map(|s| s.total_cycles)
                            ),
                        ),
                    )
                } else if !r.is_exceeded() {
                    self.flag(
                        st,
                        Violation::new(
                            if matches!(&r, Outcome::Err(e) if e.contains("expect invalid cycles")) {
                                // the suspended group overran the budget, the next group notices
                                "complete:budget-below-cost-reports-invalid-cycles".to_string()
                            } else {
                                self.sig(class, format!("complete:budget-below-cost-wrong-error:{class}:{}", r.tag()))
                            },
                            format!("cost {cost}, complete(state, {b}) = {} [{ctx}]", r.short()),
                        ),
                    )
                } else {
                    Ok(())
                }
            }
            Outcome::Err(_) => {
                let r = Outcome::of(guarded("complete", || v.complete(state, u64::MAX))?);
                self.expect_base(st, "complete(max)", class, &r, ctx)
            }
        }
    }

    fn check_budgets(&self, st: &mut Stats) -> Verdict {
        let v = &self.env.v;
        self.env.skip.store(true, Ordering::SeqCst);
        let Outcome::Ok(cost) = self.base else { return Ok(()) };
        for b in [cost, cost.saturating_add(1)] {
            let r = Outcome::of(guarded("verify", || v.verify(b))?);
            self.expect_base(st, "verify(budget>=cost)", "-", &r, &format!("budget {b}"))?;
        }
        for b in [cost - 1, 0, cost / 2] {
            let r = Outcome::of(guarded("verify", || v.verify(b))?);
            if !r.is_exceeded() {
                self.flag(
                    st,
                    Violation::new(
                        if matches!(r, Outcome::Ok(_)) {
                            "verify:budget-below-cost-succeeds"
                        } else {
                            "verify:budget-below-cost-wrong-error"
                        },
                        format!("cost {cost}, verify({b}) = {}", r.short()),
                    ),
                )?;
            }
        }
        // resumable_verify with a limit >= cost is a plain run
        let r = guarded("resumable_verify", || v.resumable_verify(cost))?;
        let got = match r {
            Ok(VerifyResult::Completed(c)) => Outcome::Ok(c),
            Ok(VerifyResult::Suspended(_)) => Outcome::Err("Suspended".into()),
            Err(e) => Outcome::Err(norm_err(&e)),
        };
        self.expect_base(st, "resumable_verify(limit=cost)", "-", &got, "")?;
        if let Ok(VerifyResult::Completed(c)) = guarded("resumable_verify", || v.resumable_verify(cost - 1))? {
            self.flag(
                st,
                Violation::new(
                    "resumable_verify:limit-below-cost-completes",
                    format!("cost {cost}, resumable_verify({}) completed with {c}", cost - 1),
                ),
            )?;
        }
        Ok(())
    }

    fn run_signal(&self, st: &mut Stats, cmds: &[(u16, u8)], budget: &Budget, delay_scale: u64, pauses: bool) -> Verdict {
        let mut b = match &self.base {
            Outcome::Ok(cost) => budget_value(budget, *cost),
            Outcome::Err(_) => u64::MAX,
        };
        if pauses {
            // live debug pauses are run where the signalled path has no listed finding, so that the
            // run must equal the baseline exactly: budget >= cost (below it every resume hands out the
            // full budget again and, in debug builds, the child task asserts) and no Stop (a lost Stop
            // would leave the next debug pause waiting for a Resume for ever)
            if let Outcome::Ok(cost) = &self.base {
                b = b.max(*cost);
            }
            let cmds: Vec<(u16, u8)> = cmds.iter().map(|(d, c)| (*d, if *c % 3 == 2 { 1 } else { *c })).collect();
            return self.run_signal_full(st, &cmds, b, delay_scale, false, true);
        }
        self.run_signal_full(st, cmds, b, delay_scale, false, false)
    }

    fn run_signal_with(&self, st: &mut Stats, cmds: &[(u16, u8)], b: u64, delay_scale: u64, infinite: bool) -> Verdict {
        self.run_signal_full(st, cmds, b, delay_scale, infinite, false)
    }

    /// `infinite`: the programme never terminates on its own (no baseline exists); the command
    /// list ends with Stop and the run must end with Interrupts (or the cycle limit)
    /// `pauses`: debug-pause syscalls of the programme are live; the command thread keeps publishing
    /// Resume after its list so that every such suspension is resumed
    fn run_signal_full(&self, st: &mut Stats, cmds: &[(u16, u8)], b: u64, delay_scale: u64, infinite: bool, pauses: bool) -> Verdict {
        let v = &self.env.v;
        self.env.skip.store(!pauses, Ordering::SeqCst);
        let (tx, mut rx) = tokio::sync::watch::channel(ChunkCommand::Resume);
        let done = AtomicBool::new(false);
        let last_stop_at: std::sync::Mutex<Option<std::time::Instant>> = std::sync::Mutex::new(None);
        let mut stop_sent = false;
        let mut n_suspend = 0;
        for (_, c) in cmds {
            if *c % 3 == 2 {
                stop_sent = true;
            }
            if *c % 3 == 0 {
                n_suspend += 1;
            }
        }
        let res = std::thread::scope(|scope| {
            let done_ref = &done;
            let stop_ref = &last_stop_at;
            scope.spawn(move || {
                for (d, c) in cmds {
                    let wait = std::time::Duration::from_micros(*d as u64 * delay_scale);
                    let t0 = std::time::Instant::now();
                    while t0.elapsed() < wait {
                        if done_ref.load(Ordering::SeqCst) {
                            return;
                        }
                        std::thread::sleep(std::time::Duration::from_micros(50).min(wait));
                    }
                    let cmd = match *c % 3 {
                        0 => ChunkCommand::Suspend,
                        1 => ChunkCommand::Resume,
                        _ => ChunkCommand::Stop,
                    };
                    let is_stop = cmd == ChunkCommand::Stop;
                    let _ = tx.send(cmd);
                    if is_stop {
                        *stop_ref.lock().unwrap() = Some(std::time::Instant::now());
                    }
                }
                // never leave the run suspended; keep the sender alive until the run returns
                if cmds.last().map(|(_, c)| *c % 3 != 2).unwrap_or(true) {
                    let _ = tx.send(ChunkCommand::Resume);
                }
                let resume_again = pauses && cmds.last().map(|(_, c)| *c % 3 != 2).unwrap_or(true);
                while !done_ref.load(Ordering::SeqCst) {
                    std::thread::sleep(std::time::Duration::from_micros(200));
                    if resume_again {
                        let _ = tx.send(ChunkCommand::Resume);
                    }
                }
            });
            let panics_before = PANIC_COUNT.load(Ordering::SeqCst);
            let r = guarded("resumable_verify_with_signal", || {
                self.rt.block_on(async {
                    // a panic inside the task spawned by the verifier leaves the caller waiting for
                    // ever: stop waiting shortly after one has been recorded
                    let watcher = async {
                        loop {
                            tokio::time::sleep(std::time::Duration::from_millis(5)).await;
                            if PANIC_COUNT.load(Ordering::SeqCst) != panics_before {
                                tokio::time::sleep(std::time::Duration::from_millis(300)).await;
                                break;
                            }
                        }
                    };
                    tokio::select! {
                        r = tokio::time::timeout(
                            std::time::Duration::from_secs(120),
                            v.resumable_verify_with_signal(b, &mut rx),
                        ) => r.map_err(|_| "timeout"),
                        _ = watcher => Err("panic"),
                    }
                })
            });
            done.store(true, Ordering::SeqCst);
            (r, panics_before)
        });
        let (res, panics_before) = res;
        let recorded = panics_since(panics_before);
        let res = match res {
            Ok(r) => r,
            // the caller itself panicked (e.g. polling the result channel of a dead child again)
            Err(_) if recorded.iter().any(|m| m.contains("exceeded max_cycles")) => Err("panic"),
            Err(v) => return Err(v),
        };
        let got = match res {
            Err("panic") => {
                let msg = recorded.first().cloned().unwrap_or_default();
                let sig = if recorded.iter().any(|m| m.contains("exceeded max_cycles")) {
                    // debug_assert in the child task of chunk_run_with_signal (debug builds only)
                    "signal:debug-only:child-task-asserts-consumed<=max_cycles-then-caller-hangs".to_string()
                } else {
                    let head: String = msg.chars().take(60).collect();
                    format!("signal:child-task-panic:{}", head.replace(|c: char| c.is_ascii_digit(), "#"))
                };
                return self.flag(
                    st,
                    Violation::new(
                        sig,
                        format!("the task spawned by resumable_verify_with_signal({b}) panicked ({msg}); the call then hangs (its select loop ignores the closed result channel) or panics itself when a further command arrives (all panics: {recorded:?}) under commands {cmds:?}"),
                    ),
                );
            }
            Err(_) => {
                return self.flag(
                    st,
                    Violation::new(
                        "signal:hang",
                        format!("resumable_verify_with_signal({b}) did not return within 120 s under commands {cmds:?} (last command is Resume or Stop)"),
                    ),
                );
            }
            Ok(r) => Outcome::of(r),
        };
        let ctx = format!("budget {b}, commands {cmds:?} (x{delay_scale} us)");
        if infinite && got.is_exceeded() {
            // liveness of Stop, with a wide margin: the run went on for more than 400 ms after the
            // final Stop had been published and ended only because the cycle limit was reached
            let lag = last_stop_at.lock().unwrap().map(|t| t.elapsed());
            if let Some(lag) = lag {
                if lag > std::time::Duration::from_millis(400) {
                    // the command channel is a lossy watch channel: any Resume may reach the
                    // verifier while its VM is running (a Suspend just before it can be coalesced)
                    let redundant_resume = cmds.iter().any(|(_, c)| *c % 3 == 1);
                    return self.flag(
                        st,
                        Violation::new(
                            if redundant_resume {
                                "signal:stop-ignored:after-resume-while-running"
                            } else {
                                "signal:stop-ignored:other"
                            },
                            format!("a programme that never exits: Stop was published {lag:?} before the run returned, and it returned {} rather than Interrupts [{ctx}]", got.short()),
                        ),
                    );
                }
            }
        }
        if infinite {
            if got.is_interrupt() || (b != u64::MAX && got.is_exceeded()) {
                st.label(if got.is_interrupt() { "signal:infinite-program-stopped" } else { "signal:infinite-program-hit-limit" });
                return Ok(());
            }
            return self.flag(
                st,
                Violation::new(
                    format!("signal:stop-on-nonterminating-program:{}", got.tag()),
                    format!("a programme that never exits, last command Stop: result {} [{ctx}]", got.short()),
                ),
            );
        }
        if stop_sent && got.is_interrupt() {
            st.label("signal:stopped");
            return Ok(());
        }
        if got.is_interrupt() {
            return self.flag(
                st,
                Violation::new("signal:interrupt-without-stop", format!("no Stop was sent but result is {} [{ctx}]", got.short())),
            );
        }
        if n_suspend > 0 {
            st.label("signal:with-suspend-commands");
        }
        match &self.base {
            Outcome::Ok(cost) if b < *cost => {
                if let Outcome::Ok(c) = got {
                    self.flag(
                        st,
                        Violation::new(
                            "signal:budget-below-cost-succeeds",
                            format!("uninterrupted cost is {cost}; resumable_verify_with_signal(limit={b}) returned Ok({c}) [{ctx}]"),
                        ),
                    )
                } else if !got.is_exceeded() {
                    self.flag(
                        st,
                        Violation::new(
                            if matches!(&got, Outcome::Err(e) if e.contains("expect invalid cycles")) {
                                // an earlier group overran the budget, the next group notices
                                "signal:budget-below-cost-reports-invalid-cycles"
                            } else {
                                "signal:budget-below-cost-wrong-error"
                            },
                            format!("cost {cost}: {} [{ctx}]", got.short()),
                        ),
                    )
                } else {
                    Ok(())
                }
            }
            _ => {
                let class = match (pauses, stop_sent) {
                    (false, true) => "with-stop",
                    (false, false) => "no-stop",
                    (true, true) => "debug-pauses:with-stop",
                    (true, false) => "debug-pauses:no-stop",
                };
                self.expect_base(st, "signal", class, &got, &ctx)
            }
        }
    }

    /// every single split point (and every pair when `pairs`)
    fn sweep(&self, st: &mut Stats, horizon: u64, pairs: bool) -> Verdict {
        let v = &self.env.v;
        self.env.skip.store(true, Ordering::SeqCst);
        let mut points = 0u64;
        let mut s1 = 1u64;
        while s1 <= horizon {
            let r = guarded("resumable_verify", || v.resumable_verify(s1))?;
            let state = match r {
                Ok(VerifyResult::Suspended(s)) => s,
                Ok(VerifyResult::Completed(c)) => {
                    self.expect_base(st, "resumable_verify", "sweep", &Outcome::Ok(c), &format!("limit {s1}"))?;
                    if let Outcome::Ok(cost) = self.base {
                        if s1 < cost {
                            self.flag(
                                st,
                                Violation::new(
                                    "resumable_verify:limit-below-cost-completes",
                                    format!("cost {cost}, resumable_verify({s1}) completed"),
                                ),
                            )?;
                        }
                    }
                    break;
                }
                Err(e) => {
                    self.expect_base(
                        st,
                        "resumable_verify",
                        "sweep",
                        &Outcome::Err(norm_err(&e)),
                        &format!("limit {s1}"),
                    )?;
                    break;
                }
            };
            points += 1;
            let mut o = Obs::default();
            o.see(&state);
            let class = o.class();
            let fin = match guarded("resume_from_state", || v.resume_from_state(&state, u64::MAX))? {
                Ok(VerifyResult::Completed(c)) => Outcome::Ok(c),
                Ok(VerifyResult::Suspended(_)) => Outcome::Err("Suspended under u64::MAX".into()),
                Err(e) => Outcome::Err(norm_err(&e)),
            };
            self.expect_base(st, "resume", class, &fin, &format!("split at limit {s1}, then u64::MAX"))?;
            let ctx = format!("split at limit {s1}");
            self.check_complete(st, &state, &Budget::Max, class, &ctx)?;
            if matches!(self.base, Outcome::Ok(_)) {
                self.check_complete(st, &state, &Budget::Cost, class, &ctx)?;
                self.check_complete(st, &state, &Budget::CostMinus1, class, &ctx)?;
            }
            if pairs {
                let mut s2 = 1u64;
                loop {
                    let r2 = guarded("resume_from_state", || v.resume_from_state(&state, s2))?;
                    match r2 {
                        Ok(VerifyResult::Suspended(st2)) => {
                            points += 1;
                            let fin = match guarded("resume_from_state", || v.resume_from_state(&st2, u64::MAX))? {
                                Ok(VerifyResult::Completed(c)) => Outcome::Ok(c),
                                Ok(VerifyResult::Suspended(_)) => Outcome::Err("Suspended under u64::MAX".into()),
                                Err(e) => Outcome::Err(norm_err(&e)),
                            };
                            self.expect_base(
                                st,
                                "resume",
                                class,
                                &fin,
                                &format!("splits at limits {s1}, {s2}, then u64::MAX"),
                            )?;
                        }
                        Ok(VerifyResult::Completed(c)) => {
                            self.expect_base(
                                st,
                                "resume",
                                class,
                                &Outcome::Ok(c),
                                &format!("splits at limits {s1}, {s2}"),
                            )?;
                            break;
                        }
                        Err(e) => {
                            self.expect_base(
                                st,
                                "resume",
                                class,
                                &Outcome::Err(norm_err(&e)),
                                &format!("splits at limits {s1}, {s2}"),
                            )?;
                            break;
                        }
                    }
                    s2 += 1;
                    if s2 > horizon + 2 {
                        break;
                    }
                }
            }
            s1 += 1;
        }
        st.eval_n("split-point", points);
        st.label_n("sweep:split-points", points);
        Ok(())
    }
}

// ---------------------------------------------------------------------------------------------
// cases
// ---------------------------------------------------------------------------------------------

#[derive(Clone, Debug, Serialize, Deserialize, Hash)]
pub enum Program {
    Prebuilt(Prebuilt),
    Gen(GenTx),
}

#[derive(Clone, Debug, Serialize, Deserialize, Hash)]
pub struct Case {
    pub program: Program,
    pub vm: u8,
    /// newest VM version enabled in the environment, >= vm
    pub level: u8,
    pub scheds: Vec<Sched>,
    /// allow the exhaustive sweeps (switched off in the long-running signal family)
    pub sweep: bool,
    /// multiplier for signal delays (1 = microseconds as given)
    pub delay_scale: u16,
    /// the programme does not terminate: only signalled runs ending with Stop are possible
    #[serde(default)]
    pub infinite: bool,
    /// replay files of known findings: the signature this file reproduces (other known findings
    /// met on the way are tolerated even in strict mode)
    #[serde(default)]
    pub expect: Option<String>,
}

const SWEEP_SINGLE: u64 = 3000;
const SWEEP_PAIRS: u64 = 400;

fn build(case: &Case) -> Result<Built, Violation> {
    let vm = case.vm.min(2);
    let level = case.level.clamp(vm, 2);
    match &case.program {
        Program::Prebuilt(p) => Ok(build_prebuilt(p, vm, level)),
        Program::Gen(g) => build_gen(g, vm, level).map_err(|e| Violation::new("harness:compile-failed", e)),
    }
}

struct PropCtx {
    known: Vec<String>,
    strict: bool,
}

static PANIC_COUNT: std::sync::atomic::AtomicU64 = std::sync::atomic::AtomicU64::new(0);
static LAST_PANIC: std::sync::Mutex<String> = std::sync::Mutex::new(String::new());
static PANIC_LOG: std::sync::Mutex<Vec<String>> = std::sync::Mutex::new(Vec::new());

fn panics_since(n: u64) -> Vec<String> {
    let now = PANIC_COUNT.load(Ordering::SeqCst);
    let log = PANIC_LOG.lock().map(|l| l.clone()).unwrap_or_default();
    let k = (now.saturating_sub(n) as usize).min(log.len());
    log[log.len() - k..].to_vec()
}

/// Records panics (also those inside tokio tasks, which never reach catch_unwind here) instead of
/// printing backtraces into the worker log.
fn install_panic_hook() {
    static ONCE: std::sync::Once = std::sync::Once::new();
    ONCE.call_once(|| {
        std::panic::set_hook(Box::new(|info| {
            let msg = info
                .payload()
                .downcast_ref::<String>()
                .cloned()
                .or_else(|| info.payload().downcast_ref::<&str>().map(|s| s.to_string()))
                .unwrap_or_default();
            let loc = info.location().map(|l| format!("{}:{}", l.file(), l.line())).unwrap_or_default();
            if let Ok(mut g) = LAST_PANIC.lock() {
                *g = format!("{msg} at {loc}");
            }
            if let Ok(mut g) = PANIC_LOG.lock() {
                if g.len() > 64 {
                    g.remove(0);
                }
                g.push(format!("{msg} at {loc}"));
            }
            PANIC_COUNT.fetch_add(1, Ordering::SeqCst);
            if trace_on() {
                eprintln!("C05 panic recorded: {msg} at {loc}");
            }
        }));
    });
}

fn runtime() -> tokio::runtime::Runtime {
    tokio::runtime::Builder::new_multi_thread()
        .worker_threads(2)
        .enable_time()
        .build()
        .expect("tokio runtime")
}

thread_local! {
    static RT: tokio::runtime::Runtime = runtime();
}

fn prop(pc: &PropCtx, case: &Case, st: &mut Stats) -> Verdict {
    install_panic_hook();
    let t0 = std::time::Instant::now();
    let r = RT.with(|rt| prop_inner(pc, case, st, rt));
    if trace_on() {
        eprintln!(
            "C05 case done in {:?}: {:?}",
            t0.elapsed(),
            r.as_ref().err().map(|v| format!("{} :: {}", v.signature, v.detail.chars().take(1500).collect::<String>()))
        );
    }
    r
}

fn prop_inner(pc: &PropCtx, case: &Case, st: &mut Stats, rt: &tokio::runtime::Runtime) -> Verdict {
    let built = match build(case) {
        Ok(b) => b,
        Err(v) => {
            // a generated programme that does not compile is a harness problem, not a finding
            eprintln!("C05: {}", v.detail);
            st.label("harness:compile-failed");
            return Ok(());
        }
    };
    let env = make_env(&built);
    env.skip.store(true, Ordering::SeqCst);
    if case.infinite {
        let ck = Checker {
            env: &env,
            base: Outcome::Err("<does not terminate>".into()),
            scale: 1,
            known: &pc.known,
            strict: pc.strict,
            rt,
            partial_code_load: false,
            expect: case.expect.clone(),
        };
        st.label("prog:non-terminating");
        st.eval_n("schedule", case.scheds.len() as u64);
        for sched in &case.scheds {
            if let Sched::Signal { cmds, budget, .. } = sched {
                let mut cmds = cmds.clone();
                if cmds.last().map(|(_, c)| *c % 3 != 2).unwrap_or(true) {
                    cmds.push((150, 2));
                }
                // finite budgets only: a lost Stop must not hang the harness
                let b = match budget {
                    Budget::Frac(n) => 600_000_000 + (*n as u64) * 1_000_000,
                    _ => 700_000_000,
                };
                st.label("sched:signal");
                if trace_on() {
                    eprintln!("C05 {} signal {cmds:?} budget {b}", built.desc);
                }
                ck.run_signal_with(st, &cmds, b, case.delay_scale.max(1) as u64, true)
                    .map_err(|mut v| {
                        v.detail = format!("[{}] {}", built.desc, v.detail);
                        v
                    })?;
                if cmds.iter().any(|(_, c)| *c % 3 == 0) {
                    st.nontrivial(&(fxhash64(&case.program), &cmds, b));
                }
            }
        }
        return Ok(());
    }
    let base = Outcome::of(guarded("verify", || env.v.verify(u64::MAX))?);
    let groups = env.v.groups().count();
    if trace_on() {
        eprintln!("C05 {} baseline {} groups {groups} scheds {}", built.desc, base.short(), case.scheds.len());
    }
    st.label(&format!("vm{}", case.vm.min(2)));
    st.label(if groups > 1 { "groups>1" } else { "groups=1" });
    st.label(match &case.program {
        Program::Prebuilt(Prebuilt::SpawnDag(_)) => "prog:spawn_dag",
        Program::Prebuilt(Prebuilt::SpawnCases { .. }) => "prog:spawn_cases",
        Program::Prebuilt(Prebuilt::SpawnFuzzing { .. }) => "prog:spawn_fuzzing",
        Program::Prebuilt(Prebuilt::ExecCfg { .. }) => "prog:exec_configurable",
        Program::Prebuilt(Prebuilt::SpawnCfg { .. }) => "prog:spawn_configurable",
        Program::Prebuilt(Prebuilt::LoadArith { .. }) | Program::Prebuilt(Prebuilt::LoadIsEven { .. }) => {
            "prog:load_code"
        }
        Program::Prebuilt(Prebuilt::Infinite { .. }) => "prog:non-terminating",
        Program::Prebuilt(_) => "prog:prebuilt-other",
        Program::Gen(g) if g.progs.iter().any(|p| p.procs.len() > 1) => "prog:generated-spawn-tree",
        Program::Gen(g) if g.progs.iter().any(|p| p.procs.iter().any(|q| q.exec_tail.is_some())) => {
            "prog:generated-exec"
        }
        Program::Gen(_) => "prog:generated-single",
    });
    match &base {
        Outcome::Ok(_) => st.label("baseline:success"),
        Outcome::Err(e) if e.contains("ValidationFailure") => st.label("baseline:exit-code"),
        Outcome::Err(_) => st.label("baseline:vm-error"),
    }
    // for a failing baseline: the smallest budget at which the failure (rather than the cycle
    // limit) is reported plays the role of the cost when scaling limits and deciding on sweeps
    let scale = match &base {
        Outcome::Ok(c) => *c,
        Outcome::Err(_) => {
            let (mut lo, mut hi) = (0u64, 1u64 << 36);
            while lo < hi {
                let mid = lo + (hi - lo) / 2;
                let r = Outcome::of(guarded("verify", || env.v.verify(mid))?);
                if r.is_exceeded() {
                    lo = mid + 1;
                } else {
                    hi = mid;
                }
            }
            lo.max(1)
        }
    };
    let ck = Checker {
        env: &env,
        base: base.clone(),
        scale,
        known: &pc.known,
        strict: pc.strict,
        rt,
        partial_code_load: built.partial_code_load,
        expect: case.expect.clone(),
    };
    let prog_hash = fxhash64(&(&case.program, case.vm, case.level));
    ck.check_budgets(st)?;
    // exhaustive sweeps for small programs
    if case.sweep {
        let horizon = match &base {
            Outcome::Ok(c) if *c < SWEEP_SINGLE => Some(*c),
            Outcome::Ok(_) => None,
            Outcome::Err(_) if scale < SWEEP_SINGLE => Some(scale + 1),
            Outcome::Err(_) => None,
        };
        if let Some(h) = horizon {
            let pairs = scale < SWEEP_PAIRS;
            st.label(if pairs { "sweep:single+pairs" } else { "sweep:single" });
            ck.sweep(st, h, pairs)?;
            st.nontrivial(&(prog_hash, "sweep", pairs));
        }
    }
    st.eval_n("schedule", case.scheds.len() as u64);
    for (si, sched) in case.scheds.iter().enumerate() {
        let t_s = std::time::Instant::now();
        let res: Result<Obs, Violation> = match sched {
            Sched::Chunks { limits, pause, rebuild, complete_each } => {
                if limits.is_empty() {
                    continue;
                }
                st.label(if *pause { "sched:chunks+pause" } else { "sched:chunks" });
                ck.run_chunks(st, limits, *pause, *rebuild, *complete_each)
            }
            Sched::Complete { limits, budget } => {
                if limits.is_empty() {
                    continue;
                }
                st.label("sched:complete");
                ck.run_complete(st, limits, budget)
            }
            Sched::Signal { cmds, budget, pauses } => {
                st.label(if *pauses { "sched:signal+debug-pauses" } else { "sched:signal" });
                ck.run_signal(st, cmds, budget, case.delay_scale.max(1) as u64, *pauses)
                    .map(|_| Obs::default())
            }
        };
        let obs = match res {
            Ok(o) => o,
            Err(mut v) => {
                v.detail = format!("[{} | schedule #{si}: {sched:?}] {}", built.desc, v.detail);
                return Err(v);
            }
        };
        if trace_on() && t_s.elapsed().as_millis() > 500 {
            eprintln!("C05   slow schedule #{si} {:?}: {sched:?} suspensions {}", t_s.elapsed(), obs.suspensions);
        }
        if obs.suspensions > 0 {
            st.label(&format!("suspended:{}", obs.class()));
            if obs.io_wait > 0 {
                st.label("suspended:while-a-vm-waits-on-io/wait");
            }
        }
        let nontrivial = obs.multi_vm > 0 || (obs.suspensions > 0 && built.syscall_heavy);
        if nontrivial {
            st.nontrivial(&(prog_hash, sched));
            if st.want_sample() && obs.multi_vm > 0 {
                let d = built.desc.clone();
                st.sample(|| {
                    json!({"program": d, "baseline": base.short(), "schedule": sched,
                           "suspensions": obs.suspensions, "suspensions_with_>=2_vms": obs.multi_vm, "max_vms_in_state": obs.max_vms})
                });
            }
        }
    }
    Ok(())
}

// ---------------------------------------------------------------------------------------------
// strategies
// ---------------------------------------------------------------------------------------------

fn lim_strategy() -> impl Strategy<Value = Lim> {
    prop_oneof![
        3 => (1u16..400).prop_map(|v| (false, v)),
        2 => (400u16..20000).prop_map(|v| (false, v)),
        4 => (1u16..=65535).prop_map(|v| (true, v)),
        2 => (1u16..3000).prop_map(|v| (true, v)),
    ]
}

fn budget_strategy() -> impl Strategy<Value = Budget> {
    prop_oneof![
        2 => Just(Budget::Max),
        3 => Just(Budget::Cost),
        2 => Just(Budget::CostPlus1),
        4 => Just(Budget::CostMinus1),
        1 => Just(Budget::Zero),
        2 => any::<u8>().prop_map(Budget::Frac),
    ]
}

fn sched_strategy(max_delay: u16) -> impl Strategy<Value = Sched> {
    prop_oneof![
        6 => (proptest::collection::vec(lim_strategy(), 1..10), any::<bool>(), any::<bool>(), prop::bool::weighted(0.3))
            .prop_map(|(limits, pause, rebuild, complete_each)| Sched::Chunks { limits, pause, rebuild, complete_each }),
        2 => (proptest::collection::vec(lim_strategy(), 1..4), budget_strategy())
            .prop_map(|(limits, budget)| Sched::Complete { limits, budget }),
        2 => (proptest::collection::vec((0u16..max_delay, 0u8..3), 0..7), budget_strategy(), any::<bool>())
            .prop_map(|(cmds, budget, pauses)| Sched::Signal { cmds, budget, pauses }),
    ]
}

fn load_strategy() -> impl Strategy<Value = LoadSys> {
    (
        0u8..LOADS.len() as u8,
        prop_oneof![3 => Just(0u16), 3 => 0u16..64, 2 => 0u16..9000],
        prop_oneof![1 => Just(0u16), 4 => 1u16..200, 3 => 200u16..4096],
        0u8..4,
        0u8..SOURCES.len() as u8,
        0u8..8,
        prop::bool::weighted(0.35),
        any::<u16>(),
    )
        .prop_map(|(kind, off, len, index, src, field, big, dst)| LoadSys {
            kind,
            off,
            len,
            index,
            src,
            field,
            big,
            dst,
        })
}

fn leaf_stmt(vm: u8) -> BoxedStrategy<Stmt> {
    let mut v: Vec<(u32, BoxedStrategy<Stmt>)> = vec![
        (3, any::<u8>().prop_map(Stmt::Arith).boxed()),
        (2, (any::<u16>(), 1u8..64).prop_map(|(o, l)| Stmt::Store(o, l)).boxed()),
        (2, any::<u16>().prop_map(Stmt::LoadMem).boxed()),
        (2, (0u8..4, any::<u16>()).prop_map(|(p, o)| Stmt::BigTouch(p, o)).boxed()),
        (9, load_strategy().prop_map(Stmt::Load).boxed()),
        (
            1,
            (0u8..2, 0u8..2, 0u16..300, 0u16..2048, 0u8..4, 0u8..3)
                .prop_map(|(page, npages, coff, csize, index, src)| Stmt::LoadCode {
                    page,
                    npages,
                    coff,
                    csize,
                    index,
                    src,
                })
                .boxed(),
        ),
        (1, Just(Stmt::Debug).boxed()),
        (2, Just(Stmt::Pause).boxed()),
    ];
    if vm >= 1 {
        v.push((3, Just(Stmt::CurrentCycles).boxed()));
        v.push((1, Just(Stmt::VmVersion).boxed()));
    }
    if vm >= 2 {
        v.push((1, Just(Stmt::ProcessId).boxed()));
    }
    proptest::strategy::Union::new_weighted(v).boxed()
}

fn stmt_strategy(vm: u8) -> BoxedStrategy<Stmt> {
    let leaf = leaf_stmt(vm);
    let l1 = prop_oneof![
        8 => leaf.clone(),
        1 => (1u8..12, proptest::collection::vec(leaf.clone(), 1..4)).prop_map(|(n, b)| Stmt::Loop(n, b)),
    ];
    prop_oneof![
        10 => l1.clone(),
        1 => (1u8..6, proptest::collection::vec(l1, 1..3)).prop_map(|(n, b)| Stmt::Loop(n, b)),
        // rare early exits: 1/16 .. 1/256 chance each
        1 => (prop_oneof![Just(15u8), Just(63u8), Just(255u8)], 1i8..100).prop_map(|(m, c)| Stmt::ExitIf(m, c)),
    ]
    .boxed()
}

fn proc_strategy(vm: u8, max_pre: usize) -> impl Strategy<Value = Proc> {
    let s = stmt_strategy(vm);
    (
        any::<u16>(),
        proptest::collection::vec(s.clone(), 0..max_pre),
        proptest::collection::vec(s.clone(), 0..3),
        proptest::collection::vec(s.clone(), 0..4),
        prop::bool::weighted(0.8),
        prop::bool::weighted(0.3),
        prop_oneof![8 => 2u8..5, 1 => 0u8..2],
        if vm >= 1 {
            prop_oneof![4 => Just(None), 1 => proptest::collection::vec(s, 0..4).prop_map(Some)].boxed()
        } else {
            Just(None).boxed()
        },
    )
        .prop_map(|(parent, pre, between, post, wait, close_after, inherit_cap, exec_tail)| Proc {
            parent,
            pre,
            between,
            post,
            wait,
            close_after,
            inherit_cap,
            exec_tail,
        })
}

fn msg_strategy() -> impl Strategy<Value = Msg> {
    (
        any::<u16>(),
        any::<bool>(),
        prop_oneof![3 => 0u16..64, 2 => 0u16..1024, 1 => 0u16..4096],
        prop_oneof![1 => 0u16..16, 2 => 0u16..4096],
        prop_oneof![1 => 0u16..16, 2 => 0u16..4096],
    )
        .prop_map(|(edge, down, len, wchunk, rchunk)| Msg { edge, down, len, wchunk, rchunk })
}

#[derive(Clone, Copy, PartialEq, Eq, Debug)]
enum Kind {
    /// full feature set, 20-34 schedules
    Normal,
    /// single small process: cost mostly < 3000 so that every single split point is tried
    Tiny,
    /// minimal image and a handful of statements: cost < 400 so that every pair of splits is tried
    Ultra,
    /// long closing loop (millions of cycles) under signal schedules with millisecond delays
    Long,
}

fn ultra_stmt(_vm: u8) -> BoxedStrategy<Stmt> {
    let leaf = prop_oneof![
        3 => any::<u8>().prop_map(Stmt::Arith),
        2 => (any::<u16>(), 1u8..5).prop_map(|(o, l)| Stmt::Store(o, l)),
        2 => any::<u16>().prop_map(Stmt::LoadMem),
    ];
    prop_oneof![
        4 => leaf.clone(),
        1 => (1u8..4, proptest::collection::vec(leaf, 1..3)).prop_map(|(n, b)| Stmt::Loop(n, b)),
    ]
    .boxed()
}

fn prog_strategy(vm: u8, kind: Kind) -> BoxedStrategy<Prog> {
    if kind == Kind::Ultra {
        return (proptest::collection::vec(ultra_stmt(vm), 0..4), any::<u8>(), 0u8..2)
            .prop_map(|(pre, seed, t)| Prog {
                procs: vec![Proc {
                    parent: 0,
                    pre,
                    between: vec![],
                    post: vec![],
                    wait: false,
                    close_after: false,
                    inherit_cap: 2,
                    exec_tail: None,
                }],
                msgs: vec![],
                exit_mask: 0,
                tail_mask: t * 3,
                seed,
                spin: 0,
                ultra: true,
            })
            .boxed();
    }
    let tiny = kind == Kind::Tiny;
    let nprocs = if vm >= 2 && !tiny {
        prop_oneof![4 => Just(1usize), 3 => 2usize..4, 2 => 4usize..6, 2 => 6usize..9].boxed()
    } else {
        Just(1usize).boxed()
    };
    let max_pre = if tiny { 3 } else { 7 };
    let spin = if kind == Kind::Long { (200_000u32..3_000_000).boxed() } else { Just(0u32).boxed() };
    nprocs
        .prop_flat_map(move |n| {
            (
                proptest::collection::vec(proc_strategy(vm, max_pre), n),
                proptest::collection::vec(msg_strategy(), if n > 1 { 0..9 } else { 0..1 }),
                prop_oneof![3 => Just(0u8), 1 => Just(3u8)],
                prop_oneof![Just(0u8), Just(7u8), Just(63u8)],
                any::<u8>(),
                spin.clone(),
            )
        })
        .prop_map(move |(mut procs, msgs, exit_mask, tail_mask, seed, spin)| {
            if tiny {
                for p in procs.iter_mut() {
                    p.between.clear();
                    p.post.truncate(1);
                    p.exec_tail = None;
                }
            }
            Prog {
                procs,
                msgs,
                exit_mask: if kind == Kind::Long { 0 } else { exit_mask },
                tail_mask: if tiny { tail_mask & 7 } else { tail_mask },
                seed,
                spin,
                ultra: false,
            }
        })
        .boxed()
}

fn script_spec_strategy() -> impl Strategy<Value = ScriptSpec> {
    (0u8..2, proptest::collection::vec(0u8..3, 0..2), prop::bool::weighted(0.3))
        .prop_map(|(prog, args, by_type)| ScriptSpec { prog, args, by_type })
}

fn gentx_strategy(vm: u8, kind: Kind) -> impl Strategy<Value = GenTx> {
    let small = kind != Kind::Normal;
    let nprogs = if small { 1..2usize } else { 1..3usize };
    let len = if kind == Kind::Ultra {
        prop_oneof![1 => Just(0u16), 2 => 0u16..40].boxed()
    } else {
        prop_oneof![2 => 0u16..64, 2 => 64u16..5000, 1 => 5000u16..20000].boxed()
    };
    (
        proptest::collection::vec(prog_strategy(vm, kind), nprogs),
        proptest::collection::vec(
            (script_spec_strategy(), proptest::option::weighted(if kind == Kind::Ultra { 0.001 } else { 0.3 }, script_spec_strategy()), len.clone()),
            if small { 1..2usize } else { 1..4usize },
        ),
        proptest::collection::vec(
            (proptest::option::weighted(0.5, script_spec_strategy()), len.clone()),
            if small { 0..1usize } else { 0..3usize },
        ),
        proptest::collection::vec((len.clone(), any::<u8>()), if kind == Kind::Ultra { 0..2usize } else { 0..4usize }),
        (len, any::<u8>()),
        prop::bool::weighted(if small { 0.0 } else { 0.15 }),
        prop::bool::weighted(0.3),
        prop::bool::weighted(0.3),
    )
        .prop_map(|(progs, inputs, outputs, witnesses, dep_data, type_id, lazy, with_header)| GenTx {
            progs,
            inputs,
            outputs,
            witnesses,
            dep_data,
            type_id,
            lazy,
            with_header,
        })
}

fn vm_level_strategy() -> impl Strategy<Value = (u8, u8)> {
    prop_oneof![1 => Just(0u8), 2 => Just(1u8), 5 => Just(2u8)]
        .prop_flat_map(|vm| (Just(vm), vm..=2u8))
}

fn signal_sched_strategy() -> impl Strategy<Value = Sched> {
    (
        proptest::collection::vec((0u16..2500, prop_oneof![5 => Just(0u8), 5 => Just(1u8), 1 => Just(2u8)]), 1..8),
        prop_oneof![4 => Just(Budget::CostMinus1), 3 => Just(Budget::Cost), 2 => Just(Budget::CostPlus1), 1 => Just(Budget::Max), 2 => (128u8..=255).prop_map(Budget::Frac)],
        prop::bool::weighted(0.4),
    )
        .prop_map(|(cmds, budget, pauses)| Sched::Signal { cmds, budget, pauses })
}

fn gen_case_strategy(kind: Kind) -> impl Strategy<Value = Case> {
    vm_level_strategy().prop_flat_map(move |(vm, level)| {
        let scheds = match kind {
            Kind::Normal => proptest::collection::vec(sched_strategy(300), 20..34usize).boxed(),
            Kind::Tiny => proptest::collection::vec(sched_strategy(300), 4..10usize).boxed(),
            Kind::Ultra => proptest::collection::vec(sched_strategy(100), 2..5usize).boxed(),
            Kind::Long => proptest::collection::vec(signal_sched_strategy(), 5..9usize).boxed(),
        };
        (gentx_strategy(vm, kind), scheds, 1u16..4).prop_map(move |(g, scheds, ds)| Case {
            program: Program::Gen(g),
            vm,
            level,
            scheds,
            sweep: kind != Kind::Long,
            delay_scale: if kind == Kind::Long { ds } else { 1 },
            infinite: false,
            expect: None,
        })
    })
}

fn infinite_case_strategy() -> impl Strategy<Value = Case> {
    (0u8..2, proptest::collection::vec(signal_sched_strategy(), 2..5), 1u16..3).prop_map(|(which, scheds, ds)| Case {
        program: Program::Prebuilt(Prebuilt::Infinite { which }),
        vm: 2,
        level: 2,
        scheds,
        sweep: false,
        delay_scale: ds,
        infinite: true,
        expect: None,
    })
}

fn dag_strategy() -> impl Strategy<Value = DagSpec> {
    (
        prop_oneof![2 => 1usize..5, 3 => 5usize..16],
        prop_oneof![1 => 0usize..4, 3 => 3usize..20],
    )
        .prop_flat_map(|(spawns, writes)| {
            (
                proptest::collection::vec(any::<u16>(), spawns),
                proptest::collection::vec(
                    (any::<u16>(), any::<u16>(), prop_oneof![3 => 1u16..200, 1 => 200u16..3000], any::<u8>())
                        .prop_map(|(from, to, len, seed)| DagWrite { from, to, len, seed }),
                    writes,
                ),
            )
        })
        .prop_map(|(parents, writes)| DagSpec { parents, writes })
}

fn prebuilt_strategy() -> impl Strategy<Value = (Prebuilt, u8)> {
    // (scenario, minimum VM version at which it is meaningful)
    prop_oneof![
        4 => (0u8..SIMPLE.len() as u8, any::<u8>()).prop_map(|(which, arg)| {
            let m = SIMPLE[which as usize].min_vm;
            (Prebuilt::Simple { which, arg }, m)
        }),
        4 => (1u8..=19).prop_map(|case_id| (Prebuilt::SpawnCases { case_id }, 2)),
        3 => (proptest::collection::vec(any::<u8>(), 0..60), proptest::collection::vec(any::<u8>(), 7..60))
            .prop_map(|(parent, child)| (Prebuilt::SpawnFuzzing { parent, child }, 2)),
        6 => dag_strategy().prop_map(|d| (Prebuilt::SpawnDag(d), 2)),
        4 => (0u8..8, 0u8..6, any::<u8>(), 0u8..8, 0u8..9).prop_map(|(flag, recursion, number, expected_shift, from)| {
            (Prebuilt::ExecCfg { flag, recursion, number, expected_shift, from }, 1)
        }),
        2 => (0u8..10).prop_map(|from| (Prebuilt::SpawnCfg { from }, 2)),
        2 => (proptest::collection::vec(0u8..4, 0..14), 0u8..20).prop_map(|(ops, num)| (Prebuilt::LoadArith { ops, num }, 0)),
        1 => (any::<bool>(), any::<u8>()).prop_map(|(snapshot, number)| (Prebuilt::LoadIsEven { snapshot, number }, 0)),
        1 => (0u16..3000, any::<bool>()).prop_map(|(size, check)| (Prebuilt::SpawnIo { size, check }, 2)),
    ]
}

/// family "offset-load": exec / spawn of a programme that sits at a non-zero offset of a witness
/// (the loaded pages' provenance matters only once a VM is suspended and rebuilt), every flag of
/// the configurable caller (load a library before / after the exec, pause in the callee), chunked
/// schedules with pauses and rebuilt states
fn offset_case_strategy() -> impl Strategy<Value = Case> {
    (
        prop_oneof![
            5 => (0u8..8, 0u8..4, any::<u8>()).prop_map(|(flag, recursion, number)| Prebuilt::ExecCfg {
                flag,
                recursion,
                number,
                expected_shift: 0,
                from: 7,
            }),
            3 => prop_oneof![Just(8u8), Just(9u8)].prop_map(|from| Prebuilt::SpawnCfg { from }),
            1 => Just(Prebuilt::Simple {
                which: SIMPLE.iter().position(|s| s.name == "exec_big_offset_length").unwrap_or(0) as u8,
                arg: 0
            }),
        ],
        prop_oneof![1 => Just(1u8), 4 => Just(2u8)],
        proptest::collection::vec(
            prop_oneof![
                5 => (proptest::collection::vec(lim_strategy(), 1..10), any::<bool>(), any::<bool>(), prop::bool::weighted(0.3))
                    .prop_map(|(limits, pause, rebuild, complete_each)| Sched::Chunks { limits, pause, rebuild, complete_each }),
                1 => (proptest::collection::vec(lim_strategy(), 1..4), budget_strategy())
                    .prop_map(|(limits, budget)| Sched::Complete { limits, budget }),
            ],
            14..24,
        ),
    )
        .prop_map(|(p, vm, scheds)| {
            let vm = match &p {
                Prebuilt::SpawnCfg { .. } => 2,
                _ => vm,
            };
            Case {
                program: Program::Prebuilt(p),
                vm,
                level: 2,
                scheds,
                sweep: true,
                delay_scale: 1,
                infinite: false,
                expect: None,
            }
        })
}

fn prebuilt_case_strategy() -> impl Strategy<Value = Case> {
    (prebuilt_strategy(), 0u8..20, 0u8..3)
        .prop_flat_map(|((p, min_vm), low, lv)| {
            // mostly a VM version at which the scenario is meaningful; 1 in 10 below it
            let vm = if low == 0 && min_vm > 0 { min_vm - 1 } else { min_vm.max(lv) };
            let n = match &p {
                Prebuilt::SpawnDag(_) => 8..14usize,
                _ => 16..30usize,
            };
            (Just(p), Just(vm), vm..=2u8, proptest::collection::vec(sched_strategy(400), n))
        })
        .prop_map(|(p, vm, level, scheds)| Case {
            program: Program::Prebuilt(p),
            vm,
            level,
            scheds,
            sweep: true,
            delay_scale: 1,
            infinite: false,
            expect: None,
        })
}

// ---------------------------------------------------------------------------------------------
// entry points
// ---------------------------------------------------------------------------------------------

fn prop_ctx(ctx: &Ctx) -> PropCtx {
    PropCtx {
        known: ctx
            .known
            .iter()
            .filter(|k| k.status == "known")
            .map(|k| k.signature.clone())
            .collect(),
        strict: ctx.strict,
    }
}

/// Same contract as Ctx::run_prop, with a bounded shrinking effort: one evaluation of this
/// property runs tens of schedules, so the generic 4096 shrink iterations would take minutes.
fn run_family<S>(ctx: &Ctx, pc: &PropCtx, sub: &str, cases: u32, strat: S)
where
    S: Strategy<Value = Case>,
{
    use proptest::test_runner::{Config, RngSeed, TestCaseError, TestError, TestRunner};
    if cases == 0 {
        return;
    }
    let cfg = Config {
        cases,
        failure_persistence: None,
        rng_seed: RngSeed::Fixed(ctx.sub_seed(sub)),
        max_shrink_iters: 400,
        max_shrink_time: 120_000,
        max_global_rejects: 65536,
        ..Config::default()
    };
    let mut runner = TestRunner::new(cfg);
    let last: std::cell::RefCell<Option<Violation>> = std::cell::RefCell::new(None);
    let res = runner.run(&strat, |c| {
        let verdict = {
            let mut st = ctx.stats.borrow_mut();
            st.eval(sub);
            prop(pc, &c, &mut st)
        };
        match ctx.tolerate_known(verdict) {
            Ok(()) => Ok(()),
            Err(v) => {
                ctx.stats.borrow_mut().freeze();
                let msg = format!("{}: {}", v.signature, v.detail);
                *last.borrow_mut() = Some(v);
                Err(TestCaseError::fail(msg))
            }
        }
    });
    match res {
        Ok(()) => {}
        Err(TestError::Fail(_, value)) => {
            let viol = {
                let mut st = ctx.stats.borrow_mut();
                st.freeze();
                prop(pc, &value, &mut st)
            };
            let viol = match viol {
                Err(v) => v,
                Ok(()) => last
                    .borrow()
                    .clone()
                    .unwrap_or_else(|| Violation::new("unstable", "shrunk case passes on re-run")),
            };
            let case = serde_json::to_value(&value).unwrap_or(Value::Null);
            ctx.report(sub, &case, viol);
        }
        Err(TestError::Abort(reason)) => {
            ctx.inconclusive
                .borrow_mut()
                .push(format!("{sub}: proptest aborted: {reason}"));
        }
    }
    ctx.stats.borrow_mut().unfreeze();
}

fn trace_on() -> bool {
    std::env::var_os("C05_TRACE").is_some()
}

fn elf_debug(path: &str) {
    use ckb_vm::{CoreMachine, DefaultMachineBuilder, Memory};
    let bytes = ckb_types::bytes::Bytes::from(std::fs::read(path).unwrap());
    for v in [ckb_script::ScriptVersion::V0, ckb_script::ScriptVersion::V1] {
        let core = v.init_core_machine_without_limit();
        let mut m = DefaultMachineBuilder::new(core).build();
        let r = m.load_program(&bytes, std::iter::empty());
        eprintln!("{v:?}: load -> {r:?}, sp = {:#x}", m.registers()[2]);
        for p in [0x0fu64, 0x10, 0x11, 0x12, 0x13, 1022, 1023] {
            eprintln!("  page {p:#x}: flag {:?}", m.memory_mut().fetch_flag(p));
        }
    }
}

fn run(ctx: &Ctx) {
    if let Ok(p) = std::env::var("C05_ELFDBG") {
        elf_debug(&p);
        return;
    }
    let pc = prop_ctx(ctx);
    if let Ok(only) = std::env::var("C05_ONLY") {
        // development aid: run one family with an explicit case count, e.g. C05_ONLY=generated:5
        let (fam, n) = only.split_once(':').unwrap_or((&only, "5"));
        let n: u32 = n.parse().unwrap_or(5);
        match fam {
            "prebuilt" => run_family(ctx, &pc, "prebuilt", n, prebuilt_case_strategy()),
            "offset" => run_family(ctx, &pc, "offset-load", n, offset_case_strategy()),
            "generated" => run_family(ctx, &pc, "generated", n, gen_case_strategy(Kind::Normal)),
            "ultra" => run_family(ctx, &pc, "pair-sweep", n, gen_case_strategy(Kind::Ultra)),
            "long" => run_family(ctx, &pc, "signal-long", n, gen_case_strategy(Kind::Long)),
            "infinite" => run_family(ctx, &pc, "signal-stop", n, infinite_case_strategy()),
            _ => run_family(ctx, &pc, "tiny-sweep", n, gen_case_strategy(Kind::Tiny)),
        };
        return;
    }
    let n = ctx.cases(150, 3000);
    run_family(ctx, &pc, "prebuilt", n, prebuilt_case_strategy());
    let n = ctx.cases(60, 1200);
    run_family(ctx, &pc, "offset-load", n, offset_case_strategy());
    let n = ctx.cases(150, 3000);
    run_family(ctx, &pc, "generated", n, gen_case_strategy(Kind::Normal));
    let n = ctx.cases(40, 800);
    run_family(ctx, &pc, "tiny-sweep", n, gen_case_strategy(Kind::Tiny));
    let n = ctx.cases(12, 240);
    run_family(ctx, &pc, "pair-sweep", n, gen_case_strategy(Kind::Ultra));
    let n = ctx.cases(12, 240);
    run_family(ctx, &pc, "signal-long", n, gen_case_strategy(Kind::Long));
    let n = ctx.cases(12, 240);
    run_family(ctx, &pc, "signal-stop", n, infinite_case_strategy());
}

fn replay(ctx: &Ctx, _sub: &str, v: &Value) -> Verdict {
    let pc = prop_ctx(ctx);
    let c: Case = from_case(v)?;
    let mut st = ctx.stats.borrow_mut();
    prop(&pc, &c, &mut st)
}
