//! C14 sub-check `system-cell-cache`: the process-global SYSTEM_CELL cache (filled only by `ckb run`)
//! never changes a verdict.
//!
//! One case = a short chain, a set of prepared dep-group cells and a list of transactions whose cell
//! deps mix the cached system dep groups (secp256k1 group, multisig group: two members each), the
//! cached plain system cells (secp code, dao, secp data), system cells the cache does not hold,
//! ordinary dep groups of generated sizes (members drawn from system cells, with repetitions) and
//! plain deps, optionally topped up with a big group and a trim group so that the total expansion is
//! exactly 2047 / 2048 / 2049.  The case is evaluated twice: in this process (SYSTEM_CELL empty) and
//! in a helper process in which `setup_system_cell_cache(genesis, snapshot)` was called the way
//! `ckb run` does (the cache is a `OnceLock`, hence the second process).  Oracle: in both processes
//! every pool verdict (test_accept_tx as a fresh and as a proposed transaction, submit_local_tx) and
//! every block verdict (probe block for a transaction the model rejects, the real block for all the
//! others) equals the C04 admissibility model (which counts the expansion from the cell data it reads
//! in the reference model's own live-cell set), and the two processes' observations are identical.
use crate::c04_model::*;
use crate::checks::c04::{err_class, tx_brief};
use crate::common::*;
use crate::model::*;
use crate::node::*;
use crate::vfail;
use ckb_types::{
    bytes::Bytes,
    core::{BlockView, Capacity, DepType, FeeRate, TransactionBuilder, TransactionView},
    packed::{CellDep, CellInput, CellOutput, OutPoint, OutPointVec},
    prelude::*,
};
use proptest::prelude::*;
use serde::{Deserialize, Serialize};
use serde_json::{Value, json};
use std::cell::RefCell;
use std::collections::BTreeMap;
use std::io::{BufRead, BufReader, Write};
use std::process::{Child, ChildStdin, Command, Stdio};
use std::sync::mpsc;
use std::time::Duration;

pub const SUB: &str = "system-cell-cache";
const SERVER_ENV: &str = "VERIF_SYSCELL_SERVER";
const LINE_TAG: &str = "@@SYSCELL ";
const BASE_SIZE: usize = 1900;
const LIMIT: usize = 2048;

#[derive(Clone, Debug, Serialize, Deserialize, Hash)]
pub struct DepPick {
    /// 1 secp group (cached), 2 multisig group (cached), 3 secp code (cached), 4 dao cell (cached),
    /// 5 secp data (cached), 6 multisig code (not cached), 7 always_failure cell, 8 a system group
    /// cell read as a code dep (not cached under that dep type), 9 ordinary group `sel`, 10 a system
    /// code cell read as a dep group (its data is a program), 11 spare plain cell, 12 unknown out point
    pub kind: u8,
    pub sel: u16,
}

#[derive(Clone, Debug, Serialize, Deserialize, Hash)]
pub struct SysTx {
    pub deps: Vec<DepPick>,
    /// 0 leave the total alone; 1 / 2 / 3: top up to 2047 / 2048 / 2049 with the big group + a trim group
    pub target: u8,
    /// rotation (and, when odd, reversal) of the dep list: where the cached deps sit
    pub order: u16,
    /// always_success code dep listed directly (else it has to come out of a group)
    pub as_direct: bool,
    /// repeat one cell dep verbatim (structural rule)
    pub dup: bool,
    pub submit: bool,
    pub base_recipe: u8,
    pub trim_recipe: u8,
}

#[derive(Clone, Debug, Serialize, Deserialize, Hash)]
pub struct GroupSpec {
    pub size: u8,
    pub recipe: u8,
}

#[derive(Clone, Debug, Serialize, Deserialize, Hash)]
pub struct SysCase {
    /// chain-spec variant; pinned per worker (the helper process holds the cache of one genesis)
    pub variant: u8,
    pub pre: u8,
    /// commit offset inside the proposal window: 0 closest, 1 closest + 1
    pub offset: u8,
    pub groups: Vec<GroupSpec>,
    pub txs: Vec<SysTx>,
}

fn dep_pick_strategy() -> impl Strategy<Value = DepPick> {
    (
        prop_oneof![
            8 => Just(1u8),
            8 => Just(2u8),
            4 => Just(3u8),
            4 => Just(4u8),
            4 => Just(5u8),
            2 => Just(6u8),
            1 => Just(7u8),
            2 => Just(8u8),
            8 => Just(9u8),
            1 => Just(10u8),
            2 => Just(11u8),
            1 => Just(12u8),
        ],
        any::<u16>(),
    )
        .prop_map(|(kind, sel)| DepPick { kind, sel })
}

fn sys_tx_strategy() -> impl Strategy<Value = SysTx> {
    (
        proptest::collection::vec(dep_pick_strategy(), 0..=5),
        prop_oneof![3 => Just(0u8), 3 => Just(1u8), 5 => Just(2u8), 5 => Just(3u8)],
        any::<u16>(),
        prop_oneof![5 => Just(true), 1 => Just(false)],
        prop_oneof![24 => Just(false), 1 => Just(true)],
        any::<bool>(),
        0u8..2,
        0u8..4,
    )
        .prop_map(|(deps, target, order, as_direct, dup, submit, base_recipe, trim_recipe)| SysTx {
            deps,
            target,
            order,
            as_direct,
            dup,
            submit,
            base_recipe,
            trim_recipe,
        })
}

pub fn case_strategy(variant: u8, max_txs: usize) -> impl Strategy<Value = SysCase> {
    (
        0u8..3,
        0u8..2,
        proptest::collection::vec((1u8..=24, 0u8..6).prop_map(|(size, recipe)| GroupSpec { size, recipe }), 1..=4),
        proptest::collection::vec(sys_tx_strategy(), 6..=max_txs),
    )
        .prop_map(move |(pre, offset, groups, txs)| SysCase { variant, pre, offset, groups, txs })
}

pub fn variant_cfg(variant: u8) -> SpecCfg {
    let mut c = SpecCfg::default();
    c.permanent_difficulty = true;
    c.epoch_duration_target = 40;
    c.genesis_epoch_length = 5;
    match variant % 4 {
        0 => c.proposal_window = (2, 10),
        1 => c.proposal_window = (2, 4),
        2 => c.proposal_window = (1, 2),
        _ => {
            c.proposal_window = (2, 4);
            c.fake_dao = true;
        }
    }
    c
}

/// what one process saw (compared verbatim between the two processes)
#[derive(Clone, Debug, Default, PartialEq, Eq, Serialize, Deserialize)]
pub struct TxObs {
    pub dry_fresh: String,
    pub submit: Option<String>,
    pub dry_proposed: Option<String>,
    pub block: String,
}

#[derive(Clone, Debug, Default, PartialEq, Eq, Serialize, Deserialize)]
pub struct Obs {
    pub txs: Vec<TxObs>,
    pub final_block: String,
}

struct Sys {
    secp_group: CellKey,
    multisig_group: CellKey,
    secp_code: CellKey,
    dao: CellKey,
    secp_data: CellKey,
    multisig_code: CellKey,
    always_success: CellKey,
    always_failure: CellKey,
}

fn sys_cells(env: &Env) -> Sys {
    let g = env.consensus.genesis_block();
    let t0 = h32(&g.transactions()[0].hash());
    let t1 = h32(&g.transactions()[1].hash());
    Sys {
        secp_group: (t1, 0),
        multisig_group: (t1, 1),
        secp_code: (t0, 1),
        dao: (t0, 2),
        secp_data: (t0, 3),
        multisig_code: (t0, 4),
        always_success: cell_key(&env.always_success_dep.out_point()),
        always_failure: cell_key(&env.always_failure_dep.out_point()),
    }
}

fn group_bytes(members: &[CellKey]) -> Bytes {
    let v: Vec<OutPoint> = members.iter().map(out_point_of).collect();
    OutPointVec::new_builder().set(v).build().as_bytes()
}

fn members(pool: &[CellKey], n: usize, recipe: u8) -> Vec<CellKey> {
    (0..n)
        .map(|j| match recipe % 6 {
            0 => pool[0],
            1 => pool[j % pool.len()],
            2 => pool[(j * j + recipe as usize) % pool.len()],
            3 => if j % 7 == 3 { pool[1 + j % (pool.len() - 1)] } else { pool[0] },
            4 => pool[(j / 3) % pool.len()],
            _ => if j == 0 { pool[0] } else { pool[1 + (j + recipe as usize) % 2] },
        })
        .collect()
}

fn code(k: &CellKey) -> CellDep {
    CellDep::new_builder().out_point(out_point_of(k)).dep_type(DepType::Code).build()
}

fn group(k: &CellKey) -> CellDep {
    CellDep::new_builder().out_point(out_point_of(k)).dep_type(DepType::DepGroup).build()
}

/// the statically known expansion of a pick
fn pick_size(case: &SysCase, p: &DepPick) -> usize {
    match p.kind {
        1 | 2 => 2,
        9 => case.groups[pick_idx(p.sel as u32, case.groups.len())].size as usize,
        _ => 1,
    }
}

struct Plan {
    /// per transaction: cell deps in final order, and what the generator intended
    deps: Vec<Vec<CellDep>>,
    total: Vec<usize>,
    cached_group: Vec<bool>,
    cached_plain: Vec<bool>,
    /// the dep at which the running total first exceeds the limit, or that completes exactly the
    /// limit, is served by the cache
    boundary_at_cached: Vec<bool>,
    prep: Vec<TransactionView>,
    inputs: Vec<CellKey>,
}

const PLAIN_CAP: u64 = 1_000 * 100_000_000;

fn build_plan(env: &Env, case: &SysCase) -> Result<Plan, String> {
    let sys = sys_cells(env);
    let as_lock = env.always_success_lock.clone();
    let mk = |capv: u64| CellOutput::new_builder().capacity(Capacity::shannons(capv)).lock(as_lock.clone()).build();
    if env.faucets.len() < 5 {
        return Err("not enough faucet cells".into());
    }
    let faucet = |i: usize| (cell_key(&env.faucets[i].0), cap(&env.faucets[i].1));
    // --- prep A: one plain cell per transaction + spare ones
    let n = case.txs.len();
    let (fa, fa_cap) = faucet(0);
    let mut tb = TransactionBuilder::default().cell_dep(env.always_success_dep.clone()).input(CellInput::new(out_point_of(&fa), 0));
    for _ in 0..n + 2 {
        tb = tb.output(mk(PLAIN_CAP)).output_data(Bytes::new().pack());
    }
    tb = tb.output(mk(fa_cap - (n as u64 + 2) * PLAIN_CAP - 1_000_000)).output_data(Bytes::new().pack());
    let prep_a = tb.build();
    let ha = h32(&prep_a.hash());
    let inputs: Vec<CellKey> = (0..n).map(|i| (ha, i as u32)).collect();
    let spare: Vec<CellKey> = vec![(ha, n as u32), (ha, n as u32 + 1)];
    let pool: Vec<CellKey> = vec![
        sys.always_success,
        sys.secp_data,
        sys.secp_code,
        sys.dao,
        sys.multisig_code,
        sys.secp_group,
        sys.multisig_group,
        sys.always_failure,
        spare[1],
    ];
    // --- group cells wanted: ordinary groups, base groups (by recipe), trim groups (by size, recipe)
    let mut wanted: Vec<(String, Vec<CellKey>)> = vec![];
    for (i, g) in case.groups.iter().enumerate() {
        wanted.push((format!("g{i}"), members(&pool, g.size as usize, g.recipe)));
    }
    let mut per_tx: Vec<(Vec<(CellDep, usize, u8)>, Option<(String, Option<String>)>)> = vec![];
    for t in &case.txs {
        // picks -> deps, first occurrence of a cell dep wins
        let mut deps: Vec<(CellDep, usize, u8)> = vec![];
        if t.as_direct {
            deps.push((code(&sys.always_success), 1, 0));
        }
        for p in &t.deps {
            let d = match p.kind {
                1 => group(&sys.secp_group),
                2 => group(&sys.multisig_group),
                3 => code(&sys.secp_code),
                4 => code(&sys.dao),
                5 => code(&sys.secp_data),
                6 => code(&sys.multisig_code),
                7 => code(&sys.always_failure),
                8 => code(if p.sel % 2 == 0 { &sys.secp_group } else { &sys.multisig_group }),
                // out point filled in once the group cells exist: marked by a zero hash
                9 => group(&([0u8; 32], pick_idx(p.sel as u32, case.groups.len()) as u32)),
                10 => group(if p.sel % 2 == 0 { &sys.secp_code } else { &sys.always_success }),
                11 => code(&spare[0]),
                _ => {
                    let mut h = [0xc1u8; 32];
                    h[0..2].copy_from_slice(&p.sel.to_le_bytes());
                    if p.sel % 2 == 0 { code(&(h, 0)) } else { group(&(h, 1)) }
                }
            };
            if !deps.iter().any(|x| x.0 == d) {
                deps.push((d, pick_size(case, p), p.kind));
            }
        }
        let total: usize = deps.iter().map(|d| d.1).sum();
        let mut filler = None;
        if (1..=3).contains(&t.target) {
            let want = LIMIT - 2 + t.target as usize;
            if want >= total + BASE_SIZE {
                let rest = want - total - BASE_SIZE;
                let base_name = format!("base{}", t.base_recipe % 2);
                if !wanted.iter().any(|w| w.0 == base_name) {
                    wanted.push((base_name.clone(), members(&pool, BASE_SIZE, if t.base_recipe % 2 == 0 { 0 } else { 3 })));
                }
                let trim_name = if rest > 0 {
                    let name = format!("trim{}r{}", rest, t.trim_recipe % 4);
                    if !wanted.iter().any(|w| w.0 == name) {
                        wanted.push((name.clone(), members(&pool, rest, [0u8, 1, 4, 5][t.trim_recipe as usize % 4])));
                    }
                    Some(name)
                } else {
                    None
                };
                filler = Some((base_name, trim_name));
            }
        }
        per_tx.push((deps, filler));
    }
    // --- prep B (small groups) and prep C.. (one transaction per base group: 68 kB of data each)
    let mut prep = vec![prep_a];
    let mut where_is: BTreeMap<String, CellKey> = BTreeMap::new();
    let mut next_faucet = 1;
    let (small, big): (Vec<_>, Vec<_>) = wanted.iter().partition(|w| w.1.len() < 1000);
    let mut batches: Vec<Vec<&(String, Vec<CellKey>)>> = vec![small];
    for b in big {
        batches.push(vec![b]);
    }
    for batch in batches {
        if batch.is_empty() {
            continue;
        }
        if next_faucet >= env.faucets.len() {
            return Err("out of faucet cells".into());
        }
        let (f, fcap) = faucet(next_faucet);
        next_faucet += 1;
        let mut tb = TransactionBuilder::default().cell_dep(env.always_success_dep.clone()).input(CellInput::new(out_point_of(&f), 0));
        let mut used: u64 = 0;
        for (_, m) in batch.iter().map(|w| (&w.0, &w.1)) {
            let data = group_bytes(m);
            let c = occupied_shannons(&mk(0), data.len()) as u64;
            used += c;
            tb = tb.output(mk(c)).output_data(data.pack());
        }
        if fcap < used + 200 * 100_000_000 {
            return Err("faucet too small for the group cells".into());
        }
        tb = tb.output(mk(fcap - used - 1_000_000)).output_data(Bytes::new().pack());
        let tx = tb.build();
        let h = h32(&tx.hash());
        for (i, w) in batch.iter().enumerate() {
            where_is.insert(w.0.clone(), (h, i as u32));
        }
        prep.push(tx);
    }
    // --- final dep lists
    let mut plan = Plan { deps: vec![], total: vec![], cached_group: vec![], cached_plain: vec![], boundary_at_cached: vec![], prep, inputs };
    for (t, (deps, filler)) in case.txs.iter().zip(per_tx) {
        let mut list: Vec<(CellDep, usize, u8)> = vec![];
        for (d, size, kind) in deps {
            let d = if kind == 9 {
                let i: u32 = d.out_point().index().into();
                group(&where_is[&format!("g{i}")])
            } else {
                d
            };
            if !list.iter().any(|x| x.0 == d) {
                list.push((d, size, kind));
            }
        }
        if let Some((base, trim)) = filler {
            list.push((group(&where_is[&base]), BASE_SIZE, 20));
            if let Some(tn) = trim {
                let size: usize = tn[4..].split('r').next().unwrap().parse().unwrap();
                list.push((group(&where_is[&tn]), size, 21));
            }
        }
        if !list.is_empty() {
            let r = t.order as usize % list.len();
            list.rotate_left(r);
            if (t.order / 7) % 2 == 1 {
                list.reverse();
            }
        }
        if t.dup && !list.is_empty() {
            let d = list[t.order as usize % list.len()].clone();
            list.push((d.0, 0, 30));
        }
        let total: usize = list.iter().map(|d| d.1).sum();
        let mut run = 0usize;
        let mut at_cached = false;
        for (_, size, kind) in &list {
            let before = run;
            run += size;
            let cached = matches!(kind, 1..=5);
            if cached && ((before <= LIMIT && run > LIMIT) || (run == LIMIT && total == LIMIT)) {
                at_cached = true;
            }
        }
        plan.cached_group.push(list.iter().any(|d| matches!(d.2, 1 | 2)));
        plan.cached_plain.push(list.iter().any(|d| matches!(d.2, 3..=5)));
        plan.boundary_at_cached.push(at_cached);
        plan.total.push(total);
        plan.deps.push(list.into_iter().map(|d| d.0).collect());
    }
    Ok(plan)
}

fn opts() -> BuildOpts {
    BuildOpts { use_node_reward_quirk: true, ..Default::default() }
}

fn pool_answer(node: &Node, tx: &TransactionView, submit: bool) -> Result<String, Violation> {
    let c = node.shared.tx_pool_controller();
    if submit {
        match c.submit_local_tx(tx.clone()) {
            Ok(Ok(())) => Ok("ok".into()),
            Ok(Err(r)) => Ok(format!("reject:{}", err_class(&format!("{r:?}")))),
            Err(e) => Err(Violation::new("harness:pool-call", e.to_string())),
        }
    } else {
        match c.test_accept_tx(tx.clone()) {
            Ok(Ok(c)) => Ok(format!("ok:cycles={}:fee={}", c.cycles, c.fee.as_u64())),
            Ok(Err(r)) => Ok(format!("reject:{}", err_class(&format!("{r:?}")))),
            Err(e) => Err(Violation::new("harness:pool-call", e.to_string())),
        }
    }
}

static CACHE_GENESIS: std::sync::OnceLock<[u8; 32]> = std::sync::OnceLock::new();

/// Run the case in this process.  `cached` = SYSTEM_CELL must be installed (helper process).
pub fn evaluate(case: &SysCase, cached: bool, st: &mut Stats) -> Result<Obs, Violation> {
    install_panic_recorder();
    clear_panics();
    let who = if cached { "with SYSTEM_CELL cache" } else { "without SYSTEM_CELL cache" };
    let cfg = variant_cfg(case.variant);
    let env = build_env(&cfg);
    let (close, _far) = cfg.proposal_window;
    let min_fee_rate = 1000u64;
    let mut pc = ckb_app_config::TxPoolConfig::default();
    pc.min_fee_rate = FeeRate::from_u64(min_fee_rate);
    let node = Node::start(&env, NodeCfg { tx_pool: Some(pc), ..Default::default() }).map_err(|e| Violation::new("harness:node-start", e))?;
    let genesis = env.consensus.genesis_block();
    let installed = ckb_types::core::cell::SYSTEM_CELL.get().is_some();
    if cached {
        if !installed {
            // what ckb-bin/src/subcommand/run.rs does after the shared state is built
            if ckb_types::core::cell::setup_system_cell_cache(genesis, node.shared.snapshot().as_ref()).is_err() {
                return Err(Violation::new("harness:system-cell-cache", "setup_system_cell_cache failed"));
            }
            let _ = CACHE_GENESIS.set(h32(&genesis.hash()));
        }
        if CACHE_GENESIS.get() != Some(&h32(&genesis.hash())) {
            return Err(Violation::new("harness:system-cell-cache-of-another-genesis", "SYSTEM_CELL was installed for another genesis block"));
        }
    } else if installed {
        return Err(Violation::new("harness:system-cell-cache-already-installed", "SYSTEM_CELL is installed in the process that must run without it"));
    }
    let plan = build_plan(&env, case).map_err(|e| Violation::new("harness:plan", e))?;
    let mut tree = Tree::new(env.consensus.clone());
    let mut cur = tree.genesis.clone();
    let push = |tree: &mut Tree, cur: &mut H, proposals: Vec<ckb_types::packed::ProposalShortId>, txs: Vec<TransactionView>, what: &str| -> Result<(), Violation> {
        let ts = tree.get(cur).block.timestamp() + 1000;
        let sp = BlockSpec { timestamp: ts, proposals, txs, miner_lock: Some(env.always_success_lock.clone()), message: vec![14], ..Default::default() };
        let mb = tree.build(cur, &sp, &opts()).map_err(|e| Violation::new("harness:model-build", format!("{what}: {e}")))?;
        if let Err(e) = node.submit(&mb.block) {
            return Err(Violation::new("harness:chain-block-refused", format!("{who}: {what} #{} refused: {e}", mb.number)));
        }
        *cur = tree.insert(mb);
        Ok(())
    };
    for _ in 0..=(case.pre % 3) {
        push(&mut tree, &mut cur, vec![], vec![], "empty block")?;
    }
    push(&mut tree, &mut cur, plan.prep.iter().map(|t| t.proposal_short_id()).collect(), vec![], "block proposing the preparation")?;
    for _ in 1..close {
        push(&mut tree, &mut cur, vec![], vec![], "empty block")?;
    }
    push(&mut tree, &mut cur, vec![], plan.prep.clone(), "block committing the preparation")?;
    node_panic_violation()?;

    // --- candidates
    let mut txs: Vec<TransactionView> = vec![];
    for (i, deps) in plan.deps.iter().enumerate() {
        let mut tb = TransactionBuilder::default().input(CellInput::new(out_point_of(&plan.inputs[i]), 0));
        for d in deps {
            tb = tb.cell_dep(d.clone());
        }
        let out = CellOutput::new_builder().capacity(Capacity::shannons(PLAIN_CAP - 10_000_000)).lock(env.always_success_lock.clone()).build();
        txs.push(tb.output(out).output_data(Bytes::new().pack()).build());
    }
    let params = |pool: bool| Params {
        maturity: Ep::from_full(cfg.cellbase_maturity),
        as_hash: env.always_success_lock.code_hash(),
        af_hash: env.always_failure_lock.code_hash(),
        pool,
        dao_type_hash: env.consensus.dao_type_hash(),
        dao_lock_start: env.consensus.starting_block_limiting_dao_withdrawing_lock(),
    };
    let mut obs = Obs::default();
    let penv = |tree: &Tree, tip: &H, number: u64| PosEnv { number, epoch: Ep::from_full(tree.get(tip).block.epoch().full_value()), median: tree.median_time(tip) };
    let judge_pool = |api: &str, status: &str, ev: &Eval, ans: &str, tx: &TransactionView, st: &mut Stats| -> Verdict {
        st.eval("syscell-pool-verdict");
        let accepted = ans.starts_with("ok");
        st.label(&format!("syscell:pool:{status}:{}", if accepted { "accepted" } else { "rejected" }));
        if accepted && !ev.valid() {
            vfail!(
                format!("syscell:pool:{api}:accepted-invalid:{}", ev.failed[0]),
                "node {who}: {api} ({status}) accepted a transaction the model rejects for {:?}; tx = {}",
                ev.failed,
                tx_brief(tx)
            );
        }
        if !accepted && ev.valid() && ev.undetermined.is_empty() {
            vfail!(
                format!("syscell:pool:{api}:rejected-valid:{}", ans.trim_start_matches("reject:")),
                "node {who}: {api} ({status}) answered {ans} for a transaction that meets every rule; tx = {}",
                tx_brief(tx)
            );
        }
        if let Some(f) = ans.split(":fee=").nth(1) {
            if ev.valid() && f.parse::<i128>().ok() != Some(ev.fee) {
                vfail!("syscell:pool:fee-differs", "node {who}: reported fee {f}, model {}; tx = {}", ev.fee, tx_brief(tx));
            }
        }
        Ok(())
    };
    // fresh stage
    if !node.wait_pool_synced(Duration::from_secs(30)) {
        vfail!("harness:pool-not-synced", "{who}: pool did not reach the tip");
    }
    let tipn = tree.get(&cur).number;
    for (i, tx) in txs.iter().enumerate() {
        let view = View::new(&tree, &cur);
        let ev = eval(&view, tx, &penv(&tree, &cur, tipn + 1 + close), &params(true));
        let feats = (plan.total[i], plan.cached_group[i], plan.cached_plain[i]);
        if (LIMIT - 1..=LIMIT + 1).contains(&feats.0) {
            st.label(&format!("syscell:total-{}", feats.0));
            if feats.1 {
                st.label(&format!("syscell:total-{}:with-cached-group", feats.0));
            }
            if feats.2 {
                st.label(&format!("syscell:total-{}:with-cached-plain-cell", feats.0));
            }
            if plan.boundary_at_cached[i] {
                st.label(&format!("syscell:total-{}:limit-decided-at-a-cached-dep", feats.0));
            }
            if feats.1 || feats.2 {
                st.nontrivial(&("syscell", h32(&tx.hash()), feats.0));
            }
        } else {
            st.label("syscell:total-elsewhere");
        }
        for f in &ev.failed {
            st.label(&format!("syscell:model-invalid:{f}"));
        }
        if ev.valid() {
            st.label("syscell:model-valid");
        }
        let ans = pool_answer(&node, tx, false)?;
        node_panic_violation()?;
        judge_pool("test_accept_tx", "fresh", &ev, &ans, tx, st)?;
        let mut o = TxObs { dry_fresh: ans, ..Default::default() };
        if case.txs[i].submit {
            let ans = pool_answer(&node, tx, true)?;
            node_panic_violation()?;
            judge_pool("submit_local_tx", "fresh", &ev, &ans, tx, st)?;
            o.submit = Some(ans);
        }
        obs.txs.push(o);
    }
    // propose all, walk to the commit position
    push(&mut tree, &mut cur, txs.iter().map(|t| t.proposal_short_id()).collect(), vec![], "block proposing the candidates")?;
    let d = close + (case.offset as u64 % 2).min(cfg.proposal_window.1 - close);
    for _ in 1..d {
        push(&mut tree, &mut cur, vec![], vec![], "empty block")?;
    }
    if !node.wait_pool_synced(Duration::from_secs(30)) {
        vfail!("harness:pool-not-synced", "{who}: pool did not reach the tip");
    }
    let tipn = tree.get(&cur).number;
    for (i, tx) in txs.iter().enumerate() {
        if case.txs[i].submit {
            continue;
        }
        let view = View::new(&tree, &cur);
        let ev = eval(&view, tx, &penv(&tree, &cur, (tipn + close).saturating_sub(1)), &params(true));
        let ans = pool_answer(&node, tx, false)?;
        node_panic_violation()?;
        judge_pool("test_accept_tx", "proposed", &ev, &ans, tx, st)?;
        obs.txs[i].dry_proposed = Some(ans);
    }
    // --- block side
    let ts = tree.get(&cur).block.timestamp() + 1000;
    let base_spec = BlockSpec { timestamp: ts, miner_lock: Some(env.always_success_lock.clone()), message: vec![14], ..Default::default() };
    let probe_parent = tree.get(&cur);
    let next_epoch = {
        // position of the next block: built empty on a scratch basis
        let mb = tree.build(&cur, &base_spec, &opts()).map_err(|e| Violation::new("harness:model-build", e))?;
        (mb.number, Ep::from_full(mb.block.epoch().full_value()))
    };
    let _ = probe_parent;
    let benv = PosEnv { number: next_epoch.0, epoch: next_epoch.1, median: tree.median_time(&cur) };
    let binfo = CellInfo { number: next_epoch.0, epoch: next_epoch.1, ts, cellbase: false, hash: None };
    let mut accepted: Vec<TransactionView> = vec![];
    let mut view = View::new(&tree, &cur);
    for (i, tx) in txs.iter().enumerate() {
        let ev = eval(&view, tx, &benv, &params(false));
        st.eval("syscell-block-verdict");
        if ev.valid() {
            view.apply(tx, Some(binfo));
            accepted.push(tx.clone());
            obs.txs[i].block = "committed".into();
            continue;
        }
        let mut sp = base_spec.clone();
        sp.txs = accepted.clone();
        let mb0 = tree.build(&cur, &sp, &opts()).map_err(|e| Violation::new("harness:model-build", e))?;
        let mut dao = mb0.dao;
        let mut added: u128 = 0;
        let mut freed: u128 = 0;
        for (o, d) in tx.outputs_with_data_iter() {
            added += occupied_shannons(&o, d.len());
        }
        for op in tx.input_pts_iter() {
            if let Some(c) = tree.get(&cur).state.live.get(&cell_key(&op)) {
                freed += occupied_shannons(&c.output, c.data.len());
            }
        }
        dao.u = (dao.u as u128 + added).saturating_sub(freed) as u64;
        let probe: BlockView = mb0.block.as_advanced_builder().transaction(tx.clone()).dao(dao.pack()).build();
        let res = node.submit(&probe);
        node_panic_violation()?;
        match res {
            Ok(_) => {
                vfail!(
                    format!("syscell:block:accepted-invalid:{}", ev.failed[0]),
                    "node {who} accepted block #{} committing a transaction (expansion counted by the generator: {}) the model rejects for {:?}; tx = {}",
                    next_epoch.0,
                    plan.total[i],
                    ev.failed,
                    tx_brief(tx)
                );
            }
            Err(e) => {
                let cl = err_class(&e);
                st.label(&format!("syscell:block:refused:{cl}"));
                let about_tx = e.contains(&format!("BlockTransactionsError(index: {}", accepted.len() + 1)) || e.contains("OutPoint") || cl == "OverMaxDepExpansionLimit" || cl == "InvalidDepGroup";
                if !about_tx && !matches!(cl, "DuplicateCellDeps" | "Script" | "ValidationFailure" | "ScriptNotFound") {
                    vfail!("harness:probe-refused-for-another-reason", "{who}: probe block for {:?} refused with: {e}", ev.failed);
                }
                obs.txs[i].block = format!("refused:{cl}");
            }
        }
        if node.tip_hash() != cur {
            vfail!("syscell:block:refused-block-changed-the-tip", "node {who}: tip moved after the refused probe block");
        }
    }
    let mut sp = base_spec.clone();
    sp.txs = accepted.clone();
    let mb = tree.build(&cur, &sp, &opts()).map_err(|e| Violation::new("harness:model-build", e))?;
    let res = node.submit(&mb.block);
    node_panic_violation()?;
    match res {
        Ok(_) => {
            obs.final_block = "accepted".into();
            st.label_n("syscell:block:valid-candidates-committed", accepted.len() as u64);
        }
        Err(e) => {
            if accepted.is_empty() {
                vfail!("harness:chain-block-refused", "{who}: empty block refused: {e}");
            }
            vfail!(
                format!("syscell:block:rejected-valid:{}", err_class(&e)),
                "node {who} refused block #{} whose {} committed transactions all meet every rule of the model: {e}; txs = {}",
                mb.number,
                accepted.len(),
                Value::Array(accepted.iter().map(tx_brief).collect())
            );
        }
    }
    if st.want_sample() {
        let i = (0..txs.len()).find(|i| (LIMIT - 1..=LIMIT + 1).contains(&plan.total[*i]) && plan.cached_group[*i]);
        if let Some(i) = i {
            st.sample(|| json!({"sub": SUB, "variant": case.variant % 4, "process": who, "expansion": plan.total[i], "limit_decided_at_cached_dep": plan.boundary_at_cached[i], "observed": obs.txs[i], "cell_deps": txs[i].cell_deps().len()}));
        }
    }
    node.stop();
    Ok(obs)
}

// ------------------------------------------------------------------------------------------------
// helper process

struct Server {
    child: Child,
    stdin: ChildStdin,
    rx: mpsc::Receiver<String>,
    variant: u8,
    cached: bool,
}

impl Drop for Server {
    fn drop(&mut self) {
        let _ = self.child.kill();
        let _ = self.child.wait();
    }
}

thread_local! {
    static SERVERS: RefCell<Vec<Server>> = const { RefCell::new(Vec::new()) };
}

fn spawn_server(variant: u8, cached: bool, tier: Tier) -> Result<Server, String> {
    let exe = std::env::current_exe().map_err(|e| e.to_string())?;
    let out = std::env::temp_dir().join(format!("syscell-server-{}-{}-{}.json", std::process::id(), variant, cached));
    let mut child = Command::new(exe)
        .arg("C14")
        .arg("--tier")
        .arg(tier.name())
        .arg("--worker")
        .arg("0/1")
        .arg("--out")
        .arg(&out)
        .env(SERVER_ENV, if cached { "cached" } else { "cold" })
        .stdin(Stdio::piped())
        .stdout(Stdio::piped())
        .stderr(Stdio::inherit())
        .spawn()
        .map_err(|e| format!("spawn helper: {e}"))?;
    let stdin = child.stdin.take().ok_or("no stdin")?;
    let stdout = child.stdout.take().ok_or("no stdout")?;
    let (tx, rx) = mpsc::channel();
    std::thread::spawn(move || {
        let r = BufReader::new(stdout);
        for line in r.lines() {
            match line {
                Ok(l) => {
                    if let Some(body) = l.strip_prefix(LINE_TAG) {
                        if tx.send(body.to_string()).is_err() {
                            break;
                        }
                    }
                }
                Err(_) => break,
            }
        }
    });
    Ok(Server { child, stdin, rx, variant, cached })
}

#[derive(Serialize, Deserialize)]
enum Reply {
    Obs(Obs),
    Violation(Violation),
}

fn ask_server(case: &SysCase, cached: bool, tier: Tier) -> Result<Reply, Violation> {
    SERVERS.with(|s| {
        let mut s = s.borrow_mut();
        // a helper holds the cache of one genesis block: one helper per (spec variant, mode)
        let pos = match s.iter().position(|x| x.variant == case.variant % 4 && x.cached == cached) {
            Some(p) => p,
            None => {
                s.push(spawn_server(case.variant % 4, cached, tier).map_err(|e| Violation::new("harness:syscell-helper", e))?);
                s.len() - 1
            }
        };
        let srv = &mut s[pos];
        let line = serde_json::to_string(case).unwrap();
        let sent = writeln!(srv.stdin, "{line}").and_then(|_| srv.stdin.flush());
        let answer = match sent {
            Ok(()) => srv.rx.recv_timeout(Duration::from_secs(300)).map_err(|e| format!("no answer from the helper process: {e}")),
            Err(e) => Err(format!("helper process gone: {e}")),
        };
        match answer {
            Ok(a) => serde_json::from_str::<Reply>(&a).map_err(|e| Violation::new("harness:syscell-helper", format!("bad answer: {e}"))),
            Err(e) => {
                s.remove(pos);
                Err(Violation::new("harness:syscell-helper", e))
            }
        }
    })
}

pub fn is_server() -> bool {
    std::env::var_os(SERVER_ENV).is_some()
}

/// helper process: cases on stdin (one JSON per line), observations on stdout
pub fn serve() {
    let cached = std::env::var(SERVER_ENV).map(|v| v == "cached").unwrap_or(true);
    let stdin = std::io::stdin();
    let mut st = Stats::default();
    st.freeze();
    for line in stdin.lock().lines() {
        let line = match line {
            Ok(l) => l,
            Err(_) => break,
        };
        if line.trim().is_empty() {
            continue;
        }
        let reply = match serde_json::from_str::<SysCase>(&line) {
            Ok(case) => {
                let r = std::panic::catch_unwind(std::panic::AssertUnwindSafe(|| evaluate(&case, cached, &mut st)));
                match r {
                    Ok(Ok(o)) => Reply::Obs(o),
                    Ok(Err(v)) => Reply::Violation(v),
                    Err(_) => {
                        let p = all_panics().into_iter().next_back();
                        let (loc, msg) = p.map(|p| (p.location, p.message)).unwrap_or_default();
                        Reply::Violation(Violation::new(format!("syscell:panic:{}@{loc}", if cached { "with-cache" } else { "without-cache" }), format!("evaluation {} the SYSTEM_CELL cache panicked at {loc}: {msg}", if cached { "with" } else { "without" })))
                    }
                }
            }
            Err(e) => Reply::Violation(Violation::new("harness:syscell-helper", format!("bad case: {e}"))),
        };
        let out = std::io::stdout();
        let mut o = out.lock();
        let _ = writeln!(o, "{LINE_TAG}{}", serde_json::to_string(&reply).unwrap());
        let _ = o.flush();
    }
}

pub fn prop(case: &SysCase, st: &mut Stats, tier: Tier) -> Verdict {
    st.label(&format!("syscell:spec-variant-{}", case.variant % 4));
    // this process normally is the one without the cache; when something else has installed it here
    // (replays run in the parent process after other C14 replays) a second helper stands in
    let cold = if ckb_types::core::cell::SYSTEM_CELL.get().is_none() {
        evaluate(case, false, st)?
    } else {
        match ask_server(case, false, tier)? {
            Reply::Obs(o) => o,
            Reply::Violation(v) => return Err(v),
        }
    };
    let warm = match ask_server(case, true, tier)? {
        Reply::Obs(o) => o,
        Reply::Violation(v) => return Err(v),
    };
    st.eval("syscell-twin-comparison");
    if cold != warm {
        let i = (0..cold.txs.len().min(warm.txs.len())).find(|i| cold.txs[*i] != warm.txs[*i]);
        vfail!(
            "syscell:twin:observations-differ",
            "the process without the SYSTEM_CELL cache and the process with it disagree{}: without {:?}, with {:?}",
            i.map(|i| format!(" on transaction {i}")).unwrap_or_default(),
            i.map(|i| json!(cold.txs[i])).unwrap_or(json!(cold.final_block)),
            i.map(|i| json!(warm.txs[i])).unwrap_or(json!(warm.final_block))
        );
    }
    Ok(())
}

pub fn run(ctx: &Ctx) {
    let cases = ctx.cases(64, 960);
    let max_txs = ctx.tier.pick(12, 16);
    let variant = (ctx.worker % 4) as u8;
    let tier = ctx.tier;
    // one evaluation = two node lifetimes in two processes, and the cases are small already
    let shrink = ctx.shrink_iters.get();
    ctx.shrink_iters.set(16);
    ctx.run_prop(SUB, cases, case_strategy(variant, max_txs), move |c, st| prop(c, st, tier));
    ctx.shrink_iters.set(shrink);
    SERVERS.with(|s| s.borrow_mut().clear());
}

pub fn replay(ctx: &Ctx, v: &Value) -> Verdict {
    let c: SysCase = from_case(v)?;
    let mut st = ctx.stats.borrow_mut();
    let r = prop(&c, &mut st, ctx.tier);
    SERVERS.with(|s| s.borrow_mut().clear());
    r
}
