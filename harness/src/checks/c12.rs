//! C12 — after any reorg the pool agrees with the new chain: no stale, dead or lost txs.
//!
//! One case = spec variant x node configuration (with / without a block assembler) x Vec<Op>.
//! The machine keeps a reference model of every branch (`Tree`) and the set of every transaction it
//! ever created; the pool's contents are never predicted, they are read back from the node (pool
//! dump hook + public API) after every chain change and judged against the model of the NEW main
//! chain, clause by clause of the property statement.
use crate::common::*;
use crate::model::*;
use crate::node::*;
use crate::plan::lock_variant;
use crate::vfail;
use ckb_app_config::{BlockAssemblerConfig, TxPoolConfig};
use ckb_jsonrpc_types::JsonBytes;
use ckb_tx_pool::verif::VerifStatus;
use ckb_types::{
    bytes::Bytes,
    core::{Capacity, DepType, TransactionBuilder, TransactionView},
    packed::{Byte32, CellDep, CellInput, CellOutput, ProposalShortId},
    prelude::*,
};
use proptest::prelude::*;
use serde::{Deserialize, Serialize};
use serde_json::{Value, json};
use std::collections::{BTreeMap, BTreeSet};
use std::time::Duration;

pub fn spec() -> CheckSpec {
    CheckSpec {
        id: "C12",
        level: "exploration",
        rule: "proptest stateful machine on a real node (with a block assembler = mine mode, and without); one case = spec variant (windows (2,4), (1,2) permanent difficulty, (2,10) dynamic difficulty) x mode x Vec<Op>. Ops: submit a generated transaction (chains/diamonds over chain cells and pooled outputs, fee = f(min_fee_rate*size): below / exactly at / above the pool's minimum, header dep on one of the 6 newest main-chain blocks, shared extra cell dep); create a conflicting transaction only block builders know; extend the tip with a model-built block proposing / committing generated subsets (optionally only fresh ids, so proposals expire at w_far); FORK: deliver a model-built competing branch from an ancestor 1..w_far+2 below the tip (or on top of the last abandoned tip) until it is heavier, plus 0-2 blocks, whose blocks propose/commit other subsets, force-propose and commit transactions that conflict with pooled / old-branch transactions, or commit nothing; optionally 1-3 submissions fired from a second thread while the reorging block is processed. After EVERY tip change, once get_tx_pool_info reports the new tip, the pool (verif_dump hook cross-checked with get_all_entry_info) is judged against the reference model of the new main chain: (1) no pooled tx committed on it; (2) every input/cell dep of every pooled tx live on it or an output of another pooled tx, no input spent twice inside the pool; (3) every pooled header dep on the main chain; (4) every tx committed only on the detached blocks that is admissible (inputs/deps resolvable on new chain + pool and not spent by another pooled tx, header deps on the main chain, fee >= min_fee_rate*size) is pooled again; (5) mine mode: stage Proposed <=> id in the model's committable set of the tip, Gap <=> in its gap set, else Pending. Also: node tip = model's heaviest tip, no node thread panics. Known findings are counted, the stale entries removed (remove_local_tx) and the history continues. Non-trivial = reorg detaching >= 2 blocks with >= 1 re-added and >= 1 evicted-by-conflict transaction; distinct by hash of (variant, mode, ops prefix).",
        assumptions: &[
            "the interleaving of the asynchronous reorg notification with concurrent submissions is sampled (a second driver thread with generated delays; the skip-recheck mutation is caught, so the path is reached), not enumerated; the oracle is evaluated only after the pool reports the new tip and the submitting thread has returned",
            "pool limits are the TxPoolConfig defaults (max_ancestors_count 1000, max_tx_pool_size 180 MB, max_tx_verify_cycles, 12 h expiry) and are never reached by a case, so the only policy condition that decides re-admission is the min fee rate; generated transactions do not spend cellbase outputs (maturity is 0 in the test spec) and use since = 0",
            "cell deps are code deps on plain cells; all scripts are always_success; blocks carry no uncles",
            "the Gap/Pending distinction and the transaction bodies are read through the tx-pool verif-hooks dump (feature verif-hooks of ckb-tx-pool, written for C11)",
        ],
        workers: |_| 8,
        watchdog_s: |t| t.pick(1500, 7200),
        run,
        replay,
    }
}

// ---------------------------------------------------------------------------------------------
// case
// ---------------------------------------------------------------------------------------------

#[derive(Clone, Debug, Serialize, Deserialize)]
pub struct TxGen {
    /// selectors over spendable cells
    pub inputs: Vec<u16>,
    /// bit i: input i is taken from the outputs of pooled transactions when there are any
    pub from_pool: u8,
    pub outputs: u8,
    /// fee class: 0 = min-1, 1 = 0, 2 = exactly min, 3 = min+1, 4 = 2*min, 5.. = larger
    pub fee: u8,
    pub lock_variant: u8,
    pub data_len: u8,
    /// header dep on the main-chain block this many blocks below the tip
    pub header_dep: Option<u8>,
    /// extra cell dep on one of the first few spendable cells (shared between transactions)
    pub dep: Option<u16>,
}

#[derive(Clone, Debug, Serialize, Deserialize)]
pub struct BlockGen {
    /// bit i%16 <-> propose candidate i
    pub propose: u16,
    /// propose only ids that are not inside the proposal window already (lets proposals expire)
    pub fresh_only: bool,
    /// bit i%16 <-> commit candidate i (after rotation)
    pub commit: u16,
    pub rot: u16,
    pub ts: u8,
    pub miner: u8,
}

#[derive(Clone, Debug, Serialize, Deserialize)]
pub struct ConflictGen {
    pub target: u16,
    pub lock_variant: u8,
    pub fee: u8,
}

#[derive(Clone, Debug, Serialize, Deserialize)]
pub enum Op {
    Submit(TxGen),
    /// a transaction spending an input of a pooled transaction, known to block builders only
    Foreign(ConflictGen),
    Extend(BlockGen),
    Fork {
        /// ancestor = 1 + min(depth, w_far+1) blocks below the tip
        depth: u8,
        /// build on the most recently abandoned tip instead (when there is one)
        revive: bool,
        /// blocks delivered after the branch became the main chain
        extra: u8,
        blocks: Vec<BlockGen>,
        /// conflicting transactions proposed by the first branch block
        conflicts: Vec<ConflictGen>,
        /// submitted from a second thread while the reorging block is processed (delay selector)
        race: Vec<TxGen>,
        race_delay: u8,
    },
}

#[derive(Clone, Debug, Serialize, Deserialize)]
pub struct Case {
    pub variant: u8,
    pub mine: bool,
    pub ops: Vec<Op>,
}

fn tx_gen_strategy() -> impl Strategy<Value = TxGen> {
    (
        proptest::collection::vec(any::<u16>(), 1..=2),
        prop_oneof![2 => Just(0u8), 3 => Just(0xffu8), 1 => any::<u8>()],
        1u8..=3,
        prop_oneof![1 => Just(0u8), 1 => Just(1u8), 2 => Just(2u8), 3 => Just(3u8), 4 => Just(4u8), 3 => 5u8..8],
        0u8..4,
        prop_oneof![4 => Just(0u8), 1 => 1u8..40],
        prop_oneof![5 => Just(None), 1 => (0u8..6).prop_map(Some)],
        prop_oneof![5 => Just(None), 1 => any::<u16>().prop_map(Some)],
    )
        .prop_map(|(inputs, from_pool, outputs, fee, lock_variant, data_len, header_dep, dep)| TxGen {
            inputs,
            from_pool,
            outputs,
            fee,
            lock_variant,
            data_len,
            header_dep,
            dep,
        })
}

fn block_gen_strategy() -> impl Strategy<Value = BlockGen> {
    (
        prop_oneof![3 => Just(0u16), 3 => Just(0xffffu16), 3 => any::<u16>()],
        any::<bool>(),
        prop_oneof![2 => Just(0u16), 5 => Just(0xffffu16), 3 => any::<u16>()],
        any::<u16>(),
        0u8..4,
        0u8..4,
    )
        .prop_map(|(propose, fresh_only, commit, rot, ts, miner)| BlockGen {
            propose,
            fresh_only,
            commit,
            rot,
            ts,
            miner,
        })
}

/// blocks of a competing branch: more often propose / commit nothing of their own accord (the
/// conflicting transactions are proposed by force), so that detached transactions come back
fn fork_block_gen_strategy() -> impl Strategy<Value = BlockGen> {
    (
        prop_oneof![4 => Just(0u16), 2 => Just(0xffffu16), 4 => any::<u16>()],
        any::<bool>(),
        prop_oneof![3 => Just(0u16), 4 => Just(0xffffu16), 3 => any::<u16>()],
        any::<u16>(),
        0u8..4,
        0u8..4,
    )
        .prop_map(|(propose, fresh_only, commit, rot, ts, miner)| BlockGen {
            propose,
            fresh_only,
            commit,
            rot,
            ts,
            miner,
        })
}

fn conflict_gen_strategy() -> impl Strategy<Value = ConflictGen> {
    (any::<u16>(), 0u8..4, 2u8..6).prop_map(|(target, lock_variant, fee)| ConflictGen { target, lock_variant, fee })
}

fn op_strategy() -> impl Strategy<Value = Op> {
    prop_oneof![
        8 => tx_gen_strategy().prop_map(Op::Submit),
        1 => conflict_gen_strategy().prop_map(Op::Foreign),
        5 => block_gen_strategy().prop_map(Op::Extend),
        3 => (
            prop_oneof![3 => 0u8..3, 2 => 3u8..6, 1 => 6u8..13],
            prop_oneof![4 => Just(false), 1 => Just(true)],
            0u8..3,
            proptest::collection::vec(fork_block_gen_strategy(), 1..=4),
            proptest::collection::vec(conflict_gen_strategy(), 0..=2),
            prop_oneof![2 => Just(vec![]), 1 => proptest::collection::vec(tx_gen_strategy(), 1..=3)],
            0u8..4,
        )
            .prop_map(|(depth, revive, extra, blocks, conflicts, race, race_delay)| Op::Fork {
                depth,
                revive,
                extra,
                blocks,
                conflicts,
                race,
                race_delay,
            }),
    ]
}

fn case_strategy(max_ops: usize) -> impl Strategy<Value = Case> {
    // variant % 3 = chain spec; variant / 3 == 1 = a pool whose max_tx_verify_cycles (600) lies
    // below the cost of a transaction with two script groups (2 x 537 cycles)
    (0u8..6, prop_oneof![3 => Just(true), 1 => Just(false)], proptest::collection::vec(op_strategy(), 3..max_ops))
        .prop_map(|(variant, mine, ops)| Case { variant, mine, ops })
}

fn variant_cfg(variant: u8) -> SpecCfg {
    let mut c = SpecCfg::default();
    match variant % 3 {
        0 => {
            c.permanent_difficulty = true;
            c.epoch_duration_target = 48;
            c.proposal_window = (2, 4);
        }
        1 => {
            c.permanent_difficulty = true;
            c.epoch_duration_target = 64;
            c.proposal_window = (1, 2);
        }
        _ => {
            c.permanent_difficulty = false;
            c.genesis_epoch_length = 6;
            c.proposal_window = (2, 10);
        }
    }
    c
}

fn assembler_cfg(env: &Env) -> BlockAssemblerConfig {
    let code_hash: [u8; 32] = env.always_success_lock.code_hash().as_slice().try_into().unwrap();
    BlockAssemblerConfig {
        code_hash: ckb_types::H256(code_hash),
        args: JsonBytes::default(),
        hash_type: ckb_jsonrpc_types::ScriptHashType::Data,
        message: JsonBytes::from_vec(b"verif".to_vec()),
        use_binary_version_as_message_prefix: false,
        binary_version: "TEST".to_string(),
        update_interval_millis: 0,
        notify: vec![],
        notify_scripts: vec![],
        notify_timeout_millis: 800,
    }
}

// ---------------------------------------------------------------------------------------------
// world
// ---------------------------------------------------------------------------------------------

type TxH = [u8; 32];

#[derive(Clone, Debug)]
#[allow(dead_code)]
struct Known {
    tx: TransactionView,
    fee: u64,
    min_fee: u64,
    /// never offered to the pool by the machine (conflicting transactions of block builders)
    foreign: bool,
}

#[derive(Clone, Copy, Debug, PartialEq, Eq)]
enum Stage {
    Pending,
    Gap,
    Proposed,
}

#[derive(Clone, Debug)]
struct PEntry {
    tx: TransactionView,
    stage: Stage,
}

#[derive(Clone, Debug, Default)]
struct PoolView {
    entries: BTreeMap<TxH, PEntry>,
    tip: Option<Byte32>,
}

impl PoolView {
    fn has_output(&self, k: &CellKey) -> bool {
        self.entries.get(&k.0).map(|e| (k.1 as usize) < e.tx.outputs().len()).unwrap_or(false)
    }
    /// out point -> pooled transactions spending it
    fn spent(&self) -> BTreeMap<CellKey, Vec<TxH>> {
        let mut m: BTreeMap<CellKey, Vec<TxH>> = BTreeMap::new();
        for (h, e) in &self.entries {
            for i in e.tx.inputs().into_iter() {
                m.entry(cell_key(&i.previous_output())).or_default().push(*h);
            }
        }
        m
    }
}

struct World<'a> {
    env: &'a Env,
    tree: Tree,
    node: Node,
    mine: bool,
    known: BTreeMap<TxH, Known>,
    /// hashes committed by any block of the tree (any branch)
    ever_committed: BTreeSet<TxH>,
    /// pool contents as last read from the node (plus accepted submissions since)
    pool: PoolView,
    /// tip that was abandoned by the most recent reorg
    abandoned: Option<H>,
    /// ids kept in Gap by the known stale-gap finding: tolerated while the model says Pending
    stuck_gap: BTreeSet<[u8; 10]>,
    /// a dump showed ancestor aggregates that differ from the link closure (C11 known finding)
    undercount_seen: bool,
    clock: ckb_systemtime::FaketimeGuard,
    now: u64,
    serial: u32,
    min_fee_rate: ckb_types::core::FeeRate,
    /// the pool's max_tx_verify_cycles when the case runs with the small budget
    small_verify_budget: Option<u64>,
    known_sigs: &'a BTreeSet<String>,
    strict: bool,
}

/// cycles of one always_success script group
const ALWAYS_SUCCESS_CYCLES: u64 = 537;
/// max_tx_verify_cycles of the small-budget variant: one script group fits, two do not
const SMALL_VERIFY_BUDGET: u64 = 600;

fn tx_hash(tx: &TransactionView) -> TxH {
    h32(&tx.hash())
}

fn short(h: &TxH) -> String {
    hex(&h[..6])
}

impl World<'_> {
    fn tip(&self) -> H {
        self.node.tip_hash()
    }

    fn is_known_sig(&self, sig: &str) -> bool {
        !self.strict && self.known_sigs.contains(sig)
    }

    fn register(&mut self, tx: TransactionView, fee: u64, foreign: bool) {
        let size = tx.data().serialized_size_in_block() as u64;
        let min_fee = self.min_fee_rate.fee(size).as_u64();
        self.known.entry(tx_hash(&tx)).or_insert(Known { tx, fee, min_fee, foreign });
    }

    /// cells the generator may use: live at the tip (plain always_success cells, no cellbase
    /// outputs) or outputs of pooled transactions, minus everything a pooled transaction spends.
    /// value = (output, data length, is a pooled output)
    fn spendable(&self) -> BTreeMap<CellKey, (CellOutput, usize, bool)> {
        let tip = self.tip();
        let st = &self.tree.get(&tip).state;
        let mut m: BTreeMap<CellKey, (CellOutput, usize, bool)> = st
            .live
            .iter()
            .filter(|(_, c)| {
                !(c.cellbase && c.block_number > 0) && c.output.lock().code_hash() == self.env.always_success_lock.code_hash() && c.output.type_().to_opt().is_none()
            })
            .map(|(k, c)| (*k, (c.output.clone(), c.data.len(), false)))
            .collect();
        for (h, e) in &self.pool.entries {
            if st.tx_index.contains_key(h) {
                continue;
            }
            for (j, (o, d)) in e.tx.outputs_with_data_iter().enumerate() {
                m.insert((*h, j as u32), (o, d.len(), true));
            }
        }
        for e in self.pool.entries.values() {
            for i in e.tx.inputs().into_iter() {
                m.remove(&cell_key(&i.previous_output()));
            }
        }
        m
    }
}

/// number of distinct lock scripts among the inputs of a generated transaction (all scripts are
/// always_success with different args; outputs carry no type script), i.e. its script groups; None
/// when an input cell is not one the machine knows
fn script_groups(w: &World, tx: &TransactionView) -> Option<usize> {
    let gst = &w.tree.get(&w.tree.genesis).state;
    let mut locks = BTreeSet::new();
    for i in tx.inputs().into_iter() {
        let key = cell_key(&i.previous_output());
        let out = match w.known.get(&key.0) {
            Some(k) => k.tx.outputs().get(key.1 as usize)?,
            None => gst.live.get(&key)?.output.clone(),
        };
        locks.insert(out.lock().as_slice().to_vec());
    }
    Some(locks.len())
}

fn fee_for(class: u8, min: u64) -> u64 {
    match class {
        0 => min.saturating_sub(1),
        1 => 0,
        2 => min,
        3 => min + 1,
        4 => 2 * min,
        5 => 10 * min + 7,
        6 => 1000 * min,
        _ => 100_000_000,
    }
}

/// assemble a transaction over chosen inputs; the fee is a function of the serialized size, which
/// does not depend on the capacities
fn assemble(
    env: &Env,
    min_fee_rate: ckb_types::core::FeeRate,
    inputs: &[(CellKey, CellOutput)],
    n_out: u8,
    fee_class: u8,
    lock_v: u8,
    data: Bytes,
    deps: &[CellKey],
    header_deps: &[Byte32],
) -> Option<(TransactionView, u64)> {
    let in_cap: u64 = inputs.iter().map(|(_, o)| cap(o)).sum();
    let lock = lock_variant(env, lock_v);
    let probe = CellOutput::new_builder().lock(lock.clone()).build();
    let min_cap = occupied_shannons(&probe, data.len()) as u64;
    let build = |caps: &[u64]| {
        let mut tb = TransactionBuilder::default().cell_dep(env.always_success_dep.clone());
        for d in deps {
            tb = tb.cell_dep(CellDep::new_builder().out_point(out_point_of(d)).dep_type(DepType::Code).build());
        }
        for h in header_deps {
            tb = tb.header_dep(h.clone());
        }
        for (k, _) in inputs {
            tb = tb.input(CellInput::new(out_point_of(k), 0));
        }
        for c in caps {
            tb = tb
                .output(CellOutput::new_builder().capacity(Capacity::shannons(*c)).lock(lock.clone()).build())
                .output_data(data.clone());
        }
        tb.build()
    };
    let mut n = n_out.max(1) as u64;
    loop {
        let probe_tx = build(&vec![0u64; n as usize]);
        let size = probe_tx.data().serialized_size_in_block() as u64;
        let fee = fee_for(fee_class, min_fee_rate.fee(size).as_u64());
        if in_cap >= fee && (in_cap - fee) / n >= min_cap {
            let total = in_cap - fee;
            let each = total / n;
            let caps: Vec<u64> = (0..n).map(|i| if i == n - 1 { total - each * (n - 1) } else { each }).collect();
            return Some((build(&caps), fee));
        }
        if n == 1 {
            return None;
        }
        n -= 1;
    }
}

fn build_tx(w: &World, g: &TxGen) -> Option<(TransactionView, u64)> {
    let mut avail = w.spendable();
    if avail.is_empty() {
        return None;
    }
    let mut inputs = vec![];
    for (i, sel) in g.inputs.iter().enumerate() {
        if avail.is_empty() {
            break;
        }
        let pooled: Vec<CellKey> = avail.iter().filter(|(_, v)| v.2).map(|(k, _)| *k).collect();
        let k = if (g.from_pool >> (i % 8)) & 1 == 1 && !pooled.is_empty() {
            pooled[pick_idx(*sel as u32, pooled.len())]
        } else {
            *avail.keys().nth(pick_idx(*sel as u32, avail.len())).unwrap()
        };
        let (o, _, _) = avail.remove(&k).unwrap();
        inputs.push((k, o));
    }
    let mut deps = vec![];
    if let Some(sel) = g.dep {
        if !avail.is_empty() {
            let n = avail.len().min(4);
            deps.push(*avail.keys().nth(pick_idx(sel as u32, n)).unwrap());
        }
    }
    let mut header_deps = vec![];
    if let Some(d) = g.header_dep {
        let tip = w.tip();
        let n = w.tree.get(&tip).number;
        let target = n.saturating_sub(d as u64);
        header_deps.push(w.tree.ancestor(&tip, target).unwrap().hash.clone());
    }
    let data = Bytes::from(vec![g.data_len; g.data_len as usize]);
    assemble(w.env, w.min_fee_rate, &inputs, g.outputs, g.fee, g.lock_variant, data, &deps, &header_deps)
}

/// a transaction spending one input of `target` that is live in `state`, with other outputs
fn build_conflict(w: &World, g: &ConflictGen, target: &TransactionView, state: &ChainState) -> Option<(TransactionView, u64)> {
    let inp = target.inputs().into_iter().map(|i| cell_key(&i.previous_output())).find(|k| state.live.contains_key(k))?;
    let o = state.live.get(&inp)?.output.clone();
    let data = Bytes::from(vec![0xc1u8, g.lock_variant]);
    let r = assemble(w.env, w.min_fee_rate, &[(inp, o)], 1, g.fee, g.lock_variant, data, &[], &[])?;
    if r.0.hash() == target.hash() { None } else { Some(r) }
}

/// model block on `parent`
fn build_block(w: &mut World, parent: &H, g: &BlockGen, force_propose: &[ProposalShortId]) -> Result<MBlock, String> {
    let pm = w.tree.get(parent);
    let st = pm.state.clone();
    let committable = w.tree.committable(parent);
    let gap = w.tree.gap(parent);
    let uncommitted: Vec<(&TxH, &Known)> = w.known.iter().filter(|(h, _)| !st.tx_index.contains_key(*h)).collect();
    // proposals
    let mut proposals: Vec<ProposalShortId> = force_propose.to_vec();
    let mut i = 0usize;
    for (_, k) in &uncommitted {
        let id = k.tx.proposal_short_id();
        let p = pid(&id);
        if g.fresh_only && (committable.contains(&p) || gap.contains(&p)) {
            continue;
        }
        if (g.propose >> (i % 16)) & 1 == 1 && !proposals.contains(&id) && proposals.len() < 40 {
            proposals.push(id);
        }
        i += 1;
    }
    // commits: rotate the candidates, then take them parents-first while they stay valid
    let mut cands: Vec<&Known> = uncommitted
        .iter()
        .filter(|(_, k)| committable.contains(&pid(&k.tx.proposal_short_id())))
        .map(|(_, k)| *k)
        .collect();
    if !cands.is_empty() {
        let r = pick_idx(g.rot as u32, cands.len());
        cands.rotate_left(r);
    }
    let masked: Vec<&Known> = cands.iter().enumerate().filter(|(i, _)| (g.commit >> (i % 16)) & 1 == 1).map(|(_, k)| *k).collect();
    let mut created: BTreeSet<CellKey> = BTreeSet::new();
    let mut spent: BTreeSet<CellKey> = BTreeSet::new();
    let mut commit: Vec<TransactionView> = vec![];
    let mut pending = masked;
    loop {
        let mut progressed = false;
        let mut rest = vec![];
        for k in pending {
            let tx = &k.tx;
            let ins: Vec<CellKey> = tx.inputs().into_iter().map(|i| cell_key(&i.previous_output())).collect();
            let deps: Vec<CellKey> = tx.cell_deps().into_iter().map(|d| cell_key(&d.out_point())).collect();
            let headers_ok = tx.header_deps_iter().all(|h| w.tree.blocks.contains_key(&h) && w.tree.is_ancestor(&h, parent));
            let usable = |k: &CellKey| (st.live.contains_key(k) || created.contains(k)) && !spent.contains(k);
            let ok = headers_ok && ins.iter().all(usable) && deps.iter().all(usable);
            if ok {
                for k in ins {
                    spent.insert(k);
                }
                for j in 0..tx.outputs().len() {
                    created.insert((tx_hash(tx), j as u32));
                }
                commit.push(tx.clone());
                progressed = true;
            } else {
                rest.push(k);
            }
        }
        pending = rest;
        if !progressed || pending.is_empty() {
            break;
        }
    }
    w.serial += 1;
    let step = [1u64, 500, 1000, 8000][g.ts as usize % 4];
    let spec = BlockSpec {
        timestamp: (pm.block.timestamp() + step).max(w.tree.median_time(parent) + 1),
        proposals,
        txs: commit,
        miner_lock: Some(lock_variant(w.env, g.miner % 4)),
        message: w.serial.to_le_bytes().to_vec(),
        ..Default::default()
    };
    let opts = BuildOpts {
        use_node_reward_quirk: true,
        ..Default::default()
    };
    w.tree.build(parent, &spec, &opts)
}

// ---------------------------------------------------------------------------------------------
// oracle
// ---------------------------------------------------------------------------------------------

/// entries whose recorded ancestors_count differs from the closure of the link table (C11's
/// subject; here it only qualifies panics of the pool's tasks that are its known consequence)
fn undercounted(dump: &ckb_tx_pool::verif::VerifDump) -> u64 {
    let parents: BTreeMap<[u8; 10], Vec<[u8; 10]>> = dump.links.iter().map(|(id, ps, _)| (pid(id), ps.iter().map(pid).collect())).collect();
    let mut off = 0u64;
    for e in &dump.entries {
        let mut seen: BTreeSet<[u8; 10]> = BTreeSet::new();
        let mut stack = vec![pid(&e.id)];
        while let Some(x) = stack.pop() {
            for p in parents.get(&x).map(|v| v.as_slice()).unwrap_or(&[]) {
                if seen.insert(*p) {
                    stack.push(*p);
                }
            }
        }
        if e.ancestors_count != seen.len() as u64 + 1 {
            off += 1;
            if std::env::var_os("VERIF_C12_DEBUG").is_some() {
                eprintln!(
                    "C12-DEBUG: entry {} records ancestors_count {} (itself included) but has {} pooled ancestors by links (size {} fee {} anc_size {} anc_fee {})",
                    e.tx_hash,
                    e.ancestors_count,
                    seen.len(),
                    e.size,
                    e.fee,
                    e.ancestors_size,
                    e.ancestors_fee
                );
            }
        }
    }
    off
}

/// a panic of a node thread is a violation; a panic inside the pool's component code that follows
/// under-counted ancestor aggregates (seen in a dump before, or in the dump taken now) is the
/// known consequence of a C11 finding and gets its own signature
fn panic_check(w: &World) -> Verdict {
    match node_panic_violation() {
        Ok(()) => Ok(()),
        Err(mut v) => {
            if v.signature.contains("@tx-pool/src/component/") {
                let now = w.node.shared.tx_pool_controller().verif_dump().map(|d| undercounted(&d) > 0).unwrap_or(false);
                if now || w.undercount_seen {
                    v.signature.push_str(":after-stale-ancestor-counts");
                }
            }
            Err(v)
        }
    }
}

/// a failed call into the pool service: a panicked service task is the finding, otherwise inconclusive
fn pool_call_failed(w: &World, e: impl std::fmt::Display) -> Violation {
    // give the panic hook of the dying task a moment to record
    std::thread::sleep(Duration::from_millis(50));
    match panic_check(w) {
        Err(v) => v,
        Ok(()) => Violation::new("harness:pool-call", e.to_string()),
    }
}

/// (pool view, number of entries with ancestor counts that differ from the link closure)
fn read_pool(w: &World) -> Result<(PoolView, u64), Violation> {
    let ctl = w.node.shared.tx_pool_controller();
    let dump = ctl.verif_dump().map_err(|e| pool_call_failed(w, e))?;
    let info = ctl.get_all_entry_info().map_err(|e| pool_call_failed(w, e))?;
    let off = undercounted(&dump);
    // is the pool's score index still a permutation of its entries?
    let score_index_ok = {
        let mut a: Vec<[u8; 10]> = dump.score_order.iter().map(pid).collect();
        let mut b: Vec<[u8; 10]> = dump.entries.iter().map(|e| pid(&e.id)).collect();
        a.sort();
        b.sort();
        a == b
    };
    if !score_index_ok && (off > 0 || w.undercount_seen) {
        // known consequence of C11's stale ancestor counts (0/0 score keys are not totally ordered):
        // from here on the pool's ordered views and removals are unreliable, every other symptom
        // (entry missing from get_all_entry_info, committed tx kept, panics) follows from it
        vfail!(
            "observe:score-index-corrupted-after-stale-ancestor-counts",
            "the pool's score index lists {} ids for {} entries and is not a permutation of them ({} entries with ancestor counts that differ from the link closure)",
            dump.score_order.len(),
            dump.entries.len(),
            off
        );
    }
    let mut pv = PoolView {
        entries: BTreeMap::new(),
        tip: Some(dump.tip_hash.clone()),
    };
    for e in dump.entries {
        let stage = match e.status {
            VerifStatus::Pending => Stage::Pending,
            VerifStatus::Gap => Stage::Gap,
            VerifStatus::Proposed => Stage::Proposed,
        };
        pv.entries.insert(h32(&e.tx_hash), PEntry { tx: e.tx, stage });
    }
    // the public view must show the same pool: pending(+gap) and proposed maps
    let pub_pending: BTreeSet<TxH> = info.pending.keys().map(h32).collect();
    let pub_proposed: BTreeSet<TxH> = info.proposed.keys().map(h32).collect();
    let d_pending: BTreeSet<TxH> = pv.entries.iter().filter(|(_, e)| e.stage != Stage::Proposed).map(|(h, _)| *h).collect();
    let d_proposed: BTreeSet<TxH> = pv.entries.iter().filter(|(_, e)| e.stage == Stage::Proposed).map(|(h, _)| *h).collect();
    if pub_pending != d_pending || pub_proposed != d_proposed {
        vfail!(
            "observe:entry-info-differs-from-dump",
            "get_all_entry_info shows {} pending / {} proposed, the dump {} / {}",
            pub_pending.len(),
            pub_proposed.len(),
            d_pending.len(),
            d_proposed.len()
        );
    }
    Ok((pv, off))
}

#[derive(Clone, Debug)]
struct Change {
    old_tip: H,
    pool_before: PoolView,
}

#[derive(Debug)]
struct Finding {
    v: Violation,
    /// pooled transaction to remove so that the history can continue behind a known finding
    heal: Option<TxH>,
    /// id tolerated in Gap from now on (known stale-gap finding)
    stick: Option<[u8; 10]>,
    /// finer class of the trigger (label only)
    class: Option<String>,
}

/// why the creator of an unresolvable out point is neither on the main chain nor in the pool
fn missing_creator_cause(w: &World, pv: &PoolView, spent: &BTreeMap<CellKey, Vec<TxH>>, tip: &H, creator: &TxH) -> &'static str {
    if !w.known.contains_key(creator) {
        return "never-seen-tx";
    }
    if !w.ever_committed.contains(creator) {
        return "pool-tx-that-left-the-pool";
    }
    // committed on another branch only: could it have come back?
    match admissible(w, creator, pv, spent, tip) {
        Ok(()) => "detached-tx-that-should-have-returned",
        Err("input-spent-on-new-chain") => "detached-tx-conflicting-with-new-chain",
        Err("input-unknown") | Err("dep-unresolvable") => "detached-tx-with-missing-ancestor",
        Err("below-min-fee") => "detached-tx-below-min-fee",
        Err("header-dep-detached") => "detached-tx-with-detached-header-dep",
        Err("input-spent-by-pooled-tx") | Err("dep-spent-by-pooled-tx") => "detached-tx-conflicting-with-pooled-tx",
        Err(_) => "detached-tx-other",
    }
}

fn expected_stage(committable: &BTreeSet<[u8; 10]>, gap: &BTreeSet<[u8; 10]>, id: &[u8; 10]) -> Stage {
    if committable.contains(id) {
        Stage::Proposed
    } else if gap.contains(id) {
        Stage::Gap
    } else {
        Stage::Pending
    }
}

/// clauses (1)-(3) and (5) on one pool view
fn judge_pool(w: &World, pv: &PoolView, tip: &H, change: Option<&Change>, st: &mut Stats) -> Vec<Finding> {
    let mut out = vec![];
    let cs = &w.tree.get(tip).state;
    let after = match change {
        Some(c) if !w.tree.is_ancestor(&c.old_tip, tip) => "reorg",
        Some(_) => "extension",
        None => "recheck",
    };
    let spent = pv.spent();
    let committable = w.tree.committable(tip);
    let gap = w.tree.gap(tip);
    let (old_comm, old_gap) = match change {
        Some(c) => (w.tree.committable(&c.old_tip), w.tree.gap(&c.old_tip)),
        None => (BTreeSet::new(), BTreeSet::new()),
    };
    for (h, e) in &pv.entries {
        // (1) not committed on the main chain
        if let Some((_, n, _)) = cs.tx_index.get(h) {
            out.push(Finding {
                v: Violation::new(
                    "stale:pooled-tx-is-committed-on-main-chain",
                    format!("after {after}: pooled tx {} is committed in main-chain block #{n}", short(h)),
                ),
                heal: Some(*h),
                stick: None,
                class: None,
            });
            continue;
        }
        // (2) inputs and deps
        let mut refs: Vec<(&'static str, CellKey)> = e.tx.inputs().into_iter().map(|i| ("input", cell_key(&i.previous_output()))).collect();
        refs.extend(e.tx.cell_deps().into_iter().map(|d| ("dep", cell_key(&d.out_point()))));
        let mut bad = false;
        for (kind, k) in &refs {
            if *kind == "input" {
                if let Some(sp) = spent.get(k) {
                    if sp.len() > 1 {
                        out.push(Finding {
                            v: Violation::new(
                                "dead:input-spent-by-two-pooled-txs",
                                format!("after {after}: out point {}:{} is spent by {} pooled txs", short(&k.0), k.1, sp.len()),
                            ),
                            heal: Some(*h),
                            stick: None,
                            class: None,
                        });
                        bad = true;
                        break;
                    }
                }
            }
            if cs.live.contains_key(k) || pv.has_output(k) {
                continue;
            }
            let mut class: Option<String> = None;
            let (sig, why) = if cs.tx_index.contains_key(&k.0) {
                (
                    format!("dead:{kind}-spent-on-main-chain"),
                    "created on the main chain and already spent there".to_string(),
                )
            } else {
                let cause = missing_creator_cause(w, pv, &spent, tip, &k.0);
                class = Some(format!("stale-ref:{kind}-created-by-{cause}"));
                let sig = match cause {
                    // one defect: descendants of a detached tx that cannot come back are kept
                    "detached-tx-conflicting-with-new-chain"
                    | "detached-tx-with-missing-ancestor"
                    | "detached-tx-below-min-fee"
                    | "detached-tx-with-detached-header-dep"
                    | "detached-tx-conflicting-with-pooled-tx" => {
                        "unknown:pooled-tx-refers-to-output-of-detached-tx-that-cannot-return".to_string()
                    }
                    _ => format!("unknown:{kind}-created-by-{cause}"),
                };
                (sig, format!("its creator is a {cause}"))
            };
            out.push(Finding {
                v: Violation::new(
                    sig,
                    format!(
                        "after {after}: pooled tx {} has {kind} {}:{} that is neither live on the main chain (tip #{}) nor an output of a pooled tx: {why}",
                        short(h),
                        short(&k.0),
                        k.1,
                        w.tree.get(tip).number
                    ),
                ),
                heal: Some(*h),
                stick: None,
                class,
            });
            bad = true;
            break;
        }
        if bad {
            continue;
        }
        // (3) header deps
        let mut hd_bad = false;
        for hd in e.tx.header_deps_iter() {
            if !(w.tree.blocks.contains_key(&hd) && w.tree.is_ancestor(&hd, tip)) {
                out.push(Finding {
                    v: Violation::new(
                        "header-dep:pooled-tx-depends-on-detached-header",
                        format!("after {after}: pooled tx {} has header dep {} which is not on the main chain", short(h), hd),
                    ),
                    heal: Some(*h),
                    stick: None,
                    class: None,
                });
                hd_bad = true;
                break;
            }
        }
        if hd_bad {
            continue;
        }
        // (5) stage
        if w.mine {
            let id = pid(&e.tx.proposal_short_id());
            let want = expected_stage(&committable, &gap, &id);
            if change.is_some() {
                let was = expected_stage(&old_comm, &old_gap, &id);
                if was != want {
                    st.label(&format!("window-move:{after}:{was:?}->{want:?}").to_lowercase());
                }
            }
            if e.stage != want {
                if e.stage == Stage::Gap && want == Stage::Pending && w.stuck_gap.contains(&id) {
                    // counted when it was first seen
                    continue;
                }
                let was = expected_stage(&old_comm, &old_gap, &id);
                let cause = if change.is_none() {
                    "recheck"
                } else if after == "reorg" && was == Stage::Gap && e.stage == Stage::Gap {
                    "gap-proposal-detached-by-reorg"
                } else if after == "reorg" {
                    "after-reorg"
                } else {
                    "after-extension"
                };
                let sig = format!("stage:{:?}-but-window-says-{:?}:{cause}", e.stage, want).to_lowercase();
                let mut note = String::new();
                if e.stage == Stage::Gap && want == Stage::Pending {
                    // consequence: only Pending entries are candidates for the node's own proposals
                    if let Ok(Ok(t)) = w.node.shared.get_block_template(None, None, None) {
                        let b: ckb_types::packed::Block = t.into();
                        let proposes = b.proposals().into_iter().any(|p| pid(&p) == id);
                        note = format!("; the node's own block template {} it", if proposes { "proposes" } else { "does not propose" });
                    }
                }
                out.push(Finding {
                    v: Violation::new(
                        sig,
                        format!(
                            "after {after}: pooled tx {} is {:?} but the proposal window of the main chain (tip #{}) puts its id in {:?} (it was {:?} before the change){note}",
                            short(h),
                            e.stage,
                            w.tree.get(tip).number,
                            want,
                            was
                        ),
                    ),
                    heal: None,
                    stick: if e.stage == Stage::Gap && want == Stage::Pending { Some(id) } else { None },
                    class: None,
                });
            }
        }
    }
    out
}

/// transactions committed on the detached blocks only, in detach order (oldest block first)
fn detached_only(w: &World, old_tip: &H, new_tip: &H) -> (Vec<TxH>, usize, Vec<H>) {
    let new_state = &w.tree.get(new_tip).state;
    let mut blocks = vec![];
    let mut cur = w.tree.get(old_tip);
    while !w.tree.is_ancestor(&cur.hash, new_tip) {
        blocks.push(cur.hash.clone());
        cur = w.tree.get(&cur.parent);
    }
    blocks.reverse();
    let mut txs = vec![];
    for b in &blocks {
        for tx in w.tree.get(b).block.transactions().iter().skip(1) {
            let h = tx_hash(tx);
            if !new_state.tx_index.contains_key(&h) {
                txs.push(h);
            }
        }
    }
    let n = blocks.len();
    (txs, n, blocks)
}

/// clause (4): is a detached-only transaction admissible on new chain + pool?
fn admissible(w: &World, h: &TxH, pv: &PoolView, spent: &BTreeMap<CellKey, Vec<TxH>>, tip: &H) -> Result<(), &'static str> {
    let k = w.known.get(h).ok_or("unknown-tx")?;
    let st = &w.tree.get(tip).state;
    if k.fee < k.min_fee {
        return Err("below-min-fee");
    }
    let by_other = |key: &CellKey| spent.get(key).map(|v| v.iter().any(|x| x != h)).unwrap_or(false);
    for i in k.tx.inputs().into_iter() {
        let key = cell_key(&i.previous_output());
        if by_other(&key) {
            return Err("input-spent-by-pooled-tx");
        }
        if !(st.live.contains_key(&key) || pv.has_output(&key)) {
            return Err(if st.tx_index.contains_key(&key.0) { "input-spent-on-new-chain" } else { "input-unknown" });
        }
    }
    for d in k.tx.cell_deps().into_iter() {
        let key = cell_key(&d.out_point());
        if by_other(&key) {
            return Err("dep-spent-by-pooled-tx");
        }
        if !(st.live.contains_key(&key) || pv.has_output(&key)) {
            return Err("dep-unresolvable");
        }
    }
    for hd in k.tx.header_deps_iter() {
        if !(w.tree.blocks.contains_key(&hd) && w.tree.is_ancestor(&hd, tip)) {
            return Err("header-dep-detached");
        }
    }
    Ok(())
}

struct ChangeReport {
    reorg_depth: usize,
    readded: usize,
    evicted_by_conflict: usize,
}

/// the oracle: wait for the pool, read it, judge it; known findings are counted and healed
fn check_pool(w: &mut World, change: Option<Change>, st: &mut Stats) -> Result<ChangeReport, Violation> {
    if !w.node.wait_pool_synced(Duration::from_secs(40)) {
        panic_check(w)?;
        return Err(Violation::new("harness:pool-sync-timeout", "tx-pool did not reach the chain tip in 40 s"));
    }
    let tip = w.tip();
    if !w.tree.blocks.contains_key(&tip) {
        vfail!("chain:tip-unknown-to-model", "node tip {} is not a model block", tip);
    }
    let mut report = ChangeReport {
        reorg_depth: 0,
        readded: 0,
        evicted_by_conflict: 0,
    };
    let mut round = 0;
    loop {
        let (pv, off) = read_pool(w)?;
        if off > 0 {
            w.undercount_seen = true;
            st.label("seen:C11-known:ancestors_count-differs-from-link-closure");
        }
        // a pool task that died half-way leaves arbitrary symptoms behind: report the panic itself
        panic_check(w)?;
        if pv.tip.as_ref() != Some(&tip) {
            vfail!("harness:pool-tip-moved", "pool snapshot tip differs from the chain tip after the wait");
        }
        let mut findings = judge_pool(w, &pv, &tip, if round == 0 { change.as_ref() } else { None }, st);
        // clause (4) on the first view only (before any healing)
        if round == 0 {
            if let Some(c) = &change {
                if !w.tree.is_ancestor(&c.old_tip, &tip) {
                    let (txs, depth, blocks) = detached_only(w, &c.old_tip, &tip);
                    report.reorg_depth = depth;
                    let spent = pv.spent();
                    let new_state = &w.tree.get(&tip).state;
                    let detached_headers: BTreeSet<[u8; 32]> = blocks.iter().map(h32).collect();
                    for h in &txs {
                        let present = pv.entries.contains_key(h);
                        match admissible(w, h, &pv, &spent, &tip) {
                            Ok(()) if present => {
                                report.readded += 1;
                                st.label("detached-tx:readded");
                                if let (Some(budget), Some(groups)) = (w.small_verify_budget, script_groups(w, &w.known[h].tx)) {
                                    if groups as u64 * ALWAYS_SUCCESS_CYCLES > budget {
                                        st.label("detached-tx:readded:cycles-above-max_tx_verify_cycles");
                                    }
                                }
                            }
                            Ok(()) => {
                                let k = &w.known[h];
                                let mut q = vec![];
                                if k.tx.header_deps().len() > 0 {
                                    q.push("with-header-dep");
                                }
                                if k.tx.cell_deps().len() > 1 {
                                    q.push("with-extra-cell-dep");
                                }
                                if k.tx.inputs().into_iter().any(|i| pv.has_output(&cell_key(&i.previous_output()))) {
                                    q.push("with-pooled-parent");
                                }
                                if let (Some(budget), Some(groups)) = (w.small_verify_budget, script_groups(w, &k.tx)) {
                                    if groups as u64 * ALWAYS_SUCCESS_CYCLES > budget {
                                        q.push("cycles-above-max_tx_verify_cycles");
                                    }
                                }
                                let sig = format!("lost:admissible-detached-tx-not-readded{}{}", if q.is_empty() { "" } else { ":" }, q.join("+"));
                                findings.push(Finding {
                                    v: Violation::new(
                                        sig,
                                        format!(
                                            "reorg detached {depth} block(s): tx {} was committed only on the abandoned branch, all its inputs/deps resolve on the new chain + pool, its fee {} >= min fee {}, it conflicts with nothing, but it is not in the pool",
                                            short(h),
                                            k.fee,
                                            k.min_fee
                                        ),
                                    ),
                                    heal: None,
                                    stick: None,
                                    class: None,
                                });
                            }
                            Err(why) => {
                                st.label(&format!("detached-tx:not-admissible:{why}"));
                                if present {
                                    st.label(&format!("detached-tx:not-admissible-but-pooled:{why}"));
                                }
                                if why == "input-spent-on-new-chain" && !present {
                                    report.evicted_by_conflict += 1;
                                    st.label("evicted-by-conflict:detached-tx");
                                }
                            }
                        }
                    }
                    // evicted by conflict: pooled before, gone now, an input spent by the new chain
                    for (h, e) in &c.pool_before.entries {
                        if pv.entries.contains_key(h) || new_state.tx_index.contains_key(h) {
                            continue;
                        }
                        let direct = e.tx.inputs().into_iter().any(|i| {
                            let k = cell_key(&i.previous_output());
                            !new_state.live.contains_key(&k) && new_state.tx_index.contains_key(&k.0)
                        });
                        let hdr = e.tx.header_deps_iter().any(|hd| detached_headers.contains(&h32(&hd)));
                        if direct {
                            report.evicted_by_conflict += 1;
                            st.label("evicted-by-conflict:pooled-tx");
                        } else if hdr {
                            st.label("evicted:pooled-tx-with-detached-header-dep");
                        } else {
                            st.label("evicted:pooled-tx-other");
                        }
                    }
                } else {
                    // plain extension: pooled txs evicted because the new block spends their input
                    let new_state = &w.tree.get(&tip).state;
                    for (h, e) in &c.pool_before.entries {
                        if pv.entries.contains_key(h) || new_state.tx_index.contains_key(h) {
                            continue;
                        }
                        let direct = e.tx.inputs().into_iter().any(|i| {
                            let k = cell_key(&i.previous_output());
                            !new_state.live.contains_key(&k) && new_state.tx_index.contains_key(&k.0)
                        });
                        st.label(if direct { "extension:evicted-by-conflict" } else { "extension:evicted-other" });
                    }
                }
            }
        }
        if findings.is_empty() {
            // stuck-gap ids that left the pool or whose window state moved on are forgotten
            let committable = w.tree.committable(&tip);
            let gap = w.tree.gap(&tip);
            let pooled_ids: BTreeSet<[u8; 10]> = pv.entries.values().map(|e| pid(&e.tx.proposal_short_id())).collect();
            w.stuck_gap.retain(|id| pooled_ids.contains(id) && !committable.contains(id) && !gap.contains(id));
            w.pool = pv;
            return Ok(report);
        }
        let mut healed = false;
        for f in findings {
            if !w.is_known_sig(&f.v.signature) {
                return Err(f.v);
            }
            if !st.is_frozen() {
                *st.known_hits.entry(f.v.signature.clone()).or_insert(0) += 1;
            }
            st.label(&format!("known:{}", f.v.signature));
            if let Some(c) = &f.class {
                st.label(c);
            }
            if let Some(id) = f.stick {
                w.stuck_gap.insert(id);
                healed = true;
            }
            if let Some(h) = f.heal {
                let _ = w
                    .node
                    .shared
                    .tx_pool_controller()
                    .remove_local_tx(Byte32::from_slice(&h).unwrap())
                    .map_err(|e| pool_call_failed(w, e))?;
                healed = true;
            }
        }
        round += 1;
        if !healed || round > 8 {
            return Err(Violation::new("harness:heal-loop", "could not continue behind known findings"));
        }
    }
}

// ---------------------------------------------------------------------------------------------
// machine
// ---------------------------------------------------------------------------------------------

fn deliver(w: &mut World, mb: MBlock, oi: usize) -> Verdict {
    for tx in mb.block.transactions().iter().skip(1) {
        w.ever_committed.insert(tx_hash(tx));
    }
    match w.node.process(&mb.block) {
        Ok(_) => {
            w.tree.insert(mb);
            Ok(())
        }
        Err(e) => {
            panic_check(w)?;
            vfail!(
                "chain:model-block-refused",
                "op {oi}: model-built block #{} ({} txs, {} proposals) refused: {e}",
                mb.number,
                mb.block.transactions().len() - 1,
                mb.block.data().proposals().len()
            )
        }
    }
}

fn reject_class<E: std::fmt::Debug>(e: &E) -> String {
    let s = format!("{e:?}");
    s.split(|c: char| !c.is_alphanumeric()).next().unwrap_or("other").to_string()
}

fn bump_clock(w: &mut World) {
    let tip = w.tip();
    let ts = w.tree.get(&tip).block.timestamp();
    if w.now < ts + 1 {
        w.now = ts + 1;
        w.clock.set_faketime(w.now);
    }
}

fn submit(w: &mut World, tx: &TransactionView, st: &mut Stats, tag: &str) -> Verdict {
    match w.node.shared.tx_pool_controller().submit_local_tx(tx.clone()) {
        Ok(Ok(())) => {
            // stage is refreshed at the next pool read; until then only membership matters
            w.pool.entries.insert(tx_hash(tx), PEntry { tx: tx.clone(), stage: Stage::Pending });
            st.label(&format!("{tag}:accepted"));
        }
        Ok(Err(e)) => {
            st.label(&format!("{tag}:rejected:{}", reject_class(&e)));
        }
        Err(e) => return Err(pool_call_failed(w, e)),
    }
    Ok(())
}

/// after a delivered block: did the tip move the way the model says, and is the pool right?
fn after_block(w: &mut World, old_tip: &H, pool_before: &PoolView, delivered: &H, oi: usize, st: &mut Stats) -> Result<Option<ChangeReport>, Violation> {
    let tip = w.tip();
    let heavier = w.tree.get(delivered).td > w.tree.get(old_tip).td;
    if heavier && &tip != delivered {
        vfail!("chain:tip-differs-from-model", "op {oi}: block #{} is heavier than the tip but the node's tip is {}", w.tree.get(delivered).number, tip);
    }
    if !heavier && &tip != old_tip {
        vfail!("chain:tip-differs-from-model", "op {oi}: a block that is not heavier moved the tip");
    }
    bump_clock(w);
    if &tip == old_tip {
        return Ok(None);
    }
    let r = check_pool(
        w,
        Some(Change {
            old_tip: old_tip.clone(),
            pool_before: pool_before.clone(),
        }),
        st,
    )
    .map_err(|mut v| {
        v.detail = format!("[op {oi}] {}", v.detail);
        v
    })?;
    panic_check(w)?;
    Ok(Some(r))
}

fn prop(case: &Case, st: &mut Stats, known_sigs: &BTreeSet<String>, strict: bool) -> Verdict {
    let cfg = variant_cfg(case.variant);
    let small_budget = case.variant / 3 == 1;
    let env = build_env(&cfg);
    install_panic_recorder();
    clear_panics();
    let clock = ckb_systemtime::faketime();
    clock.set_faketime(10_000_000);
    let node = Node::start(
        &env,
        NodeCfg {
            block_assembler: if case.mine { Some(assembler_cfg(&env)) } else { None },
            tx_pool: if small_budget {
                let mut c = TxPoolConfig::default();
                c.max_tx_verify_cycles = SMALL_VERIFY_BUDGET;
                Some(c)
            } else {
                None
            },
            ..Default::default()
        },
    )
    .map_err(|e| Violation::new("harness:node-start", e))?;
    let mut w = World {
        env: &env,
        tree: Tree::new(env.consensus.clone()),
        node,
        mine: case.mine,
        known: BTreeMap::new(),
        ever_committed: BTreeSet::new(),
        pool: PoolView::default(),
        abandoned: None,
        stuck_gap: BTreeSet::new(),
        undercount_seen: false,
        clock,
        now: 10_000_000,
        serial: 0,
        min_fee_rate: TxPoolConfig::default().min_fee_rate,
        small_verify_budget: if small_budget { Some(SMALL_VERIFY_BUDGET) } else { None },
        known_sigs,
        strict,
    };
    st.label(if case.mine { "mode:mine" } else { "mode:no-assembler" });
    if small_budget {
        st.label("pool:max_tx_verify_cycles-below-two-script-groups");
    }
    let (_, far) = w.tree.window();
    for (oi, op) in case.ops.iter().enumerate() {
        match op {
            Op::Submit(g) => {
                let Some((tx, fee)) = build_tx(&w, g) else { continue };
                w.register(tx.clone(), fee, false);
                let k = &w.known[&tx_hash(&tx)];
                st.label(if k.fee < k.min_fee { "submit:below-min-fee" } else { "submit:at-or-above-min-fee" });
                if !tx.header_deps().is_empty() {
                    st.label("submit:with-header-dep");
                }
                if tx.cell_deps().len() > 1 {
                    st.label("submit:with-shared-cell-dep");
                }
                if tx.inputs().into_iter().any(|i| w.pool.has_output(&cell_key(&i.previous_output()))) {
                    st.label("submit:spends-pooled-output");
                }
                submit(&mut w, &tx, st, "submit")?;
            }
            Op::Foreign(g) => {
                let tip = w.tip();
                let state = w.tree.get(&tip).state.clone();
                let targets: Vec<TxH> = w.pool.entries.keys().cloned().collect();
                if targets.is_empty() {
                    continue;
                }
                let t = targets[pick_idx(g.target as u32, targets.len())];
                let target = w.pool.entries[&t].tx.clone();
                if let Some((tx, fee)) = build_conflict(&w, g, &target, &state) {
                    w.register(tx, fee, true);
                    st.label("foreign:conflict-with-pooled-tx");
                }
            }
            Op::Extend(g) => {
                let old_tip = w.tip();
                let pool_before = w.pool.clone();
                let mb = match build_block(&mut w, &old_tip, g, &[]) {
                    Ok(b) => b,
                    Err(e) => vfail!("harness:model-build", "op {oi}: {e}"),
                };
                let h = mb.hash.clone();
                if !mb.block.transactions().is_empty() && mb.block.transactions().len() > 1 {
                    st.label("extend:with-commits");
                }
                deliver(&mut w, mb, oi)?;
                after_block(&mut w, &old_tip, &pool_before, &h, oi, st)?;
            }
            Op::Fork {
                depth,
                revive,
                extra,
                blocks,
                conflicts,
                race,
                race_delay,
            } => {
                let old_tip = w.tip();
                let old_n = w.tree.get(&old_tip).number;
                let old_td = w.tree.get(&old_tip).td.clone();
                // where the branch starts
                let start = match (&w.abandoned, *revive) {
                    (Some(a), true) if !w.tree.is_ancestor(a, &old_tip) => {
                        st.label("fork:revive-abandoned-branch");
                        a.clone()
                    }
                    _ => {
                        let d = (1 + (*depth as u64).min(far + 1)).min(old_n);
                        if d == 0 {
                            continue;
                        }
                        w.tree.ancestor(&old_tip, old_n - d).unwrap().hash.clone()
                    }
                };
                // conflicting transactions against txs pooled now or committed above the fork point
                let start_state = w.tree.get(&start).state.clone();
                let mut force: Vec<ProposalShortId> = vec![];
                {
                    let old_state = w.tree.get(&old_tip).state.clone();
                    let mut targets: Vec<TxH> = w.pool.entries.keys().cloned().collect();
                    for (h, _) in w.known.iter() {
                        if old_state.tx_index.contains_key(h) && !start_state.tx_index.contains_key(h) && !targets.contains(h) {
                            targets.push(*h);
                        }
                    }
                    targets.sort();
                    for g in conflicts {
                        if targets.is_empty() {
                            break;
                        }
                        let t = targets[pick_idx(g.target as u32, targets.len())];
                        let target = w.known.get(&t).map(|k| k.tx.clone()).or_else(|| w.pool.entries.get(&t).map(|e| e.tx.clone()));
                        let Some(target) = target else { continue };
                        if let Some((tx, fee)) = build_conflict(&w, g, &target, &start_state) {
                            if !force.contains(&tx.proposal_short_id()) {
                                force.push(tx.proposal_short_id());
                            }
                            st.label(if old_state.tx_index.contains_key(&t) {
                                "fork:conflict-with-tx-committed-on-old-branch"
                            } else {
                                "fork:conflict-with-pooled-tx"
                            });
                            w.register(tx, fee, true);
                        }
                    }
                }
                // racing submissions are built against the state before the fork
                let mut race_txs = vec![];
                for g in race {
                    if let Some((tx, fee)) = build_tx(&w, g) {
                        // later race txs may chain on earlier ones
                        w.register(tx.clone(), fee, false);
                        w.pool.entries.insert(tx_hash(&tx), PEntry { tx: tx.clone(), stage: Stage::Pending });
                        race_txs.push(tx);
                    }
                }
                for tx in &race_txs {
                    w.pool.entries.remove(&tx_hash(tx));
                }
                // the branch: blocks until it is heavier, then `extra` more
                let mut parent = start.clone();
                let mut switched = false;
                let mut extra_left = *extra as usize;
                let limit = old_n.saturating_sub(w.tree.get(&start).number) as usize + 6 + *extra as usize;
                let mut fork_report: Option<ChangeReport> = None;
                for built in 0..limit {
                    let g = &blocks[built % blocks.len()];
                    let f: &[ProposalShortId] = if built == 0 { &force } else { &[] };
                    let mb = match build_block(&mut w, &parent, g, f) {
                        Ok(b) => b,
                        Err(e) => vfail!("harness:model-build", "op {oi}: fork block {built}: {e}"),
                    };
                    let h = mb.hash.clone();
                    let cur_tip = w.tip();
                    let will_switch = !switched && mb.td > old_td;
                    let pool_before = w.pool.clone();
                    if will_switch && !race_txs.is_empty() {
                        st.label("fork:with-racing-submissions");
                        let ctl = w.node.shared.tx_pool_controller().clone();
                        let delay = [0u64, 150, 800, 2500][*race_delay as usize % 4];
                        let txs = race_txs.clone();
                        let results = std::thread::scope(|s| {
                            let jh = s.spawn(move || {
                                if delay > 0 {
                                    std::thread::sleep(Duration::from_micros(delay));
                                }
                                txs.iter().map(|tx| ctl.submit_local_tx(tx.clone()).map_err(|e| e.to_string())).collect::<Vec<_>>()
                            });
                            let d = deliver(&mut w, mb, oi);
                            (d, jh.join())
                        });
                        results.0?;
                        match results.1 {
                            Ok(rs) => {
                                for r in rs {
                                    match r {
                                        Ok(Ok(())) => st.label("race-submit:accepted"),
                                        Ok(Err(e)) => {
                                            st.label(&format!("race-submit:rejected:{}", reject_class(&e)));
                                        }
                                        Err(e) => return Err(pool_call_failed(&w, e)),
                                    }
                                }
                            }
                            Err(_) => return Err(Violation::new("harness:race-thread", "submitting thread panicked")),
                        }
                    } else {
                        deliver(&mut w, mb, oi)?;
                    }
                    let rep = after_block(&mut w, &cur_tip, &pool_before, &h, oi, st)?;
                    parent = h;
                    if will_switch {
                        switched = true;
                        w.abandoned = Some(old_tip.clone());
                        fork_report = rep;
                        if extra_left == 0 {
                            break;
                        }
                    } else if switched {
                        extra_left -= 1;
                        if extra_left == 0 {
                            break;
                        }
                    }
                }
                if !switched {
                    st.label("fork:branch-not-heavier");
                    continue;
                }
                if let Some(r) = fork_report {
                    st.label(&format!("reorg:depth-{}", if r.reorg_depth >= 5 { "5+".to_string() } else { r.reorg_depth.to_string() }));
                    if r.reorg_depth as u64 >= far {
                        st.label("reorg:depth>=w_far");
                    }
                    if r.readded > 0 {
                        st.label("reorg:with-readded-tx");
                    }
                    if r.evicted_by_conflict > 0 {
                        st.label("reorg:with-evicted-by-conflict");
                    }
                    if r.reorg_depth >= 2 && r.readded >= 1 && r.evicted_by_conflict >= 1 {
                        st.label("reorg:nontrivial");
                        st.nontrivial(&(case.variant, case.mine, serde_json::to_string(&case.ops[..=oi]).unwrap()));
                        if st.want_sample() {
                            st.sample(|| json!({"variant": case.variant, "mine": case.mine, "op_index": oi, "reorg_depth": r.reorg_depth, "readded": r.readded, "evicted_by_conflict": r.evicted_by_conflict, "new_tip_number": w.tree.get(&w.tip()).number}));
                        }
                    }
                }
            }
        }
        panic_check(&w)?;
    }
    // final look at the pool (submissions after the last chain change included)
    check_pool(&mut w, None, st)?;
    panic_check(&w)?;
    w.node.stop();
    Ok(())
}

fn known_signatures(ctx: &Ctx) -> BTreeSet<String> {
    ctx.known.iter().filter(|k| k.status == "known").map(|k| k.signature.clone()).collect()
}

fn run(ctx: &Ctx) {
    ctx.shrink_iters.set(120);
    let cases = ctx.cases(1200, 8000);
    let max_ops = ctx.tier.pick(60, 120);
    let known = known_signatures(ctx);
    ctx.run_prop("pool-vs-reorg", cases, case_strategy(max_ops), |c, st| prop(c, st, &known, false));
}

fn replay(ctx: &Ctx, _sub: &str, v: &Value) -> Verdict {
    let c: Case = from_case(v)?;
    let mut st = ctx.stats.borrow_mut();
    // VERIF_C12_TOLERATE=1: triage aid, continue a replay behind known findings
    let strict = ctx.strict && std::env::var_os("VERIF_C12_TOLERATE").is_none();
    let known = if strict { BTreeSet::new() } else { known_signatures(ctx) };
    prop(&c, &mut st, &known, strict)
}
