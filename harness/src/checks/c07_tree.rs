//! C07 sub-check `tree-epochs`: the epoch record of every block of a generated block *tree* — main
//! chain and side branches alike — as the real node stores it, against the exact big-integer
//! evaluation of the RFC 0020 formulas on the statistics of the block's *own* branch.
//!
//! The pure sub-checks drive `Consensus::next_epoch_ext` through a mock provider.  What they cannot
//! see is where the node takes the statistics from: `EpochProvider::get_block_epoch` (the provided
//! trait method the store-backed providers share) has to measure an epoch from the last block of the
//! previous epoch *on the branch of the block* to the epoch's own tail.  On a side branch that forked
//! before an epoch boundary those blocks are not the main chain's blocks of the same heights.
use crate::bignat::BigNat;
use crate::c07_model as model;
use crate::common::*;
use crate::model::{H, MBlock, Tree};
use crate::node::*;
use crate::plan::*;
use crate::vfail;
use ckb_store::ChainStore;
use ckb_types::U256;
use ckb_types::core::EpochExt;
use ckb_types::prelude::*;
use proptest::prelude::*;
use serde::{Deserialize, Serialize};
use serde_json::json;
use std::collections::HashMap;

#[derive(Clone, Debug, Serialize, Deserialize)]
pub struct TreeCase {
    /// 0, 1, 2 -> dynamic-difficulty spec variants (genesis epoch of 4 / 7 / 3 blocks)
    pub variant: u8,
    pub plan: TreePlan,
}

pub fn strategy(max_blocks: usize) -> impl Strategy<Value = TreeCase> {
    let p = PlanParams {
        min_blocks: 12,
        max_blocks,
        fork_pct: 50,
        tx_rate: 10,
        invalid_pct: 0,
        uncle_pct: 30,
        dao_pct: 0,
    };
    (
        0u8..3,
        tree_plan_strategy(p).prop_map(|mut plan| {
            // rival branches mostly grow instead of new ones being opened: a branch has to live through
            // a whole epoch after its fork point to get an epoch of its own
            for (i, st) in plan.steps.iter_mut().enumerate() {
                if st.parent_mode == 2 && i > 6 && i % 5 != 0 {
                    st.parent_mode = 1;
                }
            }
            plan
        }),
    )
        .prop_map(|(variant, plan)| TreeCase { variant, plan })
}

fn cfg_of(variant: u8) -> SpecCfg {
    // the dynamic-difficulty variants of the C01 catalogue
    crate::checks::c01::variant_cfg([0u8, 1, 3][(variant % 3) as usize])
}

fn from_u256(u: &U256) -> BigNat {
    let mut buf = [0u8; 32];
    u.into_big_endian(&mut buf).expect("32 bytes");
    BigNat::from_be_bytes(&buf)
}

/// the fields of an epoch record, computed by the exact model
#[derive(Clone, Debug, PartialEq, Eq)]
struct Want {
    number: u64,
    start: u64,
    length: u64,
    compact: u32,
    prev_hash_rate: BigNat,
    last_hash_prev: Vec<u8>,
    base_reward: u64,
    remainder_reward: u64,
    /// timestamp / accumulated uncle count of the last block of the previous epoch on this branch
    prev_tail_ts: u64,
    prev_tail_uncles: u64,
}

fn render(w: &Want) -> String {
    format!(
        "epoch {} start {} length {} compact {:#x} previous_epoch_hash_rate {} last_block_hash_in_previous_epoch {} base {} remainder {}",
        w.number,
        w.start,
        w.length,
        w.compact,
        w.prev_hash_rate.to_hex(),
        hex(&w.last_hash_prev),
        w.base_reward,
        w.remainder_reward
    )
}

fn render_ext(e: &EpochExt) -> String {
    format!(
        "epoch {} start {} length {} compact {:#x} previous_epoch_hash_rate {:#x} last_block_hash_in_previous_epoch {} base {} remainder {}",
        e.number(),
        e.start_number(),
        e.length(),
        e.compact_target(),
        e.previous_epoch_hash_rate(),
        hex(e.last_block_hash_in_previous_epoch().as_slice()),
        e.base_block_reward().as_u64(),
        e.remainder_reward().as_u64()
    )
}

fn differs(w: &Want, e: &EpochExt) -> bool {
    w.number != e.number()
        || w.start != e.start_number()
        || w.length != e.length()
        || w.compact != e.compact_target()
        || w.prev_hash_rate != from_u256(e.previous_epoch_hash_rate())
        || w.last_hash_prev.as_slice() != e.last_block_hash_in_previous_epoch().as_slice()
        || w.base_reward != e.base_block_reward().as_u64()
        || w.remainder_reward != e.remainder_reward().as_u64()
}

pub fn prop(case: &TreeCase, st: &mut Stats) -> Verdict {
    let cfg = cfg_of(case.variant);
    let env = build_env(&cfg);
    let built = Interp::new(&env).run(&case.plan);
    if built.blocks.is_empty() {
        return Ok(());
    }
    let tree: &Tree = &built.tree;
    let cons = &env.consensus;
    let initial = cons.initial_primary_epoch_reward().as_u64();
    let interval = cons.primary_epoch_reward_halving_interval();
    // RFC 0020: orphan rate target 1/40 (the type has no accessors; equality is checked)
    let (on, od) = (1u64, 40u64);
    if *cons.orphan_rate_target() != ckb_rational::RationalU256::new_raw(U256::from(on), U256::from(od)) {
        return Err(Violation::new("harness:orphan-rate-target", "the spec's orphan rate target is not 1/40"));
    }

    // expected epoch of every block, from the statistics of its own branch
    let g = tree.get(&tree.genesis);
    let ge = &g.epoch;
    let mut want: HashMap<H, Want> = HashMap::new();
    want.insert(
        tree.genesis.clone(),
        Want {
            number: ge.number(),
            start: ge.start_number(),
            length: ge.length(),
            compact: ge.compact_target(),
            prev_hash_rate: from_u256(ge.previous_epoch_hash_rate()),
            last_hash_prev: ge.last_block_hash_in_previous_epoch().as_slice().to_vec(),
            base_reward: ge.base_block_reward().as_u64(),
            remainder_reward: ge.remainder_reward().as_u64(),
            // the genesis epoch is measured from the genesis block
            prev_tail_ts: g.block.timestamp(),
            prev_tail_uncles: 0,
        },
    );
    let mut own_epoch_on_side_branch = 0u64;
    let mut boundaries = 0u64;
    let mut list: Vec<&MBlock> = vec![];
    for h in &built.blocks {
        let b = tree.get(h);
        let Some(pw) = want.get(&b.parent).cloned() else { continue };
        if b.invalid.is_some() {
            continue;
        }
        let p = tree.get(&b.parent);
        let w = if p.number + 1 < pw.start + pw.length {
            pw
        } else {
            // p is the tail of its epoch
            boundaries += 1;
            let inp = model::EpochInput {
                difficulty: model::compact_to_difficulty(pw.compact),
                length: pw.length,
                uncles: p.total_uncles - pw.prev_tail_uncles,
                duration_ms: p.block.timestamp().saturating_sub(pw.prev_tail_ts),
                prev_hash_rate: pw.prev_hash_rate.clone(),
                duration_target: cons.epoch_duration_target(),
                orphan_target: (on as u32, od as u32),
            };
            if p.block.timestamp() < pw.prev_tail_ts {
                // outside the arithmetic's domain (unsigned duration): not generated, not judged
                st.label("tree:epoch-tail-older-than-previous-tail:skipped");
                continue;
            }
            let m = model::next_epoch(&inp);
            if !m.fits {
                st.label("tree:extreme-domain:skipped");
                continue;
            }
            st.label(&format!("tree:boundary:len-clamp={}:hr-clamp={}", m.len_clamp, m.hr_clamp));
            let number = pw.number + 1;
            let p_total = model::scheduled_primary(initial, interval, number);
            Want {
                number,
                start: pw.start + pw.length,
                length: m.length,
                compact: m.compact,
                prev_hash_rate: m.hash_rate.clone(),
                last_hash_prev: p.hash.as_slice().to_vec(),
                base_reward: p_total / m.length,
                remainder_reward: p_total % m.length,
                prev_tail_ts: p.block.timestamp(),
                prev_tail_uncles: p.total_uncles,
            }
        };
        want.insert(h.clone(), w);
        list.push(b);
    }
    st.label_n("tree:epoch-boundaries-crossed", boundaries);

    // (A) the reference model's tree (built through Consensus::next_epoch_ext over a provider backed
    //     by the tree) against the exact evaluation
    for b in &list {
        let w = &want[&b.hash];
        if differs(w, &b.epoch) {
            vfail!(
                "tree-epochs:next_epoch_ext-on-tree-differs-from-exact-evaluation",
                "block #{} {:#x}: Consensus::next_epoch_ext over the tree gives [{}], exact evaluation of its branch's statistics gives [{}]",
                b.number,
                b.hash,
                render_ext(&b.epoch),
                render(w)
            );
        }
    }

    // (B) the node: every block delivered in creation order (parents first), then the stored record
    //     of every block that the node holds
    let node = Node::start(&env, NodeCfg::default()).map_err(|e| Violation::new("harness:node-start", e))?;
    let mut refused: Option<String> = None;
    for b in &list {
        if let Err(e) = node.process(&b.block) {
            refused = Some(format!("#{} {:#x}: {e}", b.number, b.hash));
            break;
        }
    }
    if let Some(r) = refused {
        let v = node_panic_violation();
        node.stop();
        v?;
        vfail!(
            "tree-epochs:model-built-block-refused",
            "the node refused a block whose epoch fields are the exact evaluation's: {r}"
        );
    }
    let snap = node.shared.snapshot();
    let tip = snap.tip_hash();
    let mut verdict: Verdict = Ok(());
    for b in &list {
        let on_main = tree.is_ancestor(&b.hash, &tip) || b.hash == tip;
        let w = &want[&b.hash];
        if !on_main {
            // does this side block live in an epoch that started after its branch left the main chain?
            let mut a = *b;
            while !(tree.is_ancestor(&a.hash, &tip) || a.hash == tip) {
                a = tree.get(&a.parent);
            }
            if a.number + 1 < w.start && w.number > 0 {
                own_epoch_on_side_branch += 1;
            }
        }
        let rec = snap
            .get_block_epoch_index(&b.hash)
            .and_then(|i| snap.get_epoch_ext(&i));
        let Some(rec) = rec else {
            verdict = Err(Violation::new(
                "tree-epochs:node-has-no-epoch-record",
                format!("block #{} {:#x} ({}) is stored without an epoch record", b.number, b.hash, if on_main { "main chain" } else { "side branch" }),
            ));
            break;
        };
        if differs(w, &rec) {
            verdict = Err(Violation::new(
                format!("tree-epochs:node-epoch-record-differs:{}", if on_main { "main-chain-block" } else { "side-branch-block" }),
                format!(
                    "block #{} {:#x}: the node stores [{}], exact evaluation of its branch's statistics gives [{}]",
                    b.number,
                    b.hash,
                    render_ext(&rec),
                    render(w)
                ),
            ));
            break;
        }
    }
    let pv = node_panic_violation();
    node.stop();
    pv?;
    verdict?;
    st.label_n("tree:side-blocks-in-an-epoch-of-their-own-branch", own_epoch_on_side_branch);
    if own_epoch_on_side_branch > 0 {
        st.label("tree:has-side-branch-with-own-epoch");
        st.nontrivial(&serde_json::to_string(case).unwrap_or_default());
        if st.want_sample() {
            st.sample(|| {
                json!({"tree-epochs": {"variant": case.variant, "blocks": list.len(), "epoch_boundaries": boundaries,
                    "side_blocks_in_own_epoch": own_epoch_on_side_branch,
                    "tree": list.iter().map(|b| json!({"n": b.number, "parent_n": tree.get(&b.parent).number,
                        "epoch": b.epoch.number(), "uncles": b.block.uncles().data().len(), "ts": b.block.timestamp()})).collect::<Vec<_>>()}})
            });
        }
    }
    Ok(())
}
